"""dev helper: apply one named self-validation operator to a scratch copy and run its property's check.  usage: tryop.py <pid> <name-substring>"""
import sys, os, shutil, tempfile, subprocess
sys.path.insert(0, "/verif")
from selftest.operators import OPS, _apply
pid, sub = sys.argv[1], sys.argv[2]
for o in OPS[pid]:
    if sub in o["name"]:
        d = tempfile.mkdtemp(prefix="op_")
        try:
            shutil.copytree("/repo/selfies", d + "/selfies")
            r = _apply(d, o["edits"])
            print(o["name"], "apply:", r)
            x = subprocess.run(["/venv/bin/python", "-m", "sa.check", pid, "--scratch", "--repo", d], cwd="/verif", capture_output=True, text=True)
            print("  exit", x.returncode, [l for l in x.stdout.splitlines() if l.startswith(("SCRATCH", "ANALYSIS"))][:4], "expected", o["rules"])
        finally:
            shutil.rmtree(d)
