"""Regenerate /verif/MANIFEST.json from the rule modules that exist (rules/Cxx.py with REGISTER = True)."""
import importlib, json, os, sys
sys.path.insert(0, "/verif")
props = [json.loads(l) for l in open("/verif/properties.jsonl")]
NA = {
 "C05": "Correctness/completeness of the general-graph matching used for kekulisation and independence from atom order are value-level algorithmic claims; no shape rule distinguishes the missing blossom step from a correct algorithm (DESIGN.md §4 C05, §7). Static analysis is not applicable; no runtime test is substituted.",
}
checks, na = [], []
for p in props:
    pid = p["id"]
    try:
        mod = importlib.import_module("rules." + pid)
    except ModuleNotFoundError:
        mod = None
    if mod is None or not getattr(mod, "REGISTER", False):
        na.append({"property_id": pid, "reason": NA.get(pid, "check not yet registered in this session (rule pack under construction; see DESIGN.md)")})
        continue
    M = mod.META
    checks.append({
        "property_id": pid,
        "quick_cmd": "/venv/bin/python -m sa.check %s --tier quick" % pid,
        "thorough_cmd": "/venv/bin/python -m sa.check %s --tier thorough" % pid,
        "evidence_file": "evidence/%s.json" % pid,
        "replay_cmd_template": "/venv/bin/python -m sa.check --replay {path}",
        "engine": "sa",
        "level_claimed": {"category": "other", "text": M["level_text"], "design_ref": "DESIGN.md §4 " + pid},
        "level_note": M["level_note"],
        "technique": M["technique"],
    })
man = {
 "version": 1,
 "setup_cmd": "/venv/bin/python -m compileall -q sa rules spec && /venv/bin/python -m sa.selftest",
 "hooks": {"guard": "SELFIES_VERIF", "enable": "none: static analysis reads /repo sources and needs no instrumentation (guard declared, unused)",
           "baseline_off_cmd": "cd /repo && /venv/bin/python -m pytest -ra -q -p no:cacheprovider --timeout=900 --continue-on-collection-errors",
           "source_commits": [], "add_only": True},
 "engines": [{"name": "sa", "path": "sa/", "serves_properties": [c["property_id"] for c in checks],
              "kind_free_text": "own static analyser over ast: program database + type inference + call graph (E0), exception-escape/termination (E1), linear fact engine with Fourier-Motzkin entailment (E2/E3), points-to/effect analysis (E4), constant folder for closed initialisers (E5), regular-language engine (E6), taint (E7)"}],
 "checks": checks,
 "not_applicable": na,
 "notes": "All checks are static: they parse /repo/selfies from the working tree on every run and never import or execute it. Exit 2 = ANALYSIS-ERROR (analyser could not model something), never a silent pass. Known findings: known_findings.json.",
}
json.dump(man, open("/verif/MANIFEST.json", "w"), indent=1)
print("checks:", [c["property_id"] for c in checks], "na:", [n["property_id"] for n in na])
