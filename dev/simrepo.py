"""Simulate 'a maintainer refactored /repo, then the registered thorough commands are run': apply one behaviour-preserving
patch to a scratch copy, point the analyser at it (SA_REPO) and run the thorough tier of the given properties with outputs
redirected (SA_OUT_DIR).  usage: simrepo.py <patch.diff> <pid,pid,...>"""
import os, shutil, subprocess, sys, tempfile
patch, pids = sys.argv[1], sys.argv[2].split(",")
d = tempfile.mkdtemp(prefix="simrepo_")
out = tempfile.mkdtemp(prefix="simout_")
try:
    shutil.copytree("/repo/selfies", d + "/selfies")
    r = subprocess.run(["git", "apply", "--include=selfies/*", patch], cwd=d, capture_output=True, text=True)
    if r.returncode:
        print("APPLY-FAILED", r.stderr[:200]); sys.exit(3)
    env = dict(os.environ, SA_REPO=d, SA_OUT_DIR=out)
    for p in pids:
        x = subprocess.run(["/venv/bin/python", "-m", "sa.check", p, "--tier", "thorough"], cwd="/verif", capture_output=True, text=True, env=env)
        bad = [l[:900] for l in x.stdout.splitlines() if l.startswith(("VIOLATION", "ANALYSIS"))]
        print(p, "exit", x.returncode, " | ".join(bad))
finally:
    shutil.rmtree(d, ignore_errors=True); shutil.rmtree(out, ignore_errors=True)
