"""Confirm each seeded change myself: demo passes on the clean tree, fails with the patch; the pinned suite still passes
with the patch (apart from the emptied datasets path1/path6 and the flaky hiv path12). Uses scratch worktrees of /repo."""
import json, os, subprocess, sys, shutil
from concurrent.futures import ThreadPoolExecutor
import sys as _sys
SEED = _sys.argv[1] if len(_sys.argv) > 1 else "/tmp/seed"
OUT = _sys.argv[2] if len(_sys.argv) > 2 else "/tmp/seed_verify.json"
ONLY = _sys.argv[3].split(",") if len(_sys.argv) > 3 else None
jobs = []
for pid in sorted(os.listdir(SEED)):
    d = os.path.join(SEED, pid)
    if not os.path.isdir(d) or (ONLY and pid not in ONLY): continue
    for mk in sorted(os.listdir(d)):
        if os.path.exists(os.path.join(d, mk, "patch.diff")) and os.path.exists(os.path.join(d, mk, "demo.py")):
            jobs.append((pid, mk))
def sh(cmd, cwd, env=None, timeout=1500):
    e = dict(os.environ); e.update(env or {})
    r = subprocess.run(cmd, cwd=cwd, env=e, shell=True, capture_output=True, text=True, timeout=timeout)
    return r.returncode, (r.stdout + r.stderr)[-3000:]
def run(job):
    pid, mk = job
    wt = "/tmp/wtv/%s_%s" % (pid, mk)
    res = {"id": "%s/%s" % (pid, mk)}
    try:
        shutil.rmtree(wt, ignore_errors=True)
        subprocess.run(["git", "-C", "/repo", "worktree", "prune"], capture_output=True)
        rc, out = sh("git -C /repo worktree add --detach -f %s HEAD" % wt, "/")
        if rc: res["error"] = out; return res
        demo = os.path.join(SEED, pid, mk, "demo.py")
        env = {"PYTHONPATH": wt}
        rc, out = sh("/venv/bin/python %s" % demo, wt, env, 900)
        res["demo_clean_rc"] = rc
        rc, out = sh("git apply %s" % os.path.join(SEED, pid, mk, "patch.diff"), wt)
        res["apply_rc"] = rc
        if rc: res["error"] = out; return res
        rc, out = sh("/venv/bin/python %s" % demo, wt, env, 900)
        res["demo_patched_rc"] = rc
        res["demo_patched_tail"] = out[-300:]
        rc, out = sh("/venv/bin/python -m pytest -q -p no:cacheprovider --timeout=900 -x tests/test_selfies.py tests/test_selfies_utils.py tests/test_specific_cases.py", wt, env)
        res["quick_tests_rc"] = rc
        rc, out = sh("/venv/bin/python -m pytest -q -p no:cacheprovider --timeout=900 tests", wt, env, 1800)
        failed = sorted(set(l.split("::")[-1].split(" ")[0] for l in out.splitlines() if l.startswith("FAILED")))
        res["full_failed"] = failed
        res["full_ok"] = set(failed) <= {"test_roundtrip_translation[test_path1]", "test_roundtrip_translation[test_path6]", "test_roundtrip_translation[test_path12]"}
    except Exception as e:
        res["error"] = repr(e)
    finally:
        subprocess.run(["git", "-C", "/repo", "worktree", "remove", "--force", wt], capture_output=True)
        shutil.rmtree(wt, ignore_errors=True)
    return res
os.makedirs("/tmp/wtv", exist_ok=True)
results = []
with ThreadPoolExecutor(8) as ex:
    for r in ex.map(run, jobs):
        results.append(r)
        print(json.dumps(r)[:300], flush=True)
        json.dump(results, open(OUT, "w"), indent=1)
