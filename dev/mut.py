import subprocess,shutil,tempfile,os,sys
def mut(pids, edits, show=900):
    d=tempfile.mkdtemp(prefix="mut_"); shutil.copytree("/repo/selfies", d+"/selfies")
    try:
        for rel,old,new in edits:
            p=os.path.join(d,rel); s=open(p).read(); assert old in s, old; open(p,"w").write(s.replace(old,new,1)); compile(open(p).read(),p,"exec")
        for pid in pids:
            r=subprocess.run(["/venv/bin/python","-m","sa.check",pid,"--repo",d],cwd="/verif",capture_output=True,text=True)
            print(pid,"exit",r.returncode); print("\n".join(l for l in r.stdout.splitlines() if not l.startswith("KNOWN"))[:show])
    finally: shutil.rmtree(d)
