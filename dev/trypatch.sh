#!/bin/sh
# usage: trypatch.sh <patch> <pid>[,<pid>...] : apply a patch to a scratch copy of /repo/selfies and run the named checks in scratch mode
P="$1"; IDS=$(echo "$2" | tr ',' ' ')
D=$(mktemp -d /tmp/tp_XXXX); cp -r /repo/selfies $D/
(cd $D && git apply --include='selfies/*' "$P") || { echo APPLY-FAILED; rm -rf $D; exit 3; }
for q in $IDS; do
  cd /verif && /venv/bin/python -m sa.check $q --scratch --repo $D | grep -E "^SCRATCH|^ANALYSIS" | head -4 | sed "s|^|$q: |"
done
rm -rf $D
