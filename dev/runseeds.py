"""Run registered checks against every seeded patch (scratch copy of /repo/selfies + patch)."""
import json, os, shutil, subprocess, sys, tempfile
from concurrent.futures import ThreadPoolExecutor
SEED = sys.argv[1] if len(sys.argv) > 1 else "/tmp/seed"
only = sys.argv[2].split(",") if len(sys.argv) > 2 else None
man = json.load(open("/verif/MANIFEST.json"))
pids = [c["property_id"] for c in man["checks"]]
jobs = []
for pid in sorted(os.listdir(SEED)):
    d = os.path.join(SEED, pid)
    if not os.path.isdir(d): continue
    for mk in sorted(os.listdir(d)):
        p = os.path.join(d, mk, "patch.diff")
        if os.path.exists(p) and (only is None or pid in only):
            jobs.append((pid, mk, p))
def run(job):
    pid, mk, patch = job
    d = tempfile.mkdtemp(prefix="seed_")
    try:
        shutil.copytree("/repo/selfies", d + "/selfies")
        r = subprocess.run(["git", "apply", "--include=selfies/*", patch], cwd=d, capture_output=True, text=True)
        if r.returncode != 0:
            return (pid, mk, "APPLY-FAILED " + r.stderr[:200], {})
        res = {}
        for q in pids:
            rr = subprocess.run(["/venv/bin/python", "-m", "sa.check", q, "--scratch", "--repo", d], cwd="/verif", capture_output=True, text=True)
            rules = sorted({l.split()[1].split("=", 1)[1] for l in rr.stdout.splitlines() if l.startswith("SCRATCH-VIOLATION")})
            res[q] = (rr.returncode, rules, [l for l in rr.stdout.splitlines() if l.startswith("ANALYSIS")][:1])
        return (pid, mk, "ok", res)
    finally:
        shutil.rmtree(d)
allres = {}
with ThreadPoolExecutor(12) as ex:
    for pid, mk, status, res in ex.map(run, jobs):
        allres["%s/%s" % (pid, mk)] = {q: {"exit": v[0], "rules": v[1]} for q, v in res.items()}
        json.dump(allres, open(os.environ.get("SEED_CATCH_OUT", "/tmp/seed_catch.json"), "w"), indent=1)
        hits = {q: v for q, v in res.items() if v[0] != 0}
        own = res.get(pid, ("-",))[0]
        print("%s/%s %s own=%s | %s" % (pid, mk, status, own, "; ".join("%s:%s%s" % (q, v[0], v[1] or v[2]) for q, v in hits.items())))
