#!/bin/sh
# usage: rebase_patch.sh <patch> <old-commit> : rewrite <patch> (made against <old-commit>) so that it applies to /repo HEAD.
# On a conflict the patch's side is taken and the fixes made since (F13: recursive-call offset, F14: ring bonds first) are
# re-applied textually where the patch's version still has the old text.
set -e
P="$1"; OLD="$2"
T=$(mktemp -d /tmp/rebase_XXXX)
git clone -q /repo "$T/r"
cd "$T/r"
git checkout -q "$OLD"
git apply "$P"
git -c user.email=a@b -c user.name=x commit -qam seeded
S=$(git rev-parse HEAD)
git checkout -q main
if git -c user.email=a@b -c user.name=x cherry-pick $S >/dev/null 2>&1; then
  echo "rebased $P"
else
  for f in $(git diff --name-only --diff-filter=U); do git checkout --theirs "$f"; done
  /venv/bin/python - <<'PY'
import re
p="selfies/encoder.py"; s=open(p).read()
s2=s.replace("attribution_maps, len(derived))","attribution_maps,\n                    attribution_index + len(derived))")
s2=re.sub(r"^( *)(\w+) = mol\.get_out_dirbonds\(curr\)\n", lambda m: "%s# ring symbols first: that is where the decoder puts ring bonds\n%s%s = sorted(mol.get_out_dirbonds(curr),\n%s%s key=lambda b: not b.ring_bond)\n" % (m.group(1), m.group(1), m.group(2), m.group(1), " " * (len(m.group(2)) + 10)), s2, flags=re.M)
assert s2!=s, "no textual re-application possible"
open(p,"w").write(s2)
compile(s2, p, "exec")
PY
  git add -A; git -c user.email=a@b -c user.name=x commit -qm seeded
  echo "rebased-with-resolution $P"
fi
grep -n "sorted(mol.get_out_dirbonds\|attribution_index + len(derived)\|get_out_dirbonds(curr)" selfies/encoder.py | head -5
git diff HEAD~1 HEAD > "$P.new"; mv "$P.new" "$P"
cd /; rm -rf "$T"
