#!/bin/sh
# usage: rebase_patch.sh <patch> <old-commit> : rewrite <patch> (made against <old-commit>) so that it applies to /repo HEAD.
# On a conflict the patch's side is taken and the F13 fix (the only difference between the two commits) is re-applied textually.
set -e
P="$1"; OLD="$2"
T=$(mktemp -d /tmp/rebase_XXXX)
git clone -q /repo "$T/r"
cd "$T/r"
git checkout -q "$OLD"
git apply "$P"
git -c user.email=a@b -c user.name=x commit -qam seeded
S=$(git rev-parse HEAD)
git checkout -q main
if git -c user.email=a@b -c user.name=x cherry-pick $S >/dev/null 2>&1; then
  echo "rebased $P"
else
  git checkout --theirs selfies/encoder.py
  /venv/bin/python - <<'PY'
import re
p="selfies/encoder.py"; s=open(p).read()
s2=s.replace("attribution_maps, len(derived))","attribution_maps,\n                    attribution_index + len(derived))")
assert s2!=s
open(p,"w").write(s2)
PY
  git add -A; git -c user.email=a@b -c user.name=x commit -qm seeded
  echo "rebased-with-resolution $P"
fi
grep -n "attribution_index + len(derived)\|, len(derived))" selfies/encoder.py | head
git diff HEAD~1 HEAD > "$P.new"; mv "$P.new" "$P"
cd /; rm -rf "$T"
