"""Copy the confirmed seeded changes into /verif/seeded/<id>/ with meta.json (verification + which checks catch them)."""
import json, os, shutil, re
SEED = "/tmp/seed"
ver = {x["id"]: x for x in json.load(open("/tmp/seed_verify.json"))}
catch = json.load(open("/tmp/seed_catch.json"))
props = {json.loads(l)["id"]: json.loads(l) for l in open("/verif/properties.jsonl")}
out_rows = []
for sid in sorted(ver):
    v = ver[sid]
    pid, mk = sid.split("/")
    ok = v.get("demo_clean_rc") == 0 and v.get("demo_patched_rc") not in (0, None) and v.get("full_ok")
    if not ok:
        print("SKIP", sid, v)
        continue
    dst = "/verif/seeded/%s-%s" % (pid, mk)
    os.makedirs(dst, exist_ok=True)
    shutil.copy(os.path.join(SEED, pid, mk, "patch.diff"), dst + "/patch.diff")
    shutil.copy(os.path.join(SEED, pid, mk, "demo.py"), dst + "/demo.py")
    notes = open(os.path.join(SEED, pid, mk, "notes.md")).read() if os.path.exists(os.path.join(SEED, pid, mk, "notes.md")) else ""
    open(dst + "/notes.md", "w").write(notes)
    c = catch.get(sid, {})
    caught_by = {q: r["rules"] for q, r in c.items() if r["exit"] == 1}
    errors = sorted(q for q, r in c.items() if r["exit"] == 2)
    meta = {
        "id": "%s-%s" % (pid, mk),
        "breaks_property": pid,
        "property_title": props[pid]["title"],
        "origin": "written by an independent sub-agent that saw only the property text and a scratch worktree of /repo",
        "needs_to_manifest": (re.sub(r"\s+", " ", notes)[:600] if notes else ""),
        "confirmed": {
            "demo_on_clean_tree": "exit %s (PASS)" % v.get("demo_clean_rc"),
            "demo_with_patch": "exit %s (FAIL)" % v.get("demo_patched_rc"),
            "quick_tests_with_patch": "exit %s" % v.get("quick_tests_rc"),
            "full_suite_with_patch_failed_tests": v.get("full_failed"),
            "full_suite_ok_modulo_emptied_and_flaky": v.get("full_ok"),
            "how": "scratch worktree of /repo HEAD under /tmp (removed afterwards): PYTHONPATH=<wt> /venv/bin/python demo.py before/after `git apply patch.diff`; /venv/bin/python -m pytest -q tests",
        },
        "static_checks": {"caught_by_own_property_check": pid in caught_by, "caught_by": caught_by, "analysis_error_in": errors,
                          "how": "patch applied to a scratch copy of /repo/selfies; /venv/bin/python -m sa.check <id> --repo <copy> for every registered check"},
    }
    json.dump(meta, open(dst + "/meta.json", "w"), indent=1)
    out_rows.append((meta["id"], pid in caught_by, caught_by, errors))
print(len(out_rows), "seeded changes;", sum(1 for r in out_rows if r[1]), "caught by their own property's check;", sum(1 for r in out_rows if r[2]), "caught by some check")
with open("/verif/seeded/SUMMARY.md", "w") as fh:
    fh.write("| seeded change | own check | caught by (rules) | analysis-error in |\n|---|---|---|---|\n")
    for sid, own, cb, err in out_rows:
        fh.write("| %s | %s | %s | %s |\n" % (sid, "yes" if own else "no", "; ".join("%s:%s" % (q, ",".join(r)) for q, r in sorted(cb.items())) or "-", ", ".join(err) or "-"))
