"""Apply as many behaviour-preserving patches (selftest/benign) as apply together, in a given order, to one scratch copy and
run every check on the combined tree: interactions between refactorings must stay silent too."""
import os, sys, shutil, subprocess, tempfile, random, json
names = sorted(f for f in os.listdir("/verif/selftest/benign") if f.endswith(".diff"))
seed = int(sys.argv[1]) if len(sys.argv) > 1 else 0
random.Random(seed).shuffle(names)
d = tempfile.mkdtemp(prefix="combo_")
applied = []
try:
    shutil.copytree("/repo/selfies", d + "/selfies")
    for n in names:
        r = subprocess.run(["git", "apply", "--include=selfies/*", "/verif/selftest/benign/" + n], cwd=d, capture_output=True, text=True)
        if r.returncode == 0:
            applied.append(n)
    ok = True
    for dp, _, fs in os.walk(d + "/selfies"):
        for f in fs:
            if f.endswith(".py"):
                try:
                    compile(open(os.path.join(dp, f)).read(), f, "exec")
                except SyntaxError as e:
                    ok = False
                    print("does not compile", f, e)
    print("seed", seed, "applied", len(applied), applied)
    man = json.load(open("/verif/MANIFEST.json"))
    for c in man["checks"]:
        q = c["property_id"]
        x = subprocess.run(["/venv/bin/python", "-m", "sa.check", q, "--scratch", "--repo", d], cwd="/verif", capture_output=True, text=True)
        if x.returncode != 0:
            print("  ", q, "exit", x.returncode, " | ".join(l[:200] for l in x.stdout.splitlines() if l.startswith(("SCRATCH", "ANALYSIS")))[:600])
    print("done")
finally:
    shutil.rmtree(d)
