"""Copy the confirmed round-10 seeded changes into /verif/seeded/<pid>-r2m<k>/ (patch, demo, notes, meta.json)."""
import json, os, shutil, re
SEED = "/tmp/seed10"
ver = {x["id"]: x for x in json.load(open("/tmp/seed10_verify.json"))}
catch = json.load(open("/tmp/seed10_catch.json"))
props = {json.loads(l)["id"]: json.loads(l) for l in open("/verif/properties.jsonl")}
n = 0
for sid in sorted(ver):
    v = ver[sid]
    pid, mk = sid.split("/")
    ok = v.get("demo_clean_rc") == 0 and v.get("demo_patched_rc") not in (0, None) and v.get("full_ok")
    if not ok:
        print("SKIP", sid, v)
        continue
    dst = "/verif/seeded/%s-r10%s" % (pid, mk)
    os.makedirs(dst, exist_ok=True)
    for f in ("patch.diff", "demo.py", "notes.md"):
        src = os.path.join(SEED, pid, mk, f)
        if os.path.exists(src):
            shutil.copy(src, dst + "/" + f)
    notes = open(dst + "/notes.md").read() if os.path.exists(dst + "/notes.md") else ""
    c = catch.get(sid, {})
    caught_by = {q: r["rules"] for q, r in c.items() if r["exit"] == 1}
    errors = sorted(q for q, r in c.items() if r["exit"] == 2)
    meta = {
        "id": "%s-r10%s" % (pid, mk), "round": 10, "breaks_property": pid, "property_title": props[pid]["title"],
        "origin": "written by an independent sub-agent that saw only the property text and a scratch worktree of /repo (HEAD 9ef00ff)",
        "needs_to_manifest": (re.sub(r"\s+", " ", notes)[:600] if notes else ""),
        "confirmed": {"demo_on_clean_tree": "exit %s (PASS)" % v.get("demo_clean_rc"), "demo_with_patch": "exit %s (FAIL)" % v.get("demo_patched_rc"),
                      "quick_tests_with_patch": "exit %s" % v.get("quick_tests_rc"), "full_suite_with_patch_failed_tests": v.get("full_failed"),
                      "full_suite_ok_modulo_emptied_and_flaky": v.get("full_ok"),
                      "how": "dev/verify_seeds.py: scratch worktree of /repo HEAD under /tmp (removed afterwards): PYTHONPATH=<wt> /venv/bin/python demo.py before/after `git apply patch.diff`; /venv/bin/python -m pytest -q tests"},
        "static_checks": {"caught_by_own_property_check": pid in caught_by, "caught_by": caught_by, "analysis_error_in": errors,
                          "how": "patch applied to a scratch copy of /repo/selfies; /venv/bin/python -m sa.check <id> --scratch --repo <copy> for every registered check (dev/runseeds.py)"},
    }
    json.dump(meta, open(dst + "/meta.json", "w"), indent=1)
    n += 1
print(n, "round-10 seeded changes stored")
