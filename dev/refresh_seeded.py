"""Refresh seeded/*/meta.json 'static_checks' and seeded/SUMMARY.md from the last dev/runseeds.py run (/tmp/seed_catch.json)."""
import json, os
catch = json.load(open("/tmp/seed_catch.json"))
catch2 = json.load(open("/tmp/seed2_catch_all.json")) if os.path.exists("/tmp/seed2_catch_all.json") else {}
catch3 = json.load(open("/tmp/seed3_catch_all.json")) if os.path.exists("/tmp/seed3_catch_all.json") else {}
catch4 = json.load(open("/tmp/seed4_catch.json")) if os.path.exists("/tmp/seed4_catch.json") else {}
catch5 = json.load(open("/tmp/seed5_catch.json")) if os.path.exists("/tmp/seed5_catch.json") else {}
catch6 = json.load(open("/tmp/seed6_catch.json")) if os.path.exists("/tmp/seed6_catch.json") else {}
rows = []
for d in sorted(os.listdir("/verif/seeded")):
    p = "/verif/seeded/%s/meta.json" % d
    if not os.path.exists(p):
        continue
    meta = json.load(open(p))
    pid, mk = d.split("-")
    c = catch2.get("%s/%s" % (pid, mk[2:])) if mk.startswith("r2") else (catch3.get("%s/%s" % (pid, mk[2:])) if mk.startswith("r3") else (catch4.get("%s/%s" % (pid, mk[2:])) if mk.startswith("r4") else (catch5.get("%s/%s" % (pid, mk[2:])) if mk.startswith("r5") else (catch6.get("%s/%s" % (pid, mk[2:])) if mk.startswith("r6") else catch.get("%s/%s" % (pid, mk))))))
    if c is None:
        print("no run for", d)
        continue
    caught_by = {q: r["rules"] for q, r in c.items() if r["exit"] == 1}
    errors = sorted(q for q, r in c.items() if r["exit"] == 2)
    meta["static_checks"] = {"caught_by_own_property_check": pid in caught_by, "caught_by": caught_by, "analysis_error_in": errors,
                             "how": "patch applied to a scratch copy of /repo/selfies; /venv/bin/python -m sa.check <id> --scratch --repo <copy> for every registered check (dev/runseeds.py)"}
    json.dump(meta, open(p, "w"), indent=1)
    rows.append((d, pid in caught_by, caught_by, errors))
print(len(rows), "seeded changes;", sum(1 for r in rows if r[1]), "caught by their own property's check;", sum(1 for r in rows if r[2]), "caught by some check")
with open("/verif/seeded/SUMMARY.md", "w") as fh:
    fh.write("| seeded change | own check | caught by (rules) | analysis-error in |\n|---|---|---|---|\n")
    for sid, own, cb, err in rows:
        fh.write("| %s | %s | %s | %s |\n" % (sid, "yes" if own else "no", "; ".join("%s:%s" % (q, ",".join(r)) for q, r in sorted(cb.items())) or "-", ", ".join(err) or "-"))
