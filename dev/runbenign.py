"""Run every registered check against benign (behaviour-preserving) patches: any non-zero exit is a false alarm."""
import json, os, shutil, subprocess, sys, tempfile
from concurrent.futures import ThreadPoolExecutor
ROOT = sys.argv[1] if len(sys.argv) > 1 else "/tmp/benign"
only = sys.argv[2].split(",") if len(sys.argv) > 2 else None
man = json.load(open("/verif/MANIFEST.json"))
pids = [c["property_id"] for c in man["checks"]]
jobs = []
for b in sorted(os.listdir(ROOT)):
    d = os.path.join(ROOT, b)
    if not os.path.isdir(d) or (only and b not in only): continue
    for r in sorted(os.listdir(d)):
        p = os.path.join(d, r, "patch.diff")
        if os.path.exists(p): jobs.append((b, r, p))
def run(job):
    b, r, patch = job
    d = tempfile.mkdtemp(prefix="benign_")
    try:
        shutil.copytree("/repo/selfies", d + "/selfies")
        rr = subprocess.run(["git", "apply", "--include=selfies/*", patch], cwd=d, capture_output=True, text=True)
        if rr.returncode != 0: return (b, r, "APPLY-FAILED " + rr.stderr[:100], {})
        res = {}
        for q in pids:
            x = subprocess.run(["/venv/bin/python", "-m", "sa.check", q, "--scratch", "--repo", d], cwd="/verif", capture_output=True, text=True)
            if x.returncode != 0:
                res[q] = (x.returncode, [l for l in x.stdout.splitlines() if l.startswith(("SCRATCH", "ANALYSIS"))][:3])
        return (b, r, "ok", res)
    finally:
        shutil.rmtree(d)
with ThreadPoolExecutor(10) as ex:
    for b, r, st, res in ex.map(run, jobs):
        print("%s/%s %s %s" % (b, r, st, "CLEAN" if not res else ""))
        for q, v in res.items():
            print("     %s exit=%s %s" % (q, v[0], " | ".join(x[:230] for x in v[1])))
