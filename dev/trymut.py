"""dev helper: apply a textual replacement on a scratch copy of /repo/selfies and run checks.
usage: trymut.py <pid[,pid]> <relfile> <old> <new>   (old/new python-escaped strings)"""
import sys, os, shutil, tempfile, subprocess
pids, rel, old, new = sys.argv[1:5]
old = old.encode().decode('unicode_escape'); new = new.encode().decode('unicode_escape')
d = tempfile.mkdtemp(prefix="mut_")
try:
    shutil.copytree("/repo/selfies", d + "/selfies")
    p = os.path.join(d, rel)
    s = open(p).read()
    if old not in s:
        print("OLD NOT FOUND"); sys.exit(3)
    s = s.replace(old, new, 1)
    open(p, "w").write(s)
    compile(s, p, "exec")
    for pid in pids.split(","):
        r = subprocess.run(["/venv/bin/python", "-m", "sa.check", pid, "--scratch", "--repo", d], cwd="/verif", capture_output=True, text=True)
        out = [l for l in r.stdout.splitlines() if l.startswith(("VIOLATION", "SCRATCH", "  ", "ANALYSIS", "KNOWN"))]
        print(pid, "exit", r.returncode); print("\n".join(out[:12]))
finally:
    shutil.rmtree(d)
