"""Run every registered check against every stored seeded change (/verif/seeded/<id>/patch.diff applied to a scratch copy of
/repo/selfies), refresh seeded/*/meta.json 'static_checks' and seeded/SUMMARY.md.   usage: runseeded.py [id-prefix,...]"""
import json, os, shutil, subprocess, sys, tempfile
from concurrent.futures import ThreadPoolExecutor
args = [a for a in sys.argv[1:] if not a.startswith("--")]
OWN_ONLY = "--own-only" in sys.argv       # re-run just the check of the property each change breaks (keeps the other columns)
only = args[0].split(",") if args else None
man = json.load(open("/verif/MANIFEST.json"))
pids = [c["property_id"] for c in man["checks"]]
jobs = []
for d in sorted(os.listdir("/verif/seeded")):
    p = "/verif/seeded/%s/patch.diff" % d
    if os.path.exists(p) and (only is None or any(d.startswith(o) for o in only)):
        jobs.append((d, p))
def run(job):
    sid, patch = job
    d = tempfile.mkdtemp(prefix="seed_")
    try:
        shutil.copytree("/repo/selfies", d + "/selfies")
        r = subprocess.run(["git", "apply", "--include=selfies/*", patch], cwd=d, capture_output=True, text=True)
        if r.returncode != 0:
            return (sid, "APPLY-FAILED " + r.stderr[:200], {})
        res = {}
        for q in ([sid.split("-")[0]] if OWN_ONLY else pids):
            rr = subprocess.run(["/venv/bin/python", "-m", "sa.check", q, "--scratch", "--repo", d], cwd="/verif", capture_output=True, text=True)
            rules = sorted({l.split()[1].split("=", 1)[1] for l in rr.stdout.splitlines() if l.startswith("SCRATCH-VIOLATION")})
            res[q] = {"exit": rr.returncode, "rules": rules}
        return (sid, "ok", res)
    finally:
        shutil.rmtree(d)
rows = []
with ThreadPoolExecutor(14) as ex:
    for sid, status, res in ex.map(run, jobs):
        pid = sid.split("-")[0]
        if status != "ok":
            print(sid, status)
            continue
        p = "/verif/seeded/%s/meta.json" % sid
        meta = json.load(open(p))
        caught_by = {q: r["rules"] for q, r in res.items() if r["exit"] == 1}
        errors = sorted(q for q, r in res.items() if r["exit"] == 2)
        if OWN_ONLY:
            old = meta.get("static_checks", {})
            cb = {q: r for q, r in old.get("caught_by", {}).items() if q != pid}
            cb.update(caught_by)
            caught_by = cb
            errors = sorted(set(e for e in old.get("analysis_error_in", []) if e != pid) | set(errors))
        meta["static_checks"] = {"caught_by_own_property_check": pid in caught_by, "caught_by": caught_by, "analysis_error_in": errors,
                                 "how": "patch applied to a scratch copy of /repo/selfies; /venv/bin/python -m sa.check <id> --scratch --repo <copy> for every registered check (dev/runseeded.py)"}
        json.dump(meta, open(p, "w"), indent=1)
        print("%s own=%s | %s" % (sid, int(pid in caught_by), "; ".join("%s:%s" % (q, ",".join(r)) for q, r in sorted(caught_by.items())) + (" ERR:" + ",".join(errors) if errors else "")))
# summary over everything stored (also the ones not re-run now)
rows = []
for d in sorted(os.listdir("/verif/seeded")):
    p = "/verif/seeded/%s/meta.json" % d
    if os.path.exists(p):
        sc = json.load(open(p)).get("static_checks", {})
        rows.append((d, sc.get("caught_by_own_property_check"), sc.get("caught_by", {}), sc.get("analysis_error_in", [])))
print(len(rows), "seeded changes;", sum(1 for r in rows if r[1]), "caught by their own property's check;", sum(1 for r in rows if r[2]), "caught by some check")
with open("/verif/seeded/SUMMARY.md", "w") as fh:
    fh.write("| seeded change | own check | caught by (rules) | analysis-error in |\n|---|---|---|---|\n")
    for sid, own, cb, err in rows:
        fh.write("| %s | %s | %s | %s |\n" % (sid, "yes" if own else "no", "; ".join("%s:%s" % (q, ",".join(r)) for q, r in sorted(cb.items())) or "-", ", ".join(err) or "-"))
