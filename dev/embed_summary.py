"""Replace the seeded-change table embedded in DESIGN.md §9.4 by the current seeded/SUMMARY.md and refresh the counts."""
import re
s = open("/verif/DESIGN.md").read()
tab = open("/verif/seeded/SUMMARY.md").read().strip()
rows = [l for l in tab.splitlines()[2:] if l.startswith("|")]
own = sum(1 for l in rows if l.split("|")[2].strip() == "yes")
some = sum(1 for l in rows if l.split("|")[3].strip() != "-")
a = s.index("| seeded change | own check | caught by (rules) | analysis-error in |")
b = s.index("### 9.4b")
s = s[:a] + tab + "\n\n" + s[b:]
s = re.sub(r"\*\*\d+ of \d+ caught by the check\nof the property they break, \d+ by some check\*\*", "**%d of %d caught by the check\nof the property they break, %d by some check**" % (own, len(rows), some), s)
open("/verif/DESIGN.md", "w").write(s)
print(len(rows), own, some)
