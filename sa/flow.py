"""Generic forward dataflow over Python's structured control flow (syntax-directed).

A client subclasses Forward and provides
  join(a, b), bottom is None (unreachable)
  simple(stmt, state) -> state                 for non-compound statements
  test(expr, state) -> (state_if_true, state_if_false)
  exit(kind, node, state)                      kind in 'return' 'raise' 'end'
States must be immutable / comparable with ==.  None means unreachable.
"""
import ast


class Forward:
    MAX_ITERS = 50

    def __init__(self, func_node):
        self.fnode = func_node

    # --- client API ----------------------------------------------------------
    def join(self, a, b):
        raise NotImplementedError

    def simple(self, st, state):
        return state

    def test(self, expr, state):
        return state, state

    def exit(self, kind, node, state):
        pass

    def enter_handler(self, handler, state):
        return state

    def loop_head(self, node, state):
        return state

    def for_bind(self, node, state):
        """state after binding the loop target from the iterator (one iteration)"""
        return state

    # --- driver ----------------------------------------------------------------
    def j(self, a, b):
        if a is None:
            return b
        if b is None:
            return a
        return self.join(a, b)

    def run(self, init):
        out = self.block(self.fnode.body, init, None)
        if out is not None:
            self.exit("end", self.fnode, out)
        return out

    def block(self, body, state, ctx):
        for st in body:
            if state is None:
                return None
            state = self.stmt(st, state, ctx)
        return state

    def stmt(self, st, state, ctx):
        if isinstance(st, ast.If):
            t, f = self.test(st.test, state)
            a = self.block(st.body, t, ctx) if t is not None else None
            b = self.block(st.orelse, f, ctx) if f is not None else None
            return self.j(a, b)
        if isinstance(st, ast.While):
            return self._loop(st, state, ctx, is_for=False)
        if isinstance(st, (ast.For, ast.AsyncFor)):
            return self._loop(st, state, ctx, is_for=True)
        if isinstance(st, ast.Try):
            return self._try(st, state, ctx)
        if isinstance(st, (ast.With, ast.AsyncWith)):
            state = self.simple(st, state)
            return self.block(st.body, state, ctx)
        if isinstance(st, ast.Return):
            state = self.simple(st, state)
            if state is not None:
                if ctx is not None and ctx.get("finally"):
                    pass
                self.exit("return", st, state)
            return None
        if isinstance(st, ast.Raise):
            state = self.simple(st, state)
            if state is not None:
                self._raise(st, state, ctx)
            return None
        if isinstance(st, ast.Break):
            if ctx is not None and "loop" in ctx:
                ctx["loop"]["breaks"] = self.j(ctx["loop"]["breaks"], state)
            return None
        if isinstance(st, ast.Continue):
            if ctx is not None and "loop" in ctx:
                ctx["loop"]["continues"] = self.j(ctx["loop"]["continues"], state)
            return None
        if isinstance(st, (ast.FunctionDef, ast.AsyncFunctionDef, ast.ClassDef)):
            return self.simple(st, state)
        new = self.simple(st, state)
        # any simple statement may raise: make the pre- and post-state visible to handlers
        if ctx is not None and "try" in ctx:
            ctx["try"]["inner"] = self.j(self.j(ctx["try"]["inner"], state), new)
        return new

    def _raise(self, st, state, ctx):
        if ctx is not None and "try" in ctx:
            ctx["try"]["inner"] = self.j(ctx["try"]["inner"], state)
            ctx["try"]["raises"].append((st, state))
        else:
            self.exit("raise", st, state)

    def _loop(self, st, state, ctx, is_for):
        head = state
        exit_state = None
        loopctx = None
        for _ in range(self.MAX_ITERS):
            loopctx = dict(ctx or {})
            loopctx["loop"] = {"breaks": None, "continues": None}
            h = self.loop_head(st, head)
            if is_for:
                t = self.for_bind(st, self.simple(_IterEval(st), h))
                f = h
            else:
                t, f = self.test(st.test, h)
            body_out = self.block(st.body, t, loopctx) if t is not None else None
            back = self.j(body_out, loopctx["loop"]["continues"])
            new_head = self.j(head, back)
            exit_state = f
            if new_head == head:
                break
            head = new_head
        else:
            raise RuntimeError("dataflow did not converge on loop at line %d" % st.lineno)
        # while/for ... else
        if st.orelse:
            exit_state = self.block(st.orelse, exit_state, ctx) if exit_state is not None else None
        return self.j(exit_state, loopctx["loop"]["breaks"] if loopctx else None)

    def _try(self, st, state, ctx):
        tctx = dict(ctx or {})
        tctx["try"] = {"inner": state, "raises": []}
        body_out = self.block(st.body, state, tctx)
        inner = tctx["try"]["inner"]
        outs = []
        if st.orelse:
            body_out = self.block(st.orelse, body_out, ctx) if body_out is not None else None
        outs.append(body_out)
        caught_all = False
        for h in st.handlers:
            hs = self.enter_handler(h, inner)
            outs.append(self.block(h.body, hs, ctx) if hs is not None else None)
            if h.type is None or (isinstance(h.type, ast.Name) and h.type.id in ("Exception", "BaseException")):
                caught_all = True
        # explicit raises inside the body that no handler is known to catch propagate outward
        for rst, rstate in tctx["try"]["raises"]:
            if not self.handler_catches(st, rst):
                self._raise(rst, rstate, ctx)
        out = None
        for o in outs:
            out = self.j(out, o)
        if st.finalbody:
            out = self.block(st.finalbody, out, ctx) if out is not None else None
        return out

    def handler_catches(self, try_node, raise_node):
        """client may refine; default: a bare/Exception handler catches everything, otherwise the
        raise is assumed to possibly propagate AND possibly be caught (both are explored)."""
        for h in try_node.handlers:
            if h.type is None or (isinstance(h.type, ast.Name) and h.type.id in ("Exception", "BaseException")):
                return True
        return False


class _IterEval(ast.stmt):
    """pseudo statement: evaluation of a for-loop's iterable"""
    _fields = ("value",)

    def __init__(self, for_node):
        super().__init__()
        self.value = for_node.iter
        self.for_node = for_node
        self.lineno = for_node.lineno
        self.col_offset = for_node.col_offset
