"""Rule-pack infrastructure: analysis context, obligations, reports, evidence, known findings."""
import ast
import hashlib
import json
import os
import re
import time

from . import AnalysisError, REPO
from .db import DB, unparse

VERIF = os.path.dirname(os.path.dirname(os.path.abspath(__file__)))


class Ctx:
    """Lazily built shared engines over the current /repo working tree."""

    def __init__(self, repo=REPO, tier="quick"):
        self.repo = repo
        self.tier = tier
        self.db = DB(repo)
        self._cg = self._pt = self._fold = self._ty = None
        self.cache = {}

    @property
    def cg(self):
        if self._cg is None:
            from .cg import CallGraph
            self._cg = CallGraph(self.db)
        return self._cg

    @property
    def ty(self):
        return self.cg.ty

    @property
    def pt(self):
        if self._pt is None:
            from .pts import PointsTo
            self._pt = PointsTo(self.db, self.cg.ty, self.cg)
        return self._pt

    @property
    def fold(self):
        if self._fold is None:
            from .fold import Folder
            self._fold = Folder(self.db)
        return self._fold

    def fn(self, qual):
        return self.db.func(qual)

    def api(self, name):
        r = self.db.public_api().get(name)
        if r is None or r[0] != "func":
            raise AnalysisError("public API function %s not found" % name)
        return r[1]

    def units(self):
        return {"modules": len(self.db.modules), "functions": len(self.db.funcs), "classes": len(self.db.classes)}


def norm(s):
    """normalise construct text for keys (whitespace-insensitive)"""
    return re.sub(r"\s+", " ", s).strip()


class Ob:
    __slots__ = ("rule", "ok", "loc", "func", "construct", "how", "witness", "key", "nontrivial", "status")

    def __init__(self, rule, ok, loc, func, construct, how, witness, key, nontrivial):
        self.rule = rule
        self.ok = ok
        self.loc = loc
        self.func = func
        self.construct = construct
        self.how = how
        self.witness = witness
        self.key = key
        self.nontrivial = nontrivial
        self.status = "discharged" if ok else "violated"

    def as_dict(self):
        d = {"rule": self.rule, "status": self.status, "loc": self.loc, "function": self.func,
             "construct": self.construct, "how": self.how, "key": self.key}
        if self.witness is not None:
            d["witness"] = self.witness
        return d


class Report:
    def __init__(self, pid):
        self.pid = pid
        self.obs = []
        self.counts = {}
        self.notes = []
        self.analysed = {}
        self.floor_failures = []

    def ob(self, rule, ok, node=None, func=None, construct=None, how="", witness=None, key=None,
           nontrivial=False, loc=None):
        """Record one obligation.  `func` is a Func (or a string), node an ast node."""
        if node is not None and hasattr(node, "_sa_func"):
            func = node._sa_func
        fq = func.qual if hasattr(func, "qual") else (func or "")
        if loc is None:
            if hasattr(func, "loc"):
                loc = func.loc(node)
            else:
                loc = ""
        if construct is None and node is not None:
            construct = unparse(node)
        construct = norm(construct or "")[:300]
        short = fq.split(".")[-1] if fq else ""
        if fq and hasattr(func, "cls") and getattr(func, "cls", None) is not None:
            short = func.cls.name + "." + func.name
        if key is None:
            key = "%s/%s/%s/%s" % (self.pid, rule, short, construct[:120])
        else:
            key = "%s/%s/%s" % (self.pid, rule, key)
        o = Ob(rule, bool(ok), loc, fq, construct, how, witness, key, nontrivial)
        self.obs.append(o)
        self.counts[rule] = self.counts.get(rule, 0) + 1
        return o

    def floor(self, rule, minimum, what=""):
        """anti-vacuity: a rule that matches fewer instances than were confirmed by hand makes the
        run an analysis error (exit 2) unless genuine violations are being reported anyway"""
        n = self.counts.get(rule, 0)
        if n < minimum:
            self.floor_failures.append("rule %s matched %d instance(s), below the confirmed floor of %d%s"
                                       % (rule, n, minimum, (" (" + what + ")") if what else ""))

    def note(self, s):
        self.notes.append(s)

    @property
    def violations(self):
        return [o for o in self.obs if not o.ok]


def load_known():
    p = os.path.join(VERIF, "known_findings.json")
    if not os.path.exists(p):
        return {"known": [], "fixed": []}
    with open(p) as fh:
        return json.load(fh)


def finalize(report, tier, seed, wall, meta, out=print):
    """Apply known findings, print VIOLATION / KNOWN-FINDING lines, write evidence.
    Returns exit code."""
    kf = load_known()
    known = {k["key"]: k for k in kf.get("known", []) if k.get("property") == report.pid}
    new = []
    for o in report.violations:
        if o.key in known:
            o.status = "known-finding"
            out("KNOWN-FINDING: property=%s %s [%s] at %s: %s" % (report.pid, known[o.key].get("what", o.key),
                                                                 o.key, o.loc, (o.witness or o.how or "")[:200]))
        else:
            new.append(o)
    rdir = os.path.join(os.environ.get("SA_OUT_DIR", VERIF), "replay")
    seen_keys = set()
    uniq = []
    for o in new:
        if o.key not in seen_keys:
            seen_keys.add(o.key)
            uniq.append(o)
    new = uniq
    if not new and report.floor_failures:
        raise AnalysisError("; ".join(report.floor_failures))
    for o in new:
        os.makedirs(rdir, exist_ok=True)
        h = hashlib.sha1(o.key.encode()).hexdigest()[:12]
        path = os.path.join(rdir, "%s_%s.json" % (report.pid, h))
        with open(path, "w") as fh:
            json.dump({"property": report.pid, **o.as_dict()}, fh, indent=1)
        out("VIOLATION property=%s replay=%s" % (report.pid, path))
        out("  rule %s at %s in %s: %s" % (o.rule, o.loc, o.func, o.construct[:160]))
        if o.witness or o.how:
            out("  %s" % ((o.witness or o.how)[:300]))
    total = len(report.obs)
    discharged = sum(1 for o in report.obs if o.status == "discharged")
    distinct_nt = len({o.key for o in report.obs if o.nontrivial})
    samples = []
    seen_rules = set()
    for o in report.obs:
        if o.rule not in seen_rules or o.status != "discharged":
            seen_rules.add(o.rule)
            samples.append(o.as_dict())
    samples = samples[:80]
    ev = {
        "property_id": report.pid,
        "tier": tier,
        "seed": seed,
        "level": "other",
        "coverage": {
            "explanation": meta.get("explanation", ""),
            "rule": meta.get("rule", "one obligation per (rule, construct) instance found in the parsed tree; "
                                      "non-trivial = needed a non-syntactic discharge (entailment, inclusion, "
                                      "points-to, path or fold argument)"),
            "obligations": total,
            "discharged": discharged,
            "known_findings": sum(1 for o in report.obs if o.status == "known-finding"),
            "evaluations": total,
            "distinct_nontrivial": distinct_nt,
            "per_rule": dict(sorted(report.counts.items())),
            "samples": samples,
            "trusted_base": meta.get("trusted_base", []),
            "analysed": report.analysed,
            "checker_cmd": meta.get("checker_cmd", ""),
            "notes": report.notes,
            "exhaustive": False,
        },
        "assumptions": meta.get("assumptions", []),
        "wall_s": round(wall, 3),
        "violations": len(new),
    }
    edir = os.path.join(os.environ.get("SA_OUT_DIR", VERIF), "evidence")
    os.makedirs(edir, exist_ok=True)
    with open(os.path.join(edir, report.pid + ".json"), "w") as fh:
        json.dump(ev, fh, indent=1, default=str)
    out("%s: %d obligations, %d discharged, %d known finding(s), %d violation(s); rules: %s"
        % (report.pid, total, discharged, ev["coverage"]["known_findings"], len(new),
           ", ".join("%s=%d" % kv for kv in sorted(report.counts.items()))))
    return 1 if new else 0
