"""E2 (part 1): linear expressions over symbolic terms and entailment by Fourier–Motzkin
elimination (an algorithm over rationals; no solver).  All terms are integer-valued unless the
caller says otherwise, so a strict inequality e > 0 is tightened to e - 1 >= 0."""
from fractions import Fraction


class Lin:
    """c0 + sum(c_t * t) with Fraction coefficients; terms are hashable"""
    __slots__ = ("c", "k", "_h")

    def __init__(self, coeffs=None, const=0):
        self.c = {t: Fraction(v) for t, v in (coeffs or {}).items() if v != 0}
        self.k = Fraction(const)
        self._h = None

    @staticmethod
    def var(t):
        return Lin({t: 1}, 0)

    @staticmethod
    def const(k):
        return Lin(None, k)

    def is_const(self):
        return not self.c

    def __add__(self, o):
        o = o if isinstance(o, Lin) else Lin.const(o)
        c = dict(self.c)
        for t, v in o.c.items():
            c[t] = c.get(t, 0) + v
        return Lin(c, self.k + o.k)

    def __neg__(self):
        return Lin({t: -v for t, v in self.c.items()}, -self.k)

    def __sub__(self, o):
        o = o if isinstance(o, Lin) else Lin.const(o)
        return self + (-o)

    def scale(self, f):
        f = Fraction(f)
        return Lin({t: v * f for t, v in self.c.items()}, self.k * f)

    def terms(self):
        return set(self.c)

    def subst(self, t, e):
        if t not in self.c:
            return self
        v = self.c[t]
        c = dict(self.c)
        del c[t]
        return Lin(c, self.k) + e.scale(v)

    def key(self):
        return (tuple(sorted(((repr(t), v) for t, v in self.c.items()))), self.k)

    def __eq__(self, o):
        return isinstance(o, Lin) and self.c == o.c and self.k == o.k

    def __hash__(self):
        if self._h is None:
            self._h = hash(self.key())
        return self._h

    def __repr__(self):
        parts = []
        for t, v in sorted(self.c.items(), key=lambda kv: repr(kv[0])):
            if v == 1:
                parts.append("%s" % (t,))
            elif v == -1:
                parts.append("-%s" % (t,))
            else:
                parts.append("%s*%s" % (v, t))
        if self.k != 0 or not parts:
            parts.append(str(self.k))
        return " + ".join(parts).replace("+ -", "- ")


# A constraint is (Lin, op) with op in {">=", "=="}: lin >= 0 / lin == 0.
def ge(a, b=0):
    b = b if isinstance(b, Lin) else Lin.const(b)
    return (a - b, ">=")


def le(a, b=0):
    b = b if isinstance(b, Lin) else Lin.const(b)
    return (b - a, ">=")


def gt(a, b=0):
    b = b if isinstance(b, Lin) else Lin.const(b)
    return (a - b - Lin.const(1), ">=")     # integers


def lt(a, b=0):
    b = b if isinstance(b, Lin) else Lin.const(b)
    return (b - a - Lin.const(1), ">=")


def eq(a, b=0):
    b = b if isinstance(b, Lin) else Lin.const(b)
    return (a - b, "==")


def negate(con):
    """negation of a constraint as a list of alternative constraints (disjunction)"""
    lin, op = con
    if op == ">=":
        return [((-lin) - Lin.const(1), ">=")]            # lin <= -1
    return [(lin - Lin.const(1), ">="), ((-lin) - Lin.const(1), ">=")]   # lin != 0


def feasible(cons, limit=4000):
    """Is the conjunction satisfiable over the rationals?  (Infeasible over Q => infeasible over Z.)"""
    eqs = [l for l, op in cons if op == "=="]
    ineqs = [l for l, op in cons if op == ">="]
    # eliminate equalities by substitution
    while eqs:
        e = eqs.pop()
        if e.is_const():
            if e.k != 0:
                return False
            continue
        t = sorted(e.c, key=repr)[0]
        coef = e.c[t]
        # t = -(e - coef*t)/coef
        rest = Lin({x: v for x, v in e.c.items() if x != t}, e.k).scale(Fraction(-1) / coef)
        eqs = [x.subst(t, rest) for x in eqs]
        ineqs = [x.subst(t, rest) for x in ineqs]
    # FM on inequalities
    ineqs = list({x.key(): x for x in ineqs}.values())
    while True:
        consts = [x for x in ineqs if x.is_const()]
        for x in consts:
            if x.k < 0:
                return False
        ineqs = [x for x in ineqs if not x.is_const()]
        if not ineqs:
            return True
        # choose the variable with the fewest pos*neg combinations
        occ = {}
        for x in ineqs:
            for t, v in x.c.items():
                p, n = occ.get(t, (0, 0))
                occ[t] = (p + (v > 0), n + (v < 0))
        t = min(occ, key=lambda z: (occ[z][0] * occ[z][1], repr(z)))
        pos = [x for x in ineqs if x.c.get(t, 0) > 0]
        neg = [x for x in ineqs if x.c.get(t, 0) < 0]
        rest = [x for x in ineqs if t not in x.c]
        new = rest
        for p in pos:
            for n in neg:
                # p: a*t + P >= 0 (a>0), n: -b*t + N >= 0 (b>0)  =>  b*P + a*N >= 0
                a = p.c[t]
                b = -n.c[t]
                comb = p.scale(b) + n.scale(a)
                new.append(comb)
        ineqs = list({x.key(): x for x in new}.values())
        if len(ineqs) > limit:
            return True   # give up: assume feasible (sound for entailment: we then fail to prove)


def entails(facts, con):
    """facts |= con ?   (con is (Lin, op))"""
    for alt in negate(con):
        if feasible(list(facts) + [alt]):
            return False
    return True


def influence(facts, lin, rounds=6):
    """cone of influence: facts sharing terms (transitively) with lin"""
    terms = set(lin.terms())
    chosen = []
    remaining = list(facts)
    for _ in range(rounds):
        add = [f for f in remaining if f[0].terms() & terms or f[0].is_const()]
        if not add:
            break
        for f in add:
            terms |= f[0].terms()
        chosen.extend(add)
        remaining = [f for f in remaining if f not in add]
    return chosen
