"""E1 helper: syntax-directed guard facts (dominating tests) for the generic discharges.

Facts (hashable tuples) hold on every path reaching a node:
  ('notnone', text)        expression text is not None
  ('isnone', text)
  ('truthy', text)         expression text is truthy (non-empty container / non-zero / not None)
  ('falsy', text)
  ('in', key_text, cont_text)
  ('notin', key_text, cont_text)
  ('strge', text, n)       len(text) >= n   (from comparisons with string literals / slices)
  ('eq', text, const)  ('ne', text, const)
  ('cmp', text)            an arbitrary comparison text known true  (kept for linear-style guards)
A fact is killed when a name occurring in its text is (re)bound, or when its subject container may be mutated.
"""
import ast

from .db import unparse
from .flow import Forward

MUTATORS = {"append", "appendleft", "extend", "insert", "pop", "popleft", "remove", "clear", "sort", "reverse", "update",
            "setdefault", "add", "discard", "popitem", "heappush", "heappop"}


def names_in(text_or_node):
    node = text_or_node
    if isinstance(node, str):
        try:
            node = ast.parse(node, mode="eval").body
        except SyntaxError:
            return set()
    return {n.id for n in ast.walk(node) if isinstance(n, ast.Name)}


def u(e):
    return " ".join(unparse(e).split())


_STR_CONSTS = {}     # name -> str: module-level string constants visible in the function being analysed


def _as_const(node):
    """a Name bound once at module level to a string literal counts as that literal"""
    if isinstance(node, ast.Name) and node.id in _STR_CONSTS:
        return ast.Constant(value=_STR_CONSTS[node.id])
    return node


def facts_of_test(e, pos):
    """facts implied by expression e being true (pos) / false (not pos)"""
    out = set()
    if isinstance(e, ast.UnaryOp) and isinstance(e.op, ast.Not):
        return facts_of_test(e.operand, not pos)
    if isinstance(e, ast.BoolOp):
        if isinstance(e.op, ast.And) and pos:
            for v in e.values:
                out |= facts_of_test(v, True)
        elif isinstance(e.op, ast.Or) and not pos:
            for v in e.values:
                out |= facts_of_test(v, False)
        return out
    if isinstance(e, ast.Compare) and len(e.ops) == 1:
        l, op, r = _as_const(e.left), e.ops[0], _as_const(e.comparators[0])
        lt, rt = u(l), u(r)
        isnone_r = isinstance(r, ast.Constant) and r.value is None
        if isinstance(op, (ast.Is, ast.IsNot)) and isnone_r:
            neg = isinstance(op, ast.IsNot)
            out.add(("notnone", lt) if (pos == neg) else ("isnone", lt))
        elif isinstance(op, (ast.In, ast.NotIn)):
            neg = isinstance(op, ast.NotIn)
            out.add(("in", lt, rt) if (pos != neg) else ("notin", lt, rt))
        elif isinstance(op, (ast.Eq, ast.NotEq)):
            neg = isinstance(op, ast.NotEq)
            eqv = (pos != neg)
            for a, b in ((l, r), (r, l)):
                if isinstance(b, ast.Constant):
                    at = u(a)
                    out.add(("eq", at, repr(b.value)) if eqv else ("ne", at, repr(b.value)))
                    if isinstance(b.value, str):
                        if eqv:
                            # x == "lit"  => len(x) >= len(lit);  x[-k:] == "lit" (len k) => len(x) >= k
                            if isinstance(a, ast.Subscript) and isinstance(a.slice, ast.Slice):
                                out.add(("strge", u(a.value), len(b.value)))
                            elif isinstance(a, ast.Subscript):
                                idx = _const_index(a.slice)
                                if idx is not None:
                                    out.add(("strge", u(a.value), idx + 1 if idx >= 0 else -idx))
                            else:
                                out.add(("strge", at, len(b.value)))
                        elif b.value == "" and not isinstance(a, ast.Subscript):
                            out.add(("strge", at, 1))
                            out.add(("truthy", at))
            if not any(isinstance(x, ast.Constant) for x in (l, r)):
                out.add(("cmp", u(e)) if pos else ("cmp", "not (%s)" % u(e)))
        else:
            out.add(("cmp", u(e)) if pos else ("cmp", "not (%s)" % u(e)))
        return out
    if isinstance(e, (ast.Name, ast.Attribute, ast.Subscript, ast.Call)):
        t = u(e)
        out.add(("truthy", t) if pos else ("falsy", t))
        if pos:
            out.add(("notnone", t))
    return out


def _const_index(s):
    if isinstance(s, ast.Constant) and isinstance(s.value, int):
        return s.value
    if isinstance(s, ast.UnaryOp) and isinstance(s.op, ast.USub) and isinstance(s.operand, ast.Constant) and isinstance(s.operand.value, int):
        return -s.operand.value
    return None


def kill(facts, bound_names=(), mutated_texts=()):
    out = set()
    bn = set(bound_names)
    mt = set(mutated_texts)
    for f in facts:
        texts = [x for x in f[1:] if isinstance(x, str)]
        dead = False
        for t in texts:
            if names_in(t) & bn:
                dead = True
            for m in mt:
                if t == m or t.startswith(m + "[") or t.startswith(m + ".") or ("(" + m + ")") in t or t.startswith("len(%s" % m):
                    dead = True
        if not dead:
            out.add(f)
    return frozenset(out)


class GuardFlow(Forward):
    def __init__(self, func, noreturn=None):
        super().__init__(func.node)
        self.func = func
        self.noreturn = noreturn or (lambda call: False)
        self.at = {}      # id(node) -> facts before the statement / inside the expression

    def join(self, a, b):
        return a & b

    def record_expr(self, e, facts):
        """record facts for every sub-expression, honouring short-circuit evaluation"""
        if e is None:
            return
        self.at[id(e)] = facts
        if isinstance(e, ast.BoolOp):
            cur = facts
            for v in e.values:
                self.record_expr(v, cur)
                cur = cur | frozenset(facts_of_test(v, isinstance(e.op, ast.And)))
            return
        if isinstance(e, ast.IfExp):
            self.record_expr(e.test, facts)
            self.record_expr(e.body, facts | frozenset(facts_of_test(e.test, True)))
            self.record_expr(e.orelse, facts | frozenset(facts_of_test(e.test, False)))
            return
        if isinstance(e, (ast.ListComp, ast.SetComp, ast.GeneratorExp, ast.DictComp)):
            cur = facts
            for g in e.generators:
                self.record_expr(g.iter, cur)
                cur = kill(cur, {n.id for n in ast.walk(g.target) if isinstance(n, ast.Name)})
                it = g.iter
                if isinstance(it, ast.Call) and u(it.func) == "range" and len(it.args) == 1 and isinstance(g.target, ast.Name):
                    cur = cur | {("range", g.target.id, u(it.args[0]))}
                for c in g.ifs:
                    self.record_expr(c, cur)
                    cur = cur | frozenset(facts_of_test(c, True))
            for x in ([e.key, e.value] if isinstance(e, ast.DictComp) else [e.elt]):
                self.record_expr(x, cur)
            return
        if isinstance(e, ast.Lambda):
            self.record_expr(e.body, kill(facts, {a.arg for a in e.args.args}))
            return
        for c in ast.iter_child_nodes(e):
            if isinstance(c, ast.expr):
                self.record_expr(c, facts)
            elif isinstance(c, ast.keyword):
                self.record_expr(c.value, facts)
            elif isinstance(c, ast.Slice):
                for x in (c.lower, c.upper, c.step):
                    self.record_expr(x, facts)

    def test(self, expr, state):
        self.record_expr(expr, state)
        state = self._effects(expr, state)
        return state | frozenset(facts_of_test(expr, True)), state | frozenset(facts_of_test(expr, False))

    def _effects(self, node, state):
        """kill facts invalidated by calls / walrus inside an expression"""
        mut = set()
        bound = set()
        for n in ast.walk(node):
            if isinstance(n, ast.Call):
                if isinstance(n.func, ast.Attribute) and n.func.attr in MUTATORS:
                    mut.add(u(n.func.value))
                fn = u(n.func)
                if fn in ("heapq.heappush", "heapq.heappop", "heapq.heapify") and n.args:
                    mut.add(u(n.args[0]))
            elif isinstance(n, ast.NamedExpr):
                bound |= {x.id for x in ast.walk(n.target) if isinstance(x, ast.Name)}
        if mut or bound:
            return kill(state, bound, mut)
        return state

    def simple(self, st, state):
        self.at[id(st)] = state
        for c in ast.iter_child_nodes(st):
            if isinstance(c, ast.expr):
                self.record_expr(c, state)
        new = state
        if isinstance(st, ast.With):
            for it in st.items:
                self.record_expr(it.context_expr, state)
        # noreturn call as a statement: the rest is unreachable
        if isinstance(st, ast.Expr) and isinstance(st.value, ast.Call) and self.noreturn(st.value):
            return None
        new = self._effects(st, new)
        bound = set()
        mutated = set()
        if isinstance(st, (ast.Assign, ast.AugAssign, ast.AnnAssign)):
            tgts = st.targets if isinstance(st, ast.Assign) else [st.target]
            for t in tgts:
                for n in ast.walk(t):
                    if isinstance(n, ast.Name) and isinstance(n.ctx, ast.Store):
                        bound.add(n.id)
                if isinstance(t, (ast.Subscript, ast.Attribute)):
                    mutated.add(u(t.value))
                    mutated.add(u(t))
            new = kill(new, bound, mutated)
            # facts from the assignment itself
            if isinstance(st, ast.Assign) and len(st.targets) == 1 and isinstance(st.targets[0], ast.Name):
                nm = st.targets[0].id
                v = st.value
                add = set()
                if isinstance(v, (ast.List, ast.Tuple, ast.Set)) and v.elts:
                    add.add(("truthy", nm))
                    add.add(("lenge", nm, len(v.elts)))
                if isinstance(v, (ast.List, ast.Tuple, ast.Dict, ast.Set, ast.Constant, ast.JoinedStr, ast.BinOp, ast.ListComp)) \
                        and not (isinstance(v, ast.Constant) and v.value is None):
                    add.add(("notnone", nm))
                if isinstance(v, ast.Call) and u(v.func) in ("list", "dict", "set", "deque", "tuple", "str", "len", "int"):
                    add.add(("notnone", nm))
                if isinstance(v, ast.Call) and u(v.func) == "deque" and len(v.args) == 1 and isinstance(v.args[0], (ast.List, ast.Tuple)) and v.args[0].elts:
                    add.add(("truthy", nm))
                if isinstance(v, ast.Name):
                    # alias: copy facts of the source
                    for f in state:
                        if len(f) >= 2 and f[1] == v.id:
                            add.add((f[0], nm) + tuple(f[2:]))
                # x = s[1:] etc: no facts
                new = new | frozenset(add)
        elif isinstance(st, ast.Delete):
            for t in st.targets:
                mutated.add(u(t.value) if isinstance(t, (ast.Subscript, ast.Attribute)) else u(t))
            new = kill(new, (), mutated)
        elif isinstance(st, (ast.FunctionDef, ast.ClassDef)):
            new = kill(new, {st.name})
        elif isinstance(st, ast.Assert):
            new = new | frozenset(facts_of_test(st.test, True))
        elif hasattr(st, "for_node"):
            pass
        return new

    def for_bind(self, node, state):
        bound = {n.id for n in ast.walk(node.target) if isinstance(n, ast.Name)}
        state = kill(state, bound)
        it = node.iter
        add = set()
        # index facts: for i in range(len(x)) / for i, v in enumerate(x)
        if isinstance(it, ast.Call) and u(it.func) == "range" and isinstance(node.target, ast.Name):
            if len(it.args) == 1:
                add.add(("range", node.target.id, u(it.args[0])))
            elif len(it.args) >= 2:
                add.add(("range2", node.target.id, u(it.args[0]), u(it.args[1])))
        if isinstance(it, ast.Call) and u(it.func) == "enumerate" and isinstance(node.target, ast.Tuple) and \
                isinstance(node.target.elts[0], ast.Name) and it.args:
            add.add(("range", node.target.elts[0].id, "len(%s)" % u(it.args[0])))
        # iterating a container: it is non-empty inside the body
        add.add(("truthy", u(it)))
        return state | frozenset(add)

    def loop_head(self, node, state):
        # facts about names assigned / containers mutated in the loop body do not survive the back edge
        bound = set()
        mut = set()
        for n in ast.walk(node):
            if isinstance(n, ast.Name) and isinstance(n.ctx, ast.Store):
                bound.add(n.id)
            if isinstance(n, ast.Call) and isinstance(n.func, ast.Attribute) and n.func.attr in MUTATORS:
                mut.add(u(n.func.value))
            if isinstance(n, ast.Call) and u(n.func).startswith("heapq.") and n.args:
                mut.add(u(n.args[0]))
            if isinstance(n, (ast.Subscript, ast.Attribute)) and isinstance(n.ctx, ast.Store):
                mut.add(u(n.value))
        return kill(state, bound, mut)

    def enter_handler(self, handler, state):
        return state


def module_str_consts(func):
    """module-level names of func's module assigned exactly once, to a string literal, and not shadowed in func"""
    out = {}
    rebound = set()
    for d in func.module.defs.values():
        for g in ([d] if hasattr(d, "declared_global") else list(getattr(d, "methods", {}).values())):
            rebound |= set(getattr(g, "declared_global", ()))
    for name, stmts in func.module.assigned.items():
        if name in rebound:
            continue
        if len(stmts) == 1 and isinstance(stmts[0], ast.Assign) and isinstance(stmts[0].value, ast.Constant) \
                and isinstance(stmts[0].value.value, str) and name not in func.locals:
            out[name] = stmts[0].value.value
    return out


def guard_facts(func, noreturn=None, entry=frozenset()):
    global _STR_CONSTS
    saved = _STR_CONSTS
    _STR_CONSTS = module_str_consts(func)
    try:
        g = GuardFlow(func, noreturn)
        g.run(frozenset(entry))
    finally:
        _STR_CONSTS = saved
    return g.at
