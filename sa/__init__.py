"""Static-analysis framework for aspuru-guzik-group/selfies (see /verif/DESIGN.md).

Nothing in this package imports or executes code from /repo: sources are parsed with
``ast`` and modelled.
"""

REPO = "/repo"
PKG = "selfies"


class AnalysisError(Exception):
    """The analyser cannot model something: exit 2, never a silent pass."""
