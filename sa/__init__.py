"""Static-analysis framework for aspuru-guzik-group/selfies (see /verif/DESIGN.md).

Nothing in this package imports or executes code from /repo: sources are parsed with
``ast`` and modelled.
"""

import os as _os

# the tree under analysis; SA_REPO / SA_OUT_DIR redirect a development run (dev/simrepo.py) without touching /repo or the
# committed evidence -- the registered commands never set them
REPO = _os.environ.get("SA_REPO", "/repo")
PKG = "selfies"


class AnalysisError(Exception):
    """The analyser cannot model something: exit 2, never a silent pass."""
