"""E0 (part 3): resolved call graph with call sites, property loads, higher-order edges,
constant-flag pruning and reachability regions."""
import ast

from . import AnalysisError
from .db import Func, own_nodes, dotted, unparse
from .tyinf import Types

# method names of builtin containers / str that we accept as external when the receiver
# type is unknown
BUILTIN_METHOD_NAMES = {
    "append", "appendleft", "extend", "insert", "pop", "popleft", "remove", "clear", "sort", "reverse",
    "index", "count", "copy", "get", "items", "keys", "values", "update", "setdefault", "add", "discard",
    "union", "intersection", "difference", "join", "split", "format", "find", "rfind", "lower", "upper",
    "capitalize", "strip", "lstrip", "rstrip", "replace", "startswith", "endswith", "isnumeric",
    "isdigit", "isalpha", "islower", "isupper", "isdecimal", "groups", "group", "match", "fullmatch",
    "search", "cache_clear", "cache_info", "popitem", "issubset", "issuperset", "symmetric_difference",
    "difference_update", "intersection_update", "title", "zfill", "rsplit", "splitlines", "partition",
    "encode", "isalnum", "isspace", "rotate", "__contains__",
}


class Site:
    __slots__ = ("func", "node", "kind", "callees", "ext", "unresolved", "hof")

    def __init__(self, func, node, kind):
        self.func = func
        self.node = node
        self.kind = kind          # 'call' | 'prop' | 'ctor'
        self.callees = []         # [Func]
        self.ext = []             # external names
        self.unresolved = False
        self.hof = []             # functions passed as arguments to an external callee

    def loc(self):
        return self.func.loc(self.node)

    def __repr__(self):
        return "<Site %s %s -> %s %s>" % (self.loc(), self.kind, [c.qual for c in self.callees], self.ext)


def tri(test, consts):
    """three-valued evaluation of a test under constant bindings {name: value}"""
    if isinstance(test, ast.Constant):
        return bool(test.value)
    if isinstance(test, ast.Name) and test.id in consts:
        return bool(consts[test.id])
    if isinstance(test, ast.UnaryOp) and isinstance(test.op, ast.Not):
        v = tri(test.operand, consts)
        return None if v is None else (not v)
    if isinstance(test, ast.BoolOp):
        vals = [tri(v, consts) for v in test.values]
        if isinstance(test.op, ast.And):
            if any(v is False for v in vals):
                return False
            if all(v is True for v in vals):
                return True
            return None
        if any(v is True for v in vals):
            return True
        if all(v is False for v in vals):
            return False
        return None
    if isinstance(test, ast.Compare) and len(test.ops) == 1 and isinstance(test.left, ast.Name) \
            and test.left.id in consts and isinstance(test.comparators[0], ast.Constant):
        a, b = consts[test.left.id], test.comparators[0].value
        op = test.ops[0]
        if isinstance(op, ast.Is):
            return a is b
        if isinstance(op, ast.IsNot):
            return a is not b
        if isinstance(op, ast.Eq):
            return a == b
        if isinstance(op, ast.NotEq):
            return a != b
    return None


def live_nodes(fnode, consts):
    """Like own_nodes but skips branches that are dead under `consts`."""
    def walk_stmts(body):
        for st in body:
            yield from walk(st)

    def walk(n):
        if isinstance(n, ast.If):
            v = tri(n.test, consts) if consts else None
            yield n
            yield from walk(n.test)
            if v is not False:
                yield from walk_stmts(n.body)
            if v is not True:
                yield from walk_stmts(n.orelse)
            return
        if isinstance(n, ast.IfExp):
            v = tri(n.test, consts) if consts else None
            yield n
            yield from walk(n.test)
            if v is not False:
                yield from walk(n.body)
            if v is not True:
                yield from walk(n.orelse)
            return
        yield n
        for c in ast.iter_child_nodes(n):
            if isinstance(c, (ast.FunctionDef, ast.AsyncFunctionDef, ast.ClassDef)):
                continue
            yield from walk(c)
    yield from walk_stmts(fnode.body)


class CallGraph:
    def __init__(self, db, types=None):
        self.db = db
        self.ty = types or Types(db)
        self.props = {n: [f for f in fs if f.is_property] for n, fs in db.method_index.items()}
        self.props = {n: fs for n, fs in self.props.items() if fs}
        self._sites = {}
        self._site_of = {}

    # ------------------------------------------------------------------
    def sites(self, f, consts=None):
        key = (f.qual, frozenset((consts or {}).items()))
        if key in self._sites:
            return self._sites[key]
        out = []
        env = self._env(f)
        for n in live_nodes(f.node, consts or {}):
            if isinstance(n, ast.Call):
                out.append(self._resolve_call(f, n, env))
            elif isinstance(n, ast.Attribute) and isinstance(n.ctx, ast.Load) and n.attr in self.props:
                s = Site(f, n, "prop")
                rt = env.expr(n.value)
                classes = {a[1] for a in rt if a[0] == "inst"}
                unknown = (not rt) or any(a[0] == "any" for a in rt)
                for g in self.props[n.attr]:
                    if g.cls.qual in classes or (unknown and not classes) or unknown:
                        s.callees.append(g)
                if s.callees:
                    out.append(s)
        self._sites[key] = out
        return out

    def _env(self, f):
        from .tyinf import FuncEnv
        env = FuncEnv(self.ty, f)
        env.readonly = True
        return env

    def _resolve_call(self, f, call, env):
        s = Site(f, call, "call")
        # bind enclosing comprehension variables crudely: unknown
        ft = env.expr(call.func)
        attr = call.func.attr if isinstance(call.func, ast.Attribute) else None
        for a in ft:
            k = a[0]
            if k == "func":
                g = self.db.funcs.get(a[1])
                if g is not None:
                    s.callees.append(g)
            elif k == "class":
                c = self.db.classes.get(a[1])
                s.kind = "ctor"
                s.ext.append("new:" + a[1])
                if c is not None and "__init__" in c.methods:
                    s.callees.append(c.methods["__init__"])
            elif k == "partial":
                c = self.db.classes.get(a[1])
                s.kind = "ctor"
                s.ext.append("new:" + a[1])
                if c is not None and "__init__" in c.methods:
                    s.callees.append(c.methods["__init__"])
            elif k == "ext":
                s.ext.append(a[1])
            elif k == "bmeth":
                pyt = {"str": str, "list": list, "dict": dict, "set": set, "tuple": tuple, "int": int,
                       "float": float}.get(a[1][0])
                if pyt is not None and not hasattr(pyt, a[2]) and a[2] in self.db.method_index:
                    # type noise: the receiver cannot be that builtin; fall back to the package methods
                    for g in self.db.method_index[a[2]]:
                        if not g.is_property and g not in s.callees:
                            s.callees.append(g)
                else:
                    s.ext.append("%s.%s" % (a[1][0], a[2]))
            elif k == "none":
                pass
            elif k == "any":
                if attr is not None and attr in self.db.method_index and not self.db.method_index[attr][0].is_property:
                    for g in self.db.method_index[attr]:
                        if g not in s.callees:
                            s.callees.append(g)
                elif attr is not None and attr in BUILTIN_METHOD_NAMES:
                    s.ext.append("?." + attr)
                else:
                    s.unresolved = True
            else:
                s.unresolved = True
        if not ft:
            # no type information at all (e.g. element of an untyped container)
            if attr is not None and attr in self.db.method_index and not self.db.method_index[attr][0].is_property:
                s.callees.extend(self.db.method_index[attr])
            elif attr is not None and attr in BUILTIN_METHOD_NAMES:
                s.ext.append("?." + attr)
            else:
                s.unresolved = True
        # higher-order: package functions passed as arguments
        for a in list(call.args) + [k.value for k in call.keywords]:
            if isinstance(a, ast.Starred):
                a = a.value
            at = env.expr(a)
            for x in at:
                if x[0] == "func" and x[1] in self.db.funcs:
                    s.hof.append(self.db.funcs[x[1]])
                elif x[0] == "class" and any(e.endswith("partial") for e in s.ext):
                    c = self.db.classes.get(x[1])
                    if c is not None and "__init__" in c.methods:
                        s.hof.append(c.methods["__init__"])
        # dedupe
        s.ext = sorted(set(s.ext))
        return s

    # ------------------------------------------------------------------
    def callee_consts(self, site, g, consts):
        """constants passed from a call site into callee g's parameters"""
        out = {}
        call = site.node
        if not isinstance(call, ast.Call):
            return out
        pos = list(g.posparams)
        if g.is_method:
            pos = pos[1:]
        for i, a in enumerate(call.args):
            if isinstance(a, ast.Starred):
                break
            if i < len(pos):
                v = self._constval(a, consts)
                if v is not NOVAL:
                    out[pos[i]] = v
        for k in call.keywords:
            if k.arg and k.arg in g.params:
                v = self._constval(k.value, consts)
                if v is not NOVAL:
                    out[k.arg] = v
        return out

    @staticmethod
    def _constval(a, consts):
        if isinstance(a, ast.Constant) and isinstance(a.value, (bool, type(None))):
            return a.value
        if isinstance(a, ast.Name) and consts and a.id in consts:
            return consts[a.id]
        return NOVAL

    def region(self, entry, consts=None, follow_hof=True):
        """Reachable (Func, consts) contexts from entry.  Returns dict qual -> list of const dicts."""
        start = (entry.qual, frozenset((consts or {}).items()))
        seen = {start}
        order = [start]
        work = [start]
        while work:
            q, cs = work.pop()
            f = self.db.funcs[q]
            cd = dict(cs)
            for s in self.sites(f, cd):
                targets = list(s.callees) + (list(s.hof) if follow_hof else [])
                for g in targets:
                    gc = self.callee_consts(s, g, cd) if g in s.callees else {}
                    # only bool/None flag constants are propagated
                    key = (g.qual, frozenset(gc.items()))
                    if key not in seen:
                        seen.add(key)
                        order.append(key)
                        work.append(key)
        out = {}
        for q, cs in order:
            out.setdefault(q, []).append(dict(cs))
        return out

    def region_funcs(self, entry, consts=None):
        return [self.db.funcs[q] for q in self.region(entry, consts)]

    def sccs(self, quals):
        """Tarjan SCCs of the call graph restricted to `quals`; returns list of lists with
        only non-trivial SCCs (size>1 or self-loop)."""
        quals = set(quals)
        adj = {}
        for q in quals:
            f = self.db.funcs[q]
            tg = set()
            for s in self.sites(f):
                for g in s.callees + s.hof:
                    if g.qual in quals:
                        tg.add(g.qual)
            adj[q] = tg
        index = {}
        low = {}
        stack = []
        on = set()
        out = []
        counter = [0]

        def strong(v):
            # iterative Tarjan
            work = [(v, iter(sorted(adj[v])))]
            index[v] = low[v] = counter[0]
            counter[0] += 1
            stack.append(v)
            on.add(v)
            while work:
                node, it = work[-1]
                advanced = False
                for w in it:
                    if w not in index:
                        index[w] = low[w] = counter[0]
                        counter[0] += 1
                        stack.append(w)
                        on.add(w)
                        work.append((w, iter(sorted(adj[w]))))
                        advanced = True
                        break
                    elif w in on:
                        low[node] = min(low[node], index[w])
                if advanced:
                    continue
                work.pop()
                if work:
                    low[work[-1][0]] = min(low[work[-1][0]], low[node])
                if low[node] == index[node]:
                    comp = []
                    while True:
                        w = stack.pop()
                        on.discard(w)
                        comp.append(w)
                        if w == node:
                            break
                    if len(comp) > 1 or node in adj[node]:
                        out.append(sorted(comp))
        for q in sorted(quals):
            if q not in index:
                strong(q)
        return out


class _NoVal:
    def __repr__(self):
        return "NOVAL"


NOVAL = _NoVal()
