"""Definite assignment of locals (syntax-directed forward dataflow, sa/flow.py).

State: frozenset of local names definitely bound on every path reaching the point.  A load of a local that is not in the
state may raise UnboundLocalError.  Path-insensitive: correlated tests (``if a: x = 1`` ... ``if a: use(x)``) are reported;
clients confirm a report with the path-sensitive engine before raising it (rules/totality.py)."""
import ast

from .flow import Forward
from .db import own_nodes


def _stores(node):
    out = set()
    for n in ast.walk(node):
        if isinstance(n, ast.Name) and isinstance(n.ctx, ast.Store):
            out.add(n.id)
    return out


class DefAssign(Forward):
    def __init__(self, func):
        super().__init__(func.node)
        self.f = func
        self.locals = set(func.locals) - set(getattr(func, "declared_global", ())) - set(getattr(func, "declared_nonlocal", ()))
        self.maybe_unbound = {}          # id(Name node) -> Name node

    def join(self, a, b):
        return a & b

    # -- loads inside an expression, in evaluation order; comprehension / lambda variables are bound in their own scope
    def _loads(self, expr, state, bound=frozenset()):
        if expr is None:
            return
        if isinstance(expr, ast.Name):
            if isinstance(expr.ctx, ast.Load) and expr.id in self.locals and expr.id not in state and expr.id not in bound:
                self.maybe_unbound[id(expr)] = expr
            return
        if isinstance(expr, (ast.ListComp, ast.SetComp, ast.GeneratorExp, ast.DictComp)):
            b = set(bound)
            for i, g in enumerate(expr.generators):
                self._loads(g.iter, state, frozenset(b))
                b |= _stores(g.target)
                for c in g.ifs:
                    self._loads(c, state, frozenset(b))
            for e in ([expr.key, expr.value] if isinstance(expr, ast.DictComp) else [expr.elt]):
                self._loads(e, state, frozenset(b))
            return
        if isinstance(expr, ast.Lambda):
            b = set(bound) | {a.arg for a in expr.args.args + expr.args.kwonlyargs} | \
                ({expr.args.vararg.arg} if expr.args.vararg else set()) | ({expr.args.kwarg.arg} if expr.args.kwarg else set())
            # the body runs later: names bound anywhere in the function by then are not this analysis's business
            return
        if isinstance(expr, ast.NamedExpr):
            self._loads(expr.value, state, bound)
            return
        for c in ast.iter_child_nodes(expr):
            if isinstance(c, (ast.expr, ast.keyword, ast.comprehension, ast.slice if hasattr(ast, "slice") else ast.expr)):
                self._loads(c, state, bound)
            elif isinstance(c, ast.AST) and not isinstance(c, (ast.stmt, ast.expr_context, ast.operator, ast.boolop, ast.unaryop, ast.cmpop)):
                self._loads(c, state, bound)

    def simple(self, st, state):
        if isinstance(st, (ast.FunctionDef, ast.AsyncFunctionDef, ast.ClassDef)):
            return state | {st.name}
        if isinstance(st, ast.Assign):
            self._loads(st.value, state)
            for t in st.targets:
                self._target_loads(t, state)
            return state | _stores(ast.Module(body=[ast.Expr(value=t) for t in st.targets], type_ignores=[]))
        if isinstance(st, ast.AugAssign):
            self._loads(st.value, state)
            if isinstance(st.target, ast.Name):
                if st.target.id in self.locals and st.target.id not in state:
                    self.maybe_unbound[id(st.target)] = st.target
                return state | {st.target.id}
            self._target_loads(st.target, state)
            return state
        if isinstance(st, ast.AnnAssign):
            if st.value is not None:
                self._loads(st.value, state)
                return state | _stores(st.target)
            return state
        if isinstance(st, (ast.With, ast.AsyncWith)):
            out = state
            for it in st.items:
                self._loads(it.context_expr, out)
                if it.optional_vars is not None:
                    out = out | _stores(it.optional_vars)
            return out
        if isinstance(st, ast.Delete):
            out = state
            for t in st.targets:
                if isinstance(t, ast.Name):
                    out = out - {t.id}
                else:
                    self._loads(t, state)
            return out
        if isinstance(st, (ast.Import, ast.ImportFrom)):
            return state | {(a.asname or a.name).split(".")[0] for a in st.names}
        if isinstance(st, (ast.Global, ast.Nonlocal, ast.Pass)):
            return state
        if type(st).__name__ == "_IterEval":
            self._loads(st.value, state)
            return state
        # Expr, Return, Raise, Assert, ...
        for c in ast.iter_child_nodes(st):
            if isinstance(c, ast.expr):
                self._loads(c, state)
        # walrus bindings
        extra = {n.target.id for n in ast.walk(st) if isinstance(n, ast.NamedExpr) and isinstance(n.target, ast.Name)}
        return state | extra

    def _target_loads(self, t, state):
        if isinstance(t, (ast.Subscript, ast.Attribute)):
            self._loads(t.value, state)
            if isinstance(t, ast.Subscript):
                self._loads(t.slice, state)
        elif isinstance(t, (ast.Tuple, ast.List)):
            for e in t.elts:
                self._target_loads(e, state)
        elif isinstance(t, ast.Starred):
            self._target_loads(t.value, state)

    def test(self, expr, state):
        self._loads(expr, state)
        if isinstance(expr, ast.Constant):
            return (state, None) if expr.value else (None, state)
        return state, state

    def for_bind(self, node, state):
        return state | _stores(node.target)

    def enter_handler(self, handler, state):
        if state is None:
            return None
        if handler.type is not None:
            self._loads(handler.type, state)
        return state | ({handler.name} if handler.name else set())


def maybe_unbound(func):
    d = DefAssign(func)
    params = set(func.params)
    d.run(frozenset(params))
    return sorted(d.maybe_unbound.values(), key=lambda n: (n.lineno, n.col_offset))
