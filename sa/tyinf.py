"""E0 (part 2): light whole-package flow-insensitive type inference.

Types are frozensets of atoms.  Atoms are tuples:
 ('none',) ('bool',) ('int',) ('float',) ('str',) ('inst', cls_qual) ('partial', cls_qual)
 ('tuple', (T1,...,Tn)) ('list', T) ('dict', TK, TV) ('set', T) ('deque', T) ('iter', T)
 ('func', qual) ('class', qual) ('module', name) ('pattern',) ('match',) ('ext', dotted)
 ('exc', name) ('any',)
"""
import ast

from .db import Func, Cls, own_nodes, dotted

NONE = frozenset([("none",)])
BOOL = frozenset([("bool",)])
INT = frozenset([("int",)])
FLOAT = frozenset([("float",)])
STR = frozenset([("str",)])
ANY = frozenset([("any",)])
EMPTY = frozenset()
MAXDEPTH = 4


def T(*atoms):
    return frozenset(atoms)


def U(*ts):
    out = set()
    for t in ts:
        out |= t
    if ("any",) in out and len(out) > 1:
        # keep precise members next to 'any' (useful for receivers), any marks incompleteness
        pass
    return frozenset(out)


def depth(t):
    d = 0
    for a in t:
        for x in a[1:]:
            if isinstance(x, frozenset):
                d = max(d, 1 + depth(x))
            elif isinstance(x, tuple):
                for y in x:
                    if isinstance(y, frozenset):
                        d = max(d, 1 + depth(y))
    return d


def normalize(t):
    """merge container atoms of the same kind; drop unbound builtin-method atoms"""
    simple = set()
    lists = {}
    dicts = None
    tuples = {}
    for a in t:
        k = a[0]
        if k in ("list", "set", "deque", "iter"):
            lists[k] = lists.get(k, frozenset()) | a[1]
        elif k == "dict":
            dicts = (a[1], a[2]) if dicts is None else (dicts[0] | a[1], dicts[1] | a[2])
        elif k == "tuple":
            n = len(a[1])
            if n in tuples:
                tuples[n] = tuple(x | y for x, y in zip(tuples[n], a[1]))
            else:
                tuples[n] = a[1]
        elif k == "bmeth":
            continue
        else:
            simple.add(a)
    for k, e in lists.items():
        simple.add((k, normalize(e)))
    if dicts is not None:
        simple.add(("dict", normalize(dicts[0]), normalize(dicts[1])))
    for n, comps in tuples.items():
        simple.add(("tuple", tuple(normalize(c) for c in comps)))
    return frozenset(simple)


def clip(t):
    return t if depth(t) <= MAXDEPTH else ANY


def elem(t):
    """element type of iterating over t"""
    out = set()
    for a in t:
        k = a[0]
        if k in ("list", "set", "deque", "iter"):
            out |= a[1]
        elif k == "tuple":
            for x in a[1]:
                out |= x
        elif k == "dict":
            out |= a[1]
        elif k == "str":
            out.add(("str",))
        elif k == "any":
            out.add(("any",))
    return frozenset(out)


STR_METHODS = {
    "split": T(("list", STR)), "rsplit": T(("list", STR)), "join": STR, "format": STR, "lower": STR,
    "upper": STR, "capitalize": STR, "strip": STR, "lstrip": STR, "rstrip": STR, "replace": STR,
    "find": INT, "rfind": INT, "index": INT, "count": INT, "isnumeric": BOOL, "isdigit": BOOL,
    "isalpha": BOOL, "islower": BOOL, "isupper": BOOL, "startswith": BOOL, "endswith": BOOL,
    "isdecimal": BOOL, "isalnum": BOOL, "title": STR, "zfill": STR, "splitlines": T(("list", STR)),
    "partition": T(("tuple", (STR, STR, STR))), "encode": ANY,
}


class Types:
    def __init__(self, db):
        self.db = db
        self.ret = {}        # func qual -> type
        self.yld = {}        # generator func qual -> yielded type
        self.param = {}      # (func qual, name) -> type
        self.field = {}      # (cls qual, attr) -> type
        self.local = {}      # (func qual, name) -> type
        self.glob = {}       # (module, name) -> type
        self.changed = True
        self._seed_params()
        for _ in range(12):
            self.changed = False
            self._round()
            if not self.changed:
                break

    # ---------------------------------------------------------------- helpers
    def _merge(self, table, key, t):
        old = table.get(key, EMPTY)
        new = clip(normalize(old | t))
        if new != old:
            table[key] = new
            self.changed = True

    def ann_type(self, module, ann):
        if ann is None:
            return EMPTY
        if isinstance(ann, ast.Constant):
            if ann.value is None:
                return NONE
            return ANY
        d = dotted(ann)
        if d:
            base = d.split(".")[-1]
            simple = {"str": STR, "int": INT, "bool": BOOL, "float": FLOAT, "Any": ANY,
                      "list": T(("list", ANY)), "dict": T(("dict", ANY, ANY)), "set": T(("set", ANY)),
                      "List": T(("list", ANY)), "Dict": T(("dict", ANY, ANY)), "Set": T(("set", ANY))}
            if base in simple:
                return simple[base]
            r = self.db.resolve_dotted(module, ann)
            if r and r[0] == "class":
                return T(("inst", r[1].qual))
            return ANY
        if isinstance(ann, ast.Subscript):
            h = dotted(ann.value)
            h = h.split(".")[-1] if h else None
            args = ann.slice.elts if isinstance(ann.slice, ast.Tuple) else [ann.slice]
            if h == "Optional":
                return U(self.ann_type(module, args[0]), NONE)
            if h == "Union":
                return U(*[self.ann_type(module, a) for a in args])
            if h in ("List", "list", "Iterable", "Sequence"):
                return T(("list", self.ann_type(module, args[0])))
            if h in ("Iterator",):
                return T(("iter", self.ann_type(module, args[0])))
            if h in ("Set", "set"):
                return T(("set", self.ann_type(module, args[0])))
            if h in ("Dict", "dict") and len(args) == 2:
                return T(("dict", self.ann_type(module, args[0]), self.ann_type(module, args[1])))
            if h in ("Tuple", "tuple"):
                return T(("tuple", tuple(self.ann_type(module, a) for a in args)))
        return ANY

    def _seed_params(self):
        api = set()
        for n, r in self.db.public_api().items():
            if r[0] == "func":
                api.add(r[1].qual)
        self.api = api
        for f in self.db.funcs.values():
            for p in f.params:
                if f.is_method and f.posparams and p == f.posparams[0]:
                    self.param[(f.qual, p)] = T(("inst", f.cls.qual))
                elif p in f.annotations:
                    # annotations are trusted for public API and for class constructors
                    self.param[(f.qual, p)] = self.ann_type(f.module, f.annotations[p])
                if p in f.defaults:
                    d = f.defaults[p]
                    if isinstance(d, ast.Constant):
                        self.param[(f.qual, p)] = U(self.param.get((f.qual, p), EMPTY), self.const_type(d.value))

    @staticmethod
    def const_type(v):
        if v is None:
            return NONE
        if isinstance(v, bool):
            return BOOL
        if isinstance(v, int):
            return INT
        if isinstance(v, float):
            return FLOAT
        if isinstance(v, str):
            return STR
        return ANY

    # ---------------------------------------------------------------- rounds
    def _round(self):
        for m in self.db.modules.values():
            env = ModEnv(self, m)
            for st in m.tree.body:
                env.stmt(st)
        for f in self.db.funcs.values():
            env = FuncEnv(self, f)
            for st in f.node.body:
                env.stmt(st)
            if f.is_generator:
                self._merge(self.ret, f.qual, T(("iter", self.yld.get(f.qual, EMPTY))))
            elif not env.saw_return_value:
                self._merge(self.ret, f.qual, NONE)
            elif env.may_fall_off:
                self._merge(self.ret, f.qual, NONE)

    # ---------------------------------------------------------------- queries
    def expr_type(self, f, expr):
        """type of expr evaluated inside function f (Func) or module (Module)"""
        env = FuncEnv(self, f) if isinstance(f, Func) else ModEnv(self, f)
        env.readonly = True
        # bind comprehension variables enclosing expr is caller's business
        return env.expr(expr)

    def classes_of(self, t):
        return sorted(a[1] for a in t if a[0] == "inst")


class Env:
    readonly = False

    def __init__(self, types, module):
        self.ty = types
        self.db = types.db
        self.module = module
        self.saw_return_value = False
        self.may_fall_off = True
        self.comp = {}

    # name lookup ------------------------------------------------------
    def lookup(self, name):
        raise NotImplementedError

    def bind(self, name, t):
        raise NotImplementedError

    def global_name(self, name):
        r = self.db.resolve_global(self.module, name)
        if r is None:
            return ANY
        k = r[0]
        if k == "func":
            return T(("func", r[1].qual))
        if k == "class":
            return T(("class", r[1].qual))
        if k == "global":
            return self.ty.glob.get((r[1], r[2]), EMPTY)
        if k == "module":
            return T(("module", r[1]))
        if k == "ext":
            return T(("ext", r[1]))
        if k == "builtin":
            if r[1] in ("True", "False"):
                return BOOL
            if r[1] == "None":
                return NONE
            return T(("ext", "builtins." + r[1]))
        return ANY

    # statements --------------------------------------------------------
    def stmt(self, st):
        if isinstance(st, ast.Assign):
            t = self.expr(st.value)
            for tg in st.targets:
                self.assign(tg, t, st.value)
        elif isinstance(st, ast.AnnAssign):
            if st.value is not None:
                self.assign(st.target, self.expr(st.value), st.value)
        elif isinstance(st, ast.AugAssign):
            t = self.binop(self.expr(st.target), st.op, self.expr(st.value))
            self.assign(st.target, t, None)
        elif isinstance(st, (ast.For, ast.AsyncFor)):
            self.assign(st.target, elem(self.expr(st.iter)), None)
            self.body(st.body)
            self.body(st.orelse)
        elif isinstance(st, ast.While):
            self.expr(st.test)
            self.body(st.body)
            self.body(st.orelse)
        elif isinstance(st, ast.If):
            self.expr(st.test)
            self.body(st.body)
            self.body(st.orelse)
        elif isinstance(st, ast.Try):
            self.body(st.body)
            for h in st.handlers:
                if h.name:
                    self.bind(h.name, T(("exc", dotted(h.type) or "?")))
                self.body(h.body)
            self.body(st.orelse)
            self.body(st.finalbody)
        elif isinstance(st, (ast.With, ast.AsyncWith)):
            for it in st.items:
                t = self.expr(it.context_expr)
                if it.optional_vars is not None:
                    self.assign(it.optional_vars, ANY, None)
            self.body(st.body)
        elif isinstance(st, ast.Return):
            self.on_return(st)
        elif isinstance(st, ast.Expr):
            self.expr(st.value)
        elif isinstance(st, (ast.Raise, ast.Assert)):
            for c in ast.iter_child_nodes(st):
                if isinstance(c, ast.expr):
                    self.expr(c)
        elif isinstance(st, ast.Delete):
            pass
        elif isinstance(st, (ast.FunctionDef, ast.AsyncFunctionDef)):
            q = self.nested_qual(st)
            if q:
                self.bind(st.name, T(("func", q)))
        # others: pass / import / global / class: nothing

    def nested_qual(self, st):
        return None

    def body(self, b):
        for s in b or []:
            self.stmt(s)

    def on_return(self, st):
        pass

    def assign(self, tg, t, value_node):
        if isinstance(tg, ast.Name):
            self.bind(tg.id, t)
        elif isinstance(tg, (ast.Tuple, ast.List)):
            n = len(tg.elts)
            comps = [set() for _ in range(n)]
            for a in t:
                if a[0] == "tuple" and len(a[1]) == n:
                    for i, x in enumerate(a[1]):
                        comps[i] |= x
                elif a[0] in ("list", "set", "deque", "iter"):
                    for i in range(n):
                        comps[i] |= a[1]
                elif a[0] == "any":
                    for i in range(n):
                        comps[i].add(("any",))
                elif a[0] == "tuple":
                    for i in range(n):
                        comps[i].add(("any",))
            # m.groups() of a compiled pattern: strings
            for i, e in enumerate(tg.elts):
                if isinstance(e, ast.Starred):
                    self.assign(e.value, T(("list", frozenset(comps[i]))), None)
                else:
                    self.assign(e, frozenset(comps[i]), None)
        elif isinstance(tg, ast.Attribute):
            bt = self.expr(tg.value)
            for a in bt:
                if a[0] == "inst":
                    if not self.readonly:
                        self.ty._merge(self.ty.field, (a[1], tg.attr), t)
        elif isinstance(tg, ast.Subscript):
            bt = self.expr(tg.value)
            # container element update: widen the container variable
            if isinstance(tg.value, ast.Name) and not isinstance(tg.slice, ast.Slice):
                new = set()
                kt = self.expr(tg.slice)
                for a in bt:
                    if a[0] == "list":
                        new.add(("list", a[1] | t))
                    elif a[0] == "dict":
                        new.add(("dict", a[1] | kt, a[2] | t))
                if new:
                    self.bind(tg.value.id, clip(frozenset(new)))
            elif isinstance(tg.value, ast.Attribute) and not isinstance(tg.slice, ast.Slice):
                kt = self.expr(tg.slice)
                new = set()
                for a in bt:
                    if a[0] == "list":
                        new.add(("list", a[1] | t))
                    elif a[0] == "dict":
                        new.add(("dict", a[1] | kt, a[2] | t))
                if new:
                    self.assign(tg.value, clip(frozenset(new)), None)
        elif isinstance(tg, ast.Starred):
            self.assign(tg.value, t, None)

    # expressions --------------------------------------------------------
    def expr(self, e):
        m = getattr(self, "e_" + type(e).__name__, None)
        if m is None:
            for c in ast.iter_child_nodes(e):
                if isinstance(c, ast.expr):
                    self.expr(c)
            return ANY
        return clip(m(e))

    def e_Constant(self, e):
        return Types.const_type(e.value)

    def e_JoinedStr(self, e):
        return STR

    def e_Name(self, e):
        return self.lookup(e.id)

    def e_Tuple(self, e):
        if any(isinstance(x, ast.Starred) for x in e.elts):
            return T(("list", U(*[self.expr(x.value if isinstance(x, ast.Starred) else x) for x in e.elts])))
        return T(("tuple", tuple(self.expr(x) for x in e.elts)))

    def e_List(self, e):
        return T(("list", U(*[elem(self.expr(x.value)) if isinstance(x, ast.Starred) else self.expr(x)
                               for x in e.elts]) if e.elts else EMPTY))

    def e_Set(self, e):
        return T(("set", U(*[self.expr(x) for x in e.elts])))

    def e_Dict(self, e):
        ks = [self.expr(k) for k in e.keys if k is not None]
        vs = [self.expr(v) for v in e.values]
        return T(("dict", U(*ks) if ks else EMPTY, U(*vs) if vs else EMPTY))

    def _comp(self, e, mk):
        saved = dict(self.comp)
        for g in e.generators:
            it = self.expr(g.iter)
            self._bind_comp(g.target, elem(it))
            for c in g.ifs:
                self.expr(c)
        r = mk()
        self.comp = saved
        return r

    def _bind_comp(self, tg, t):
        if isinstance(tg, ast.Name):
            self.comp[tg.id] = t
        elif isinstance(tg, (ast.Tuple, ast.List)):
            n = len(tg.elts)
            for i, x in enumerate(tg.elts):
                ct = set()
                for a in t:
                    if a[0] == "tuple" and len(a[1]) == n:
                        ct |= a[1][i]
                    else:
                        ct |= elem(frozenset([a])) or {("any",)}
                self._bind_comp(x, frozenset(ct))

    def e_ListComp(self, e):
        return self._comp(e, lambda: T(("list", self.expr(e.elt))))

    def e_SetComp(self, e):
        return self._comp(e, lambda: T(("set", self.expr(e.elt))))

    def e_GeneratorExp(self, e):
        return self._comp(e, lambda: T(("iter", self.expr(e.elt))))

    def e_DictComp(self, e):
        return self._comp(e, lambda: T(("dict", self.expr(e.key), self.expr(e.value))))

    def e_Lambda(self, e):
        saved = dict(self.comp)
        for a in e.args.args:
            self.comp[a.arg] = ANY
        self.expr(e.body)
        self.comp = saved
        return T(("ext", "lambda"))

    def e_IfExp(self, e):
        self.expr(e.test)
        return U(self.expr(e.body), self.expr(e.orelse))

    def e_BoolOp(self, e):
        return U(*[self.expr(v) for v in e.values])

    def e_Compare(self, e):
        self.expr(e.left)
        for c in e.comparators:
            self.expr(c)
        return BOOL

    def e_UnaryOp(self, e):
        t = self.expr(e.operand)
        if isinstance(e.op, ast.Not):
            return BOOL
        return t

    def e_NamedExpr(self, e):
        t = self.expr(e.value)
        self.assign(e.target, t, e.value)
        return t

    def e_Starred(self, e):
        return self.expr(e.value)

    def e_Await(self, e):
        return ANY

    def e_Yield(self, e):
        t = self.expr(e.value) if e.value is not None else NONE
        self.on_yield(t)
        return ANY

    def e_YieldFrom(self, e):
        self.on_yield(elem(self.expr(e.value)))
        return ANY

    def on_yield(self, t):
        pass

    def binop(self, l, op, r):
        out = set()
        for a in l:
            for b in r:
                ka, kb = a[0], b[0]
                if ka == "any" or kb == "any":
                    out.add(("any",))
                elif ka in ("int", "bool") and kb in ("int", "bool"):
                    out.add(("float",) if isinstance(op, ast.Div) else ("int",))
                elif ka in ("int", "bool", "float") and kb in ("int", "bool", "float"):
                    out.add(("float",))
                elif ka == "str" and kb == "str":
                    out.add(("str",))
                elif ka == "str" and isinstance(op, (ast.Mult, ast.Mod)):
                    out.add(("str",))
                elif kb == "str" and isinstance(op, ast.Mult):
                    out.add(("str",))
                elif ka == "list" and kb == "list":
                    out.add(("list", a[1] | b[1]))
                elif ka == "list" and isinstance(op, ast.Mult):
                    out.add(a)
                elif ka == "tuple" and kb == "tuple" and isinstance(op, ast.Add):
                    out.add(("tuple", a[1] + b[1]))
                elif ka == "none" or kb == "none":
                    pass  # TypeError at runtime; not a value
                else:
                    out.add(("any",))
        return frozenset(out)

    def e_BinOp(self, e):
        return self.binop(self.expr(e.left), e.op, self.expr(e.right))

    def e_Attribute(self, e):
        bt = self.expr(e.value)
        out = set()
        for a in bt:
            k = a[0]
            if k == "inst":
                c = self.db.classes.get(a[1])
                got = False
                if c is not None and e.attr in c.methods:
                    f = c.methods[e.attr]
                    if f.is_property:
                        out |= self.ty.ret.get(f.qual, EMPTY)
                    else:
                        out.add(("func", f.qual))
                    got = True
                ft = self.ty.field.get((a[1], e.attr))
                if ft is not None:
                    out |= ft
                    got = True
                if not got and c is not None and e.attr in c.class_attrs:
                    st = c.class_attrs[e.attr]
                    if isinstance(st, ast.AnnAssign):
                        out |= self.ty.ann_type(c.module, st.annotation)
                    got = True
                if not got:
                    out.add(("any",))
            elif k == "module":
                if a[1] in self.db.modules:
                    r = self.db.resolve_global(a[1], e.attr)
                    if r and r[0] == "func":
                        out.add(("func", r[1].qual))
                    elif r and r[0] == "class":
                        out.add(("class", r[1].qual))
                    elif r and r[0] == "global":
                        out |= self.ty.glob.get((r[1], r[2]), EMPTY)
                    else:
                        out.add(("any",))
                else:
                    out.add(("ext", a[1] + "." + e.attr))
            elif k == "ext":
                out.add(("ext", a[1] + "." + e.attr))
            elif k == "func":
                out.add(("ext", "funcattr." + e.attr))
            elif k == "class":
                c = self.db.classes.get(a[1])
                if c and e.attr in c.methods:
                    out.add(("func", c.methods[e.attr].qual))
                else:
                    out.add(("any",))
            elif k == "exc":
                out.add(("any",))
            elif k in ("str", "list", "dict", "set", "deque", "tuple", "iter", "pattern", "match", "int", "float"):
                out.add(("bmeth", a, e.attr))
            elif k == "none":
                pass
            else:
                out.add(("any",))
        return frozenset(out)

    def e_Subscript(self, e):
        bt = self.expr(e.value)
        is_slice = isinstance(e.slice, ast.Slice)
        if is_slice:
            for x in (e.slice.lower, e.slice.upper, e.slice.step):
                if x is not None:
                    self.expr(x)
        else:
            self.expr(e.slice)
        out = set()
        for a in bt:
            k = a[0]
            if k == "str":
                out.add(("str",))
            elif k in ("list", "deque"):
                if is_slice:
                    out.add(a)
                else:
                    out |= a[1]
            elif k == "tuple":
                if is_slice:
                    lo = e.slice.lower.value if isinstance(e.slice.lower, ast.Constant) else None
                    hi = e.slice.upper.value if isinstance(e.slice.upper, ast.Constant) else None
                    if e.slice.step is None and (e.slice.lower is None or isinstance(lo, int)) and \
                            (e.slice.upper is None or isinstance(hi, int)):
                        out.add(("tuple", a[1][lo:hi]))
                    else:
                        out.add(("list", U(*a[1]) if a[1] else EMPTY))
                else:
                    idx = e.slice
                    v = None
                    if isinstance(idx, ast.Constant) and isinstance(idx.value, int):
                        v = idx.value
                    elif isinstance(idx, ast.UnaryOp) and isinstance(idx.op, ast.USub) and \
                            isinstance(idx.operand, ast.Constant) and isinstance(idx.operand.value, int):
                        v = -idx.operand.value
                    if v is not None and -len(a[1]) <= v < len(a[1]):
                        out |= a[1][v]
                    else:
                        for x in a[1]:
                            out |= x
            elif k == "dict":
                out |= a[2]
            elif k == "match":
                out |= STR | NONE
            elif k == "none":
                pass
            else:
                out.add(("any",))
        return frozenset(out)

    # calls --------------------------------------------------------------
    def call_targets(self, e):
        """type of the callee expression"""
        return self.expr(e.func)

    def e_Call(self, e):
        ft = self.expr(e.func)
        argts = [self.expr(a.value if isinstance(a, ast.Starred) else a) for a in e.args]
        kwts = {k.arg: self.expr(k.value) for k in e.keywords}
        out = set()
        for a in ft:
            k = a[0]
            if k == "func":
                f = self.db.funcs.get(a[1])
                if f is not None:
                    self.pass_args(f, e, argts, kwts, bound=False)
                    out |= self.ty.ret.get(a[1], EMPTY)
            elif k == "class":
                c = self.db.classes.get(a[1])
                out.add(("inst", a[1]))
                if c is not None:
                    init = c.methods.get("__init__")
                    if init is not None:
                        self.pass_args(init, e, argts, kwts, bound=True)
                    elif c.is_dataclass:
                        names = [n for n, st in c.class_attrs.items() if isinstance(st, ast.AnnAssign)]
                        for n, t in zip(names, argts):
                            if not self.readonly:
                                self.ty._merge(self.ty.field, (a[1], n), t)
                        for n, t in kwts.items():
                            if n and not self.readonly:
                                self.ty._merge(self.ty.field, (a[1], n), t)
            elif k == "partial":
                c = self.db.classes.get(a[1])
                out.add(("inst", a[1]))
            elif k == "ext":
                out |= self.ext_call(a[1], e, argts, kwts)
            elif k == "bmeth":
                out |= self.bmeth_call(a[1], a[2], e, argts, kwts)
            elif k == "none":
                pass
            else:
                out.add(("any",))
        return frozenset(out)

    def pass_args(self, f, e, argts, kwts, bound):
        if self.readonly:
            return
        pos = list(f.posparams)
        if f.is_method and (bound or True):
            # methods are always called bound in this code base (x.m(...) or C(...))
            pos = pos[1:]
        i = 0
        for a, t in zip(e.args, argts):
            if isinstance(a, ast.Starred):
                # spread over remaining positionals
                for p in pos[i:]:
                    self.ty._merge(self.ty.param, (f.qual, p), elem(t))
                i = len(pos)
                continue
            if i < len(pos):
                self.ty._merge(self.ty.param, (f.qual, pos[i]), t)
            elif f.vararg:
                self.ty._merge(self.ty.param, (f.qual, f.vararg), T(("tuple", (t,))) if False else T(("list", t)))
            i += 1
        for k, t in kwts.items():
            if k is None:
                continue
            if k in f.params:
                self.ty._merge(self.ty.param, (f.qual, k), t)

    def ext_call(self, name, e, argts, kwts):
        a0 = argts[0] if argts else EMPTY
        short = name.split(".", 1)[1] if name.startswith("builtins.") else name
        if short in ("len", "int", "ord", "hash", "id", "sum", "abs", "round"):
            if short in ("sum", "abs", "round") and any(x[0] == "float" for x in a0 | elem(a0)):
                return FLOAT
            return INT
        if short == "float":
            return FLOAT
        if short in ("str", "repr", "chr", "format"):
            return STR
        if short in ("bool", "isinstance", "issubclass", "callable", "any", "all", "hasattr"):
            return BOOL
        if short in ("list", "sorted"):
            return T(("list", elem(a0)))
        if short == "tuple":
            return T(("list", elem(a0)))
        if short in ("set", "frozenset"):
            return T(("set", elem(a0)))
        if short == "dict":
            out = set()
            for a in a0:
                if a[0] == "dict":
                    out.add(a)
            if not out:
                out.add(("dict", ANY if argts else EMPTY, ANY if argts else EMPTY))
            return frozenset(out)
        if short == "collections.deque":
            return T(("deque", elem(a0)))
        if short == "range":
            return T(("iter", INT))
        if short == "enumerate":
            return T(("iter", T(("tuple", (INT, elem(a0))))))
        if short == "reversed":
            return T(("iter", elem(a0)))
        if short == "iter":
            return T(("iter", elem(a0)))
        if short in ("itertools.islice", "itertools.takewhile", "itertools.dropwhile") and argts:
            # a sub-sequence of the first / second argument's elements
            return T(("iter", elem(argts[0] if short == "itertools.islice" else (argts[1] if len(argts) > 1 else argts[0]))))
        if short == "itertools.chain.from_iterable" and argts:
            return T(("iter", elem(elem(a0))))
        if short == "zip":
            return T(("iter", T(("tuple", tuple(elem(t) for t in argts)))))
        if short in ("filter", "itertools.filterfalse"):
            return T(("iter", elem(argts[1]) if len(argts) > 1 else ANY))
        if short == "map":
            return T(("iter", ANY))
        if short == "itertools.chain":
            return T(("iter", U(*[elem(t) for t in argts]) if argts else EMPTY))
        if short == "itertools.product":
            rep = None
            for k in e.keywords:
                if k.arg == "repeat" and isinstance(k.value, ast.Constant):
                    rep = k.value.value
            if rep is not None and len(argts) == 1:
                return T(("iter", T(("tuple", tuple(elem(argts[0]) for _ in range(rep))))))
            return T(("iter", T(("tuple", tuple(elem(t) for t in argts)))))
        if short == "next":
            t = elem(a0)
            if len(argts) > 1:
                t = t | argts[1]
            return t
        if short in ("min", "max"):
            if len(argts) == 1:
                return elem(a0)
            return U(*argts) if argts else ANY
        if short == "functools.partial":
            out = set()
            for a in a0:
                if a[0] == "class":
                    out.add(("partial", a[1]))
                else:
                    out.add(("any",))
            return frozenset(out)
        if short == "re.compile":
            return T(("pattern",))
        if short in ("heapq.heappop",):
            return elem(a0)
        if short in ("heapq.heapify", "heapq.heappush", "warnings.warn", "print"):
            return NONE
        if short == "funcattr.cache_clear":
            return NONE
        if short == "getattr":
            return ANY
        if short in ("ValueError", "KeyError", "IndexError", "Exception", "TypeError", "RuntimeError",
                     "StopIteration", "AssertionError", "NotImplementedError"):
            return T(("exc", short))
        return ANY

    def bmeth_call(self, recv, meth, e, argts, kwts):
        k = recv[0]
        a0 = argts[0] if argts else EMPTY
        if k == "str":
            return STR_METHODS.get(meth, ANY)
        if k in ("list", "deque"):
            if meth in ("pop", "popleft"):
                return recv[1]
            if meth in ("index", "count"):
                return INT
            if meth == "copy":
                return frozenset([recv])
            if meth in ("append", "appendleft", "insert"):
                self.widen_receiver(e, (k, recv[1] | (argts[-1] if argts else EMPTY)))
                return NONE
            if meth in ("extend",):
                self.widen_receiver(e, (k, recv[1] | elem(a0)))
                return NONE
            return NONE
        if k == "set":
            if meth == "pop":
                return recv[1]
            if meth in ("add",):
                self.widen_receiver(e, ("set", recv[1] | a0))
                return NONE
            if meth == "update":
                self.widen_receiver(e, ("set", recv[1] | elem(a0)))
                return NONE
            if meth in ("union", "intersection", "difference", "copy"):
                return frozenset([recv])
            return NONE
        if k == "dict":
            if meth == "get":
                return recv[2] | (argts[1] if len(argts) > 1 else NONE)
            if meth == "pop":
                return recv[2] | (argts[1] if len(argts) > 1 else EMPTY)
            if meth == "setdefault":
                self.widen_receiver(e, ("dict", recv[1] | a0, recv[2] | (argts[1] if len(argts) > 1 else NONE)))
                return recv[2] | (argts[1] if len(argts) > 1 else NONE)
            if meth == "items":
                return T(("iter", T(("tuple", (recv[1], recv[2])))))
            if meth == "keys":
                return T(("iter", recv[1]))
            if meth == "values":
                return T(("iter", recv[2]))
            if meth == "copy":
                return frozenset([recv])
            if meth == "update":
                for a in a0:
                    if a[0] == "dict":
                        self.widen_receiver(e, ("dict", recv[1] | a[1], recv[2] | a[2]))
                return NONE
            return NONE
        if k == "pattern":
            if meth in ("match", "fullmatch", "search"):
                return T(("match",), ("none",))
            return ANY
        if k == "match":
            if meth == "groups":
                return T(("list", STR | NONE))
            if meth == "group":
                return STR | NONE
            return ANY
        if k == "iter":
            return ANY
        return ANY

    def widen_receiver(self, call, atom):
        if self.readonly:
            return
        recv = call.func.value
        t = clip(frozenset([atom]))
        if isinstance(recv, ast.Name):
            self.bind(recv.id, t)
        elif isinstance(recv, ast.Attribute):
            self.assign(recv, t, None)
        elif isinstance(recv, ast.Subscript):
            # e.g. partition[2].append(i) / pruned_ds[label].append(x)
            inner = recv.value
            bt = self.expr(inner)
            new = set()
            for a in bt:
                if a[0] == "list":
                    new.add(("list", a[1] | t))
                elif a[0] == "dict":
                    new.add(("dict", a[1], a[2] | t))
            if new and isinstance(inner, ast.Name):
                self.bind(inner.id, clip(frozenset(new)))
            elif new and isinstance(inner, ast.Attribute):
                self.assign(inner, clip(frozenset(new)), None)
        elif isinstance(recv, ast.Call):
            # e.g. self._delocal_subgraph.setdefault(src, []).append(dst)
            if isinstance(recv.func, ast.Attribute) and recv.func.attr == "setdefault":
                inner = recv.func.value
                bt = self.expr(inner)
                new = set()
                for a in bt:
                    if a[0] == "dict":
                        new.add(("dict", a[1], a[2] | t))
                if new:
                    self.assign(inner, clip(frozenset(new)), None)


class ModEnv(Env):
    def __init__(self, types, module):
        super().__init__(types, module)

    def lookup(self, name):
        if name in self.comp:
            return self.comp[name]
        return self.global_name(name)

    def bind(self, name, t):
        if self.readonly:
            return
        self.ty._merge(self.ty.glob, (self.module.name, name), t)


class FuncEnv(Env):
    def __init__(self, types, f):
        super().__init__(types, f.module)
        self.f = f

    def lookup(self, name):
        if name in self.comp:
            return self.comp[name]
        f = self.f
        while f is not None:
            if name in f.local_imports:
                mod, attr = f.local_imports[name]
                if attr is None:
                    return T(("module", mod))
                if mod in self.db.modules:
                    r = self.db.resolve_global(mod, attr)
                    if r and r[0] == "func":
                        return T(("func", r[1].qual))
                    if r and r[0] == "class":
                        return T(("class", r[1].qual))
                    if r and r[0] == "global":
                        return self.ty.glob.get((r[1], r[2]), EMPTY)
                return T(("ext", mod + "." + attr))
            if name in f.locals and name not in f.declared_global:
                t = self.ty.local.get((f.qual, name), EMPTY)
                if name in f.params:
                    t = t | self.ty.param.get((f.qual, name), EMPTY)
                    if not self.ty.param.get((f.qual, name)) and not t:
                        t = ANY if f.qual in self.ty.api or True else EMPTY
                return t
            f = f.outer
        return self.global_name(name)

    def bind(self, name, t):
        if self.readonly:
            return
        if name in self.f.declared_global:
            self.ty._merge(self.ty.glob, (self.module.name, name), t)
        else:
            self.ty._merge(self.ty.local, (self.f.qual, name), t)

    def nested_qual(self, st):
        return self.f.qual + ".<locals>." + st.name

    def on_return(self, st):
        if st.value is None:
            self.ty._merge(self.ty.ret, self.f.qual, NONE) if not self.readonly else None
        else:
            self.saw_return_value = True
            t = self.expr(st.value)
            if not self.readonly:
                self.ty._merge(self.ty.ret, self.f.qual, t)
        # crude: whether function can fall off the end is decided syntactically
        self.may_fall_off = not always_exits(self.f.node.body)

    def on_yield(self, t):
        if not self.readonly:
            self.ty._merge(self.ty.yld, self.f.qual, t)


def always_exits(body):
    """True if the statement list cannot complete normally (return/raise on all paths).
    Loops: `while True` without break never completes normally."""
    for st in body:
        if isinstance(st, (ast.Return, ast.Raise)):
            return True
        if isinstance(st, ast.If):
            if always_exits(st.body) and st.orelse and always_exits(st.orelse):
                return True
        if isinstance(st, ast.Try):
            if always_exits(st.finalbody or []):
                return True
            if always_exits(st.body) and all(always_exits(h.body) for h in st.handlers):
                return True
        if isinstance(st, ast.While):
            if isinstance(st.test, ast.Constant) and st.test.value is True and \
                    not any(isinstance(n, ast.Break) for n in _loop_own(st)):
                return True
        if isinstance(st, (ast.With,)):
            if always_exits(st.body):
                return True
    return False


def _loop_own(loop):
    stack = list(loop.body)
    while stack:
        n = stack.pop()
        yield n
        if isinstance(n, (ast.While, ast.For, ast.FunctionDef, ast.ClassDef)):
            continue
        for c in ast.iter_child_nodes(n):
            stack.append(c)
