"""Thorough tier: checker self-validation on scratch copies (seeded breaks must fire, benign twins
must stay silent).  Operators live in selftest/operators.py; see DESIGN.md §6."""
import time


def run(pid, rep, seed):
    t0 = time.time()
    try:
        from selftest import operators
    except ImportError:
        rep.note("self-validation operators not available in this build")
        return
    operators.validate(pid, rep, seed)
    rep.analysed["selfval_wall_s"] = round(time.time() - t0, 2)
