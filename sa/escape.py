"""E1: exception-escape analysis over the resolved call graph.

For an API entry f, computes which exception classes may escape f: explicit raises and an implicit-raise
catalogue, try/except scoping with the class hierarchy, propagation through call sites, generator bodies
raising at their consumption sites (located with the points-to results), recursion cycles.
Generic discharges (guards, known lengths, handlers) are decided here; what remains is returned to the
rule pack, which consults the hand-confirmed triage table of named invariants.
"""
import ast
import builtins

from . import AnalysisError
from .db import own_nodes, unparse, dotted
from .cg import live_nodes
from .tyinf import FuncEnv
import re as _re_mod


def _re_words(s_):
    return _re_mod.findall(r"[A-Za-z_][A-Za-z_0-9]*", s_)


class RSite:
    __slots__ = ("func", "node", "exc", "kind", "text", "discharge", "consts")

    def __init__(self, func, node, exc, kind, text=None):
        self.func = func
        self.node = node
        self.exc = exc              # exception class name (short)
        self.kind = kind            # 'explicit' | 'subscript' | 'next' | 'int' | 'assert' | 'pop' | 'index' | 'div' | 'unpack' | 'none-deref' | 'recursion'
        self.text = text or unparse(node)
        self.discharge = None       # reason string if discharged generically

    def key(self):
        f = self.func
        short = (f.cls.name + "." + f.name) if f.cls is not None else f.name
        return (short, self.kind, " ".join(self.text.split())[:120])

    def loc(self):
        return self.func.loc(self.node)

    def __repr__(self):
        return "<RSite %s %s %s %s>" % (self.loc(), self.exc, self.kind, self.text[:40])


def parents_map(fnode):
    pm = {}
    for n in ast.walk(fnode):
        for c in ast.iter_child_nodes(n):
            pm[id(c)] = n
    return pm


class FuncInfo:
    def __init__(self, esc, f, consts):
        self.esc = esc
        self.f = f
        self.consts = consts
        self.pm = parents_map(f.node)
        self.live = set(id(n) for n in live_nodes(f.node, consts))
        self.env = FuncEnv(esc.ctx.ty, f)
        self.env.readonly = True
        self.sites = []         # RSite (local)
        self.calls = []         # (cg Site, node)
        self.consumes = []      # (node, [generator Func])
        self._collect()

    # ---- try scoping
    def handlers_of(self, node):
        """list of lists of handler type names for the try blocks whose *body* encloses node (innermost first)"""
        out = []
        cur = node
        while True:
            p = self.pm.get(id(cur))
            if p is None or p is self.f.node:
                break
            if isinstance(p, ast.Try) and any(cur is x or _contains(x, cur) for x in p.body):
                names = []
                for h in p.handlers:
                    if h.type is None:
                        names.append("BaseException")
                    else:
                        ts = h.type.elts if isinstance(h.type, ast.Tuple) else [h.type]
                        for t in ts:
                            names.append((dotted(t) or "?").split(".")[-1])
                out.append((p, names))
            cur = p
        return out

    def caught(self, node, exc):
        anc = self.esc.ancestors(exc)
        for tr, names in self.handlers_of(node):
            if any(n in anc for n in names):
                return tr
        return None

    def _unorderable(self, t, depth):
        """a reason why values of type t cannot be ordered with `<` -- only for instances of package classes (unknown types are
        not judged)"""
        db = self.esc.ctx.db
        for a in t:
            if a[0] == "inst":
                c = db.classes.get(a[1])
                if c is None:
                    continue
                if any(m in c.methods for m in ("__lt__", "__gt__", "__le__", "__ge__")):
                    continue
                ordered = False
                for d in c.node.decorator_list:
                    if isinstance(d, ast.Call) and (dotted(d.func) or "").split(".")[-1] == "dataclass":
                        ordered = any(k.arg == "order" and isinstance(k.value, ast.Constant) and k.value.value is True for k in d.keywords)
                if not ordered:
                    return "instances of %s define no ordering" % c.name
                if depth > 2:
                    continue
                for st in c.node.body:
                    if isinstance(st, ast.AnnAssign) and isinstance(st.target, ast.Name):
                        ann = unparse(st.annotation)
                        for cn, c2 in db.classes.items():
                            short = cn.split(".")[-1]
                            if short in [w for w in _re_words(ann)] and c2 is not c:
                                sub = self._unorderable(frozenset([("inst", cn)]), depth + 1)
                                if sub:
                                    return "%s is ordered field by field, and its field %s holds %s" % (c.name, st.target.id, sub)
                        if "Optional" in ann or "None" in ann:
                            return "%s is ordered field by field, and its field %s may be None" % (c.name, st.target.id)
            elif a[0] in ("list", "tuple", "set", "deque") and depth < 3:
                inner = a[1] if a[0] != "tuple" else frozenset(x for comp in a[1] for x in comp)
                sub = self._unorderable(inner, depth + 1) if isinstance(inner, frozenset) else None
                if sub:
                    return sub
        return None

    def type_of(self, expr):
        # variables of the comprehensions that enclose expr are bound to the element types of their iterables
        comps = []
        cur = expr
        while True:
            p = self.pm.get(id(cur))
            if p is None:
                break
            if isinstance(p, (ast.ListComp, ast.SetComp, ast.GeneratorExp, ast.DictComp)):
                comps.append((p, cur))
            cur = p
        saved = dict(getattr(self.env, "comp", {}))
        try:
            from .tyinf import elem as _elem
            for comp, child in reversed(comps):
                for g in comp.generators:
                    if child is g or any(x is child for x in ast.walk(g.iter)) and child is not comp:
                        # expr sits in this generator's own iterable: its target is not bound yet
                        if any(x is expr for x in ast.walk(g.iter)):
                            break
                    self.env._bind_comp(g.target, _elem(self.env.expr(g.iter)))
            return self.env.expr(expr)
        except Exception:
            return frozenset([("any",)])
        finally:
            if hasattr(self.env, "comp"):
                self.env.comp = saved

    # ---- collection
    def _collect(self):
        f = self.f
        cgsites = {id(s.node): s for s in self.esc.ctx.cg.sites(f, self.consts)}
        for n in live_nodes(f.node, self.consts):
            if isinstance(n, ast.Raise):
                if n.exc is None:
                    # bare re-raise inside a handler: re-raises what the handler caught
                    h = self._enclosing_handler(n)
                    names = ["Exception"]
                    if h is not None and h.type is not None:
                        ts = h.type.elts if isinstance(h.type, ast.Tuple) else [h.type]
                        names = [(dotted(t) or "?").split(".")[-1] for t in ts]
                    for nm in names:
                        self.sites.append(RSite(f, n, nm, "explicit"))
                else:
                    e = n.exc.func if isinstance(n.exc, ast.Call) else n.exc
                    nm = (dotted(e) or "Exception").split(".")[-1]
                    if isinstance(e, ast.Name) and e.id in f.locals:
                        h = self._enclosing_handler(n)
                        nm = "Exception"
                        if h is not None and h.name == e.id and h.type is not None:
                            nm = (dotted(h.type) or "Exception").split(".")[-1]
                    self.sites.append(RSite(f, n, nm, "explicit"))
            elif isinstance(n, ast.Assert):
                self.sites.append(RSite(f, n, "AssertionError", "assert"))
            elif isinstance(n, ast.Subscript) and isinstance(n.ctx, ast.Load) and not isinstance(n.slice, ast.Slice):
                t = self.type_of(n.value)
                kinds = {a[0] for a in t}
                if kinds and kinds <= {"dict"}:
                    self.sites.append(RSite(f, n, "KeyError", "subscript"))
                elif kinds and kinds <= {"list", "tuple", "str", "deque"}:
                    self.sites.append(RSite(f, n, "IndexError", "subscript"))
                else:
                    self.sites.append(RSite(f, n, "LookupError", "subscript"))
            elif isinstance(n, ast.Call):
                s = cgsites.get(id(n))
                fn = unparse(n.func)
                if s is not None:
                    self.calls.append((s, n))
                if fn == "next" and len(n.args) == 1:
                    self.sites.append(RSite(f, n, "StopIteration", "next"))
                elif fn in ("int", "float") and len(n.args) == 1:
                    t = self.type_of(n.args[0])
                    if not t or any(a[0] in ("str", "any") for a in t):
                        self.sites.append(RSite(f, n, "ValueError", "int"))
                elif isinstance(n.func, ast.Attribute) and n.func.attr in ("pop", "popleft") and s is not None \
                        and not s.callees:
                    t = self.type_of(n.func.value)
                    kinds = {a[0] for a in t}
                    if n.func.attr == "pop" and n.args and kinds <= {"dict"} and len(n.args) >= 2:
                        pass
                    elif kinds <= {"dict", "set"} and kinds:
                        self.sites.append(RSite(f, n, "KeyError", "pop"))
                    else:
                        self.sites.append(RSite(f, n, "IndexError", "pop"))
                elif fn in ("heapq.heappop", "heappop"):
                    self.sites.append(RSite(f, n, "IndexError", "pop"))
                elif (fn in ("sorted", "min", "max") and len(n.args) == 1 or (isinstance(n.func, ast.Attribute) and n.func.attr == "sort"
                                                                              and s is not None and not s.callees)) \
                        and not any(k.arg == "key" for k in n.keywords):
                    # ordering instances of a package class: TypeError unless the class (and, for an ordered dataclass, every
                    # field) is orderable
                    from .tyinf import elem as _elem
                    src = n.args[0] if fn in ("sorted", "min", "max") else n.func.value
                    et = _elem(self.type_of(src))
                    if not any(a[0] == "inst" for a in et):
                        # the element classes of a container filled in callees: from the points-to contents of the iterated name
                        base = src
                        if isinstance(base, (ast.GeneratorExp, ast.ListComp)) and len(base.generators) == 1 \
                                and isinstance(base.elt, ast.Name) and isinstance(base.generators[0].target, ast.Name) \
                                and base.elt.id == base.generators[0].target.id:
                            base = base.generators[0].iter
                        if isinstance(base, ast.Name):
                            pt = self.esc.ctx.pt
                            extra = set()
                            for i in pt.v(f.qual, base.id):
                                if isinstance(i, tuple) and i[0] == "alloc" and i in pt.objs:
                                    for j in pt.objs[i].contents:
                                        o = pt.objs.get(j) if isinstance(j, tuple) else None
                                        if o is not None and o.kind == "inst" and o.cls:
                                            extra.add(("inst", o.cls))
                            et = frozenset(et | extra)
                    bad = self._unorderable(et, 0)
                    if bad:
                        self.sites.append(RSite(f, n, "TypeError", "sort"))
                        self.sort_why = getattr(self, "sort_why", {})
                        self.sort_why[id(n)] = bad
                elif isinstance(n.func, ast.Attribute) and n.func.attr in ("index", "remove") and s is not None and not s.callees:
                    self.sites.append(RSite(f, n, "ValueError", "index"))
                elif isinstance(n.func, ast.Attribute) and n.func.attr == "format" and s is not None and not s.callees:
                    recv = n.func.value
                    if isinstance(recv, ast.Name):
                        # a module-level name bound once to a string literal is that literal
                        from .guards import module_str_consts
                        cs = module_str_consts(f)
                        if recv.id in cs:
                            recv = ast.Constant(value=cs[recv.id])
                    if isinstance(recv, ast.Constant) and isinstance(recv.value, str):
                        # constant template: placeholders must be served by the arguments
                        import string
                        try:
                            flds = [x[1] for x in string.Formatter().parse(recv.value) if x[1] is not None]
                            auto = sum(1 for x in flds if x == "")
                            named = [x for x in flds if x and not x.isdigit()]
                            kws = {k.arg for k in n.keywords}
                            star = any(isinstance(a, ast.Starred) for a in n.args) or any(k.arg is None for k in n.keywords)
                            if not star and (auto > len(n.args) or any(x.split(".")[0].split("[")[0] not in kws for x in named)):
                                self.sites.append(RSite(f, n, "IndexError", "format"))
                        except ValueError:
                            self.sites.append(RSite(f, n, "ValueError", "format"))
                    else:
                        t = self.type_of(recv)
                        if not t or any(a[0] in ("str", "any") for a in t):
                            # template built at run time (e.g. from the input): '{' / '}' in it make format() raise
                            self.sites.append(RSite(f, n, "ValueError", "format"))
            elif isinstance(n, ast.BinOp) and isinstance(n.op, (ast.Div, ast.FloorDiv, ast.Mod)):
                lt = self.type_of(n.left)
                if any(a[0] == "str" for a in lt) and isinstance(n.op, ast.Mod):
                    continue
                if isinstance(n.right, ast.Constant) and isinstance(n.right.value, (int, float)) and n.right.value != 0:
                    continue
                self.sites.append(RSite(f, n, "ZeroDivisionError", "div"))
            elif isinstance(n, ast.AugAssign) and isinstance(n.op, (ast.Div, ast.FloorDiv, ast.Mod)):
                if isinstance(n.value, ast.Constant) and n.value.value != 0:
                    continue
                self.sites.append(RSite(f, n, "ZeroDivisionError", "div"))
            elif isinstance(n, (ast.Assign, ast.For, ast.comprehension)):
                tgts = n.targets if isinstance(n, ast.Assign) else [n.target]
                val = n.value if isinstance(n, ast.Assign) else None
                for tg in tgts:
                    if isinstance(tg, (ast.Tuple, ast.List)) and not any(isinstance(e, ast.Starred) for e in tg.elts):
                        self.sites.append(RSite(f, tg, "ValueError", "unpack",
                                                text=unparse(tg) + " = " + (unparse(val) if val is not None else "<element>")))
            elif isinstance(n, ast.Attribute) and isinstance(n.ctx, ast.Load) and isinstance(n.value, ast.Name) \
                    and n.value.id in self.maybe_none():
                self.sites.append(RSite(f, n, "AttributeError", "none-deref"))
            # generator consumption
            it = None
            if isinstance(n, (ast.For, ast.comprehension)):
                it = n.iter
            elif isinstance(n, ast.Call) and unparse(n.func) in ("next", "list", "tuple", "deque", "collections.deque", "set", "sorted",
                                                               "sum", "any", "all", "max", "min", "enumerate", "zip", "dict") and n.args:
                it = n.args[0]
            elif isinstance(n, ast.Call) and isinstance(n.func, ast.Attribute) and n.func.attr in ("join", "extend", "update") and n.args:
                it = n.args[0]
            if it is not None:
                gens = self.esc.generators_of(f, it)
                if gens:
                    self.consumes.append((n, gens))

    def maybe_none(self):
        """local names that may hold None by a source inside this function (or a literal None argument):
        x = None; x = f(...) with f returning None on some path; x = c[...] / c.pop() with None inserted into c here;
        parameters that receive a literal None at some call site"""
        if hasattr(self, "_mn"):
            return self._mn
        f = self.f
        out = set()
        self._mn = out
        optional = self.esc.optional_returning()
        # parameters receiving a literal None
        for p in f.params:
            if p in self.esc.none_params().get(f.qual, ()):
                out.add(p)
        assigns = [n for n in own_nodes(f.node) if isinstance(n, ast.Assign)]
        conts = set()
        changed = True
        while changed:
            changed = False
            for n in own_nodes(f.node):
                # containers receiving a maybe-None value
                if isinstance(n, ast.Call) and isinstance(n.func, ast.Attribute) and n.func.attr in ("append", "appendleft", "add", "insert") \
                        and isinstance(n.func.value, ast.Name) and n.args:
                    a = n.args[-1]
                    if (isinstance(a, ast.Constant) and a.value is None) or (isinstance(a, ast.Name) and a.id in out):
                        if n.func.value.id not in conts:
                            conts.add(n.func.value.id)
                            changed = True
            for n in assigns:
                if len(n.targets) != 1 or not isinstance(n.targets[0], ast.Name):
                    continue
                nm = n.targets[0].id
                v = n.value
                src = False
                if isinstance(v, ast.Constant) and v.value is None:
                    src = True
                elif isinstance(v, ast.Name) and v.id in out:
                    src = True
                elif isinstance(v, ast.Call):
                    site = {id(s.node): s for s in self.esc.ctx.cg.sites(f, self.consts)}.get(id(v))
                    if site is not None and any(g.qual in optional for g in site.callees):
                        src = True
                    if isinstance(v.func, ast.Attribute) and v.func.attr in ("pop", "popleft", "get") and isinstance(v.func.value, ast.Name) \
                            and v.func.value.id in conts:
                        src = True
                elif isinstance(v, ast.Subscript) and isinstance(v.value, ast.Name) and v.value.id in conts:
                    src = True
                elif isinstance(v, ast.IfExp) and any(isinstance(x, ast.Constant) and x.value is None for x in (v.body, v.orelse)):
                    src = True
                if src and nm not in out:
                    out.add(nm)
                    changed = True
        return out

    def _enclosing_handler(self, node):
        cur = node
        while True:
            p = self.pm.get(id(cur))
            if p is None:
                return None
            if isinstance(p, ast.ExceptHandler):
                return p
            cur = p


def _contains(root, node):
    for x in ast.walk(root):
        if x is node:
            return True
    return False


class Escape:
    def __init__(self, ctx, entry, consts_list=None):
        """entry: Func; consts_list: list of constant-flag dicts to analyse (union)"""
        self.ctx = ctx
        self.entry = entry
        self.infos = {}
        self.order = []
        for consts in (consts_list or [{}]):
            reg = ctx.cg.region(entry, consts)
            for q, cl in reg.items():
                for cs in cl:
                    key = (q, frozenset(cs.items()))
                    if key not in self.infos:
                        self.infos[key] = None
                        self.order.append(key)
        self._anc = {}
        for key in self.order:
            q, cs = key
            self.infos[key] = FuncInfo(self, ctx.db.funcs[q], dict(cs))
        self.quals = sorted({q for q, _ in self.order})
        self._escapes = None

    def optional_returning(self):
        """package functions that return None on some path and a value on another"""
        if not hasattr(self, "_opt"):
            out = set()
            for q in self.quals if hasattr(self, "quals") else []:
                pass
            for g in self.ctx.db.funcs.values():
                rets = [r for r in own_nodes(g.node) if isinstance(r, ast.Return)]
                has_val = any(r.value is not None and not (isinstance(r.value, ast.Constant) and r.value.value is None) for r in rets)
                has_none = any(r.value is None or (isinstance(r.value, ast.Constant) and r.value.value is None) for r in rets)
                if has_val and has_none and not g.is_generator:
                    out.add(g.qual)
            self._opt = out
        return self._opt

    def none_params(self):
        """func qual -> parameters that receive a literal None at some call site of the package"""
        if not hasattr(self, "_np"):
            out = {}
            for g in self.ctx.db.funcs.values():
                for s in self.ctx.cg.sites(g):
                    if not isinstance(s.node, ast.Call):
                        continue
                    for h in s.callees:
                        pos = h.posparams[1:] if (h.is_method or h.name == "__init__") else h.posparams
                        for i, a in enumerate(s.node.args):
                            if isinstance(a, ast.Constant) and a.value is None and i < len(pos):
                                out.setdefault(h.qual, set()).add(pos[i])
                        for k in s.node.keywords:
                            if k.arg and isinstance(k.value, ast.Constant) and k.value.value is None:
                                out.setdefault(h.qual, set()).add(k.arg)
            self._np = out
        return self._np

    def ancestors(self, exc):
        if exc not in self._anc:
            anc = set()
            for c in self.ctx.db.classes.values():
                if c.name == exc:
                    anc |= {a.split(".")[-1] for a in self.ctx.db.exc_ancestors(c)}
            obj = getattr(builtins, exc, None)
            if isinstance(obj, type):
                anc |= {k.__name__ for k in obj.__mro__}
            anc.add(exc)
            self._anc[exc] = anc
        return self._anc[exc]

    def generators_of(self, f, expr):
        """generator functions whose objects the expression may evaluate to (via points-to)"""
        pt = self.ctx.pt
        out = []
        ids = set()
        if isinstance(expr, ast.Name):
            ids = {i for i in pt.v(f.qual, expr.id) if isinstance(i, tuple)}
        elif isinstance(expr, ast.Call):
            # direct call of a generator function / wrapper around one
            site = {id(s.node): s for s in self.ctx.cg.sites(f)}.get(id(expr))
            if site is not None:
                for g in site.callees:
                    if g.is_generator:
                        out.append(g)
            for a in expr.args:
                out.extend(self.generators_of(f, a))
        seen = set()
        work = list(ids)
        while work:
            i = work.pop()
            if i in seen:
                continue
            seen.add(i)
            o = pt.objs.get(i)
            if o is None:
                continue
            if o.kind == "gen":
                tag = i[4]
                q = tag.split(":", 1)[1] if ":" in tag else None
                if q in self.ctx.db.funcs:
                    out.append(self.ctx.db.funcs[q])
            for j in o.src:
                work.append(j)
        res = []
        for g in out:
            if g not in res:
                res.append(g)
        return res

    # ------------------------------------------------------------------ propagation
    def escapes(self):
        """dict key(func,consts) -> set of (exc, origin RSite)"""
        if self._escapes is not None:
            return self._escapes
        esc = {k: set() for k in self.order}
        changed = True
        rounds = 0
        while changed:
            changed = False
            rounds += 1
            if rounds > 60:
                raise AnalysisError("escape analysis did not converge")
            for key in self.order:
                info = self.infos[key]
                cur = esc[key]
                new = set()
                for s in info.sites:
                    if s.discharge is None and info.caught(s.node, s.exc) is None:
                        new.add((s.exc, s))
                for site, node in info.calls:
                    for g in site.callees + site.hof:
                        if g.is_generator and g in site.callees:
                            continue   # body runs at consumption
                        gc = self.ctx.cg.callee_consts(site, g, info.consts) if g in site.callees else {}
                        gk = (g.qual, frozenset(gc.items()))
                        if gk not in esc:
                            gk = (g.qual, frozenset())
                            if gk not in esc:
                                cands = [k for k in esc if k[0] == g.qual]
                                if not cands:
                                    continue
                                gk = cands[0]
                        for exc, origin in esc[gk]:
                            if info.caught(node, exc) is None:
                                new.add((exc, origin))
                for node, gens in info.consumes:
                    for g in gens:
                        for gk in [k for k in esc if k[0] == g.qual]:
                            for exc, origin in esc[gk]:
                                if info.caught(node, exc) is None:
                                    new.add((exc, origin))
                if not new <= cur:
                    cur |= new
                    changed = True
        self._escapes = esc
        return esc

    def entry_escapes(self):
        esc = self.escapes()
        out = set()
        for k in esc:
            if k[0] == self.entry.qual:
                out |= esc[k]
        return out

    def all_sites(self):
        for key in self.order:
            for s in self.infos[key].sites:
                yield self.infos[key], s
