"""E7: interprocedural taint / non-interference analysis.

Flow-insensitive inside a function, field-based (class-qualified through the light type inference),
interprocedural through parameter / return / field / global summaries, with implicit flows: a write
under a tainted condition (including the remainder of a block after a tainted early exit) taints its
target, and a call under tainted control taints everything the callee writes.

Locations:  ('var', func, name)  ('comp', func, name, i)  ('ret', func)  ('retc', func, i)
            ('field', cls_or_*, attr)  ('glob', mod, name)  ('pc', func)
"""
import ast

from .db import own_nodes, unparse, target_names
from .tyinf import FuncEnv


class Taint:
    def __init__(self, ctx, sources, region=None, label="T", interproc_pc=True):
        """sources: iterable of locations initially tainted"""
        self.interproc_pc = interproc_pc
        self.ctx = ctx
        self.db = ctx.db
        self.cg = ctx.cg
        self.ty = ctx.ty
        self.t = set(sources)
        self.why = {s: "source" for s in self.t}
        self.funcs = [ctx.db.funcs[q] for q in region] if region is not None else list(ctx.db.funcs.values())
        self.changed = True
        self.rounds = 0
        while self.changed:
            self.changed = False
            self.rounds += 1
            if self.rounds > 40:
                raise RuntimeError("taint analysis did not converge")
            for f in self.funcs:
                FuncTaint(self, f).run()

    def add(self, loc, why):
        if loc not in self.t:
            self.t.add(loc)
            self.why[loc] = why
            self.changed = True

    def tainted(self, loc):
        return loc in self.t

    def explain(self, loc, depth=6):
        out = []
        cur = loc
        for _ in range(depth):
            w = self.why.get(cur)
            if w is None:
                break
            if isinstance(w, tuple):
                out.append("%s <- %s" % (fmt(cur), w[0]))
                cur = w[1]
            else:
                out.append("%s (%s)" % (fmt(cur), w))
                break
        return "; ".join(out)


def fmt(loc):
    k = loc[0]
    if k == "var":
        return "%s:%s" % (loc[1].split(".")[-1], loc[2])
    if k == "comp":
        return "%s:%s[%d]" % (loc[1].split(".")[-1], loc[2], loc[3])
    if k == "ret":
        return "return of %s" % loc[1].split(".")[-1]
    if k == "retc":
        return "return[%d] of %s" % (loc[2], loc[1].split(".")[-1])
    if k == "field":
        return "field %s.%s" % (str(loc[1]).split(".")[-1], loc[2])
    if k == "glob":
        return "global %s.%s" % (loc[1], loc[2])
    if k == "pc":
        return "control of %s" % loc[1].split(".")[-1]
    return str(loc)


class FuncTaint:
    def __init__(self, T, f):
        self.T = T
        self.f = f
        self.q = f.qual
        self.env = FuncEnv(T.ty, f)
        self.env.readonly = True
        self.sites = {id(s.node): s for s in T.cg.sites(f)}

    def run(self):
        pc = [("pc", self.q)] if self.T.tainted(("pc", self.q)) else []
        self.block(self.f.node.body, pc)

    # --- helpers
    def var(self, name):
        f = self.f
        while f is not None:
            if name in f.locals and name not in f.declared_global:
                return ("var", f.qual, name)
            f = f.outer
        r = self.T.db.resolve_global(self.f.module, name)
        if r and r[0] == "global":
            return ("glob", r[1], r[2])
        return None

    def classes_of(self, expr):
        t = self.env.expr(expr)
        cs = sorted(a[1] for a in t if a[0] == "inst")
        return cs

    def field_locs(self, base_expr, attr):
        cs = self.classes_of(base_expr)
        if cs:
            return [("field", c, attr) for c in cs]
        # unknown receiver: every package class defining / storing that attribute
        out = [("field", c, attr) for (c, a) in self.T.ty.field if a == attr]
        return out or [("field", "*", attr)]

    # --- expression taint: set of tainted locations that flow into the value
    def expr(self, e):
        """returns list of tainted source locations (empty = clean)"""
        out = []
        if e is None:
            return out
        if isinstance(e, ast.Name):
            v = self.var(e.id)
            if v is not None and self.T.tainted(v):
                out.append(v)
            return out
        if isinstance(e, ast.Constant):
            return out
        if isinstance(e, ast.Attribute):
            # property getter?
            s = self.sites.get(id(e))
            if s is not None and s.kind == "prop":
                for g in s.callees:
                    out.extend(self.expr(e.value))  # self flows in
                    if self.T.tainted(("ret", g.qual)):
                        out.append(("ret", g.qual))
                return out
            for fl in self.field_locs(e.value, e.attr):
                if self.T.tainted(fl):
                    out.append(fl)
            # the object itself being tainted (e.g. element of a tainted container)
            if not isinstance(e.value, ast.Name) or self._is_local(e.value.id):
                out.extend(self.expr(e.value)) if self._container_taint(e.value) else None
            return out
        if isinstance(e, ast.Subscript):
            # constant index into a component-tracked tuple variable
            if isinstance(e.value, ast.Name) and isinstance(e.slice, ast.Constant) and isinstance(e.slice.value, int):
                v = self.var(e.value.id)
                if v is not None and v[0] == "var" and self._has_comps(v):
                    c = ("comp", v[1], v[2], e.slice.value)
                    return [c] if self.T.tainted(c) else []
            out.extend(self.expr(e.value))
            if not isinstance(e.slice, ast.Slice):
                out.extend(self.expr(e.slice))
            else:
                for x in (e.slice.lower, e.slice.upper, e.slice.step):
                    out.extend(self.expr(x))
            return out
        if isinstance(e, ast.Call):
            return self.call(e, [])
        if isinstance(e, ast.IfExp):
            return self.expr(e.test) + self.expr(e.body) + self.expr(e.orelse)
        if isinstance(e, (ast.ListComp, ast.SetComp, ast.GeneratorExp, ast.DictComp)):
            for g in e.generators:
                src = self.expr(g.iter)
                for c in g.ifs:
                    src = src + self.expr(c)
                for nm in target_names(g.target):
                    v = self.var(nm) or ("var", self.q, nm)
                    if src:
                        self.T.add(("var", self.q, nm), ("comprehension over", src[0]))
            elts = [e.key, e.value] if isinstance(e, ast.DictComp) else [e.elt]
            for g in e.generators:
                out.extend(self.expr(g.iter))
                for c in g.ifs:
                    out.extend(self.expr(c))
            for x in elts:
                out.extend(self.expr(x))
            return out
        if isinstance(e, ast.Lambda):
            return self.expr(e.body)
        for c in ast.iter_child_nodes(e):
            if isinstance(c, ast.expr):
                out.extend(self.expr(c))
        return out

    def _is_local(self, name):
        return name in self.f.locals

    def _container_taint(self, e):
        return True

    def _has_comps(self, v):
        return any(l[0] == "comp" and l[1] == v[1] and l[2] == v[2] for l in self.T.why) or \
            (v[1], v[2]) in self._comp_vars()

    def _comp_vars(self):
        cache = getattr(self, "_cv", None)
        if cache is None:
            cache = set()
            for n in own_nodes(self.f.node):
                if isinstance(n, ast.Assign) and len(n.targets) == 1 and isinstance(n.targets[0], ast.Name) \
                        and isinstance(n.value, ast.Tuple):
                    # only if every assignment to that name is a tuple display of the same arity
                    cache.add((self.q, n.targets[0].id))
            for n in own_nodes(self.f.node):
                if isinstance(n, (ast.Assign, ast.AugAssign)):
                    tg = n.targets if isinstance(n, ast.Assign) else [n.target]
                    for t in tg:
                        if isinstance(t, ast.Name) and (self.q, t.id) in cache and not isinstance(getattr(n, "value", None), ast.Tuple):
                            cache.discard((self.q, t.id))
            self._cv = cache
        return cache

    # --- calls
    def call(self, e, pc):
        T = self.T
        s = self.sites.get(id(e))
        argsrc = []
        per_arg = []
        for a in e.args:
            x = self.expr(a.value if isinstance(a, ast.Starred) else a)
            per_arg.append((a, x))
            argsrc.extend(x)
        per_kw = []
        for k in e.keywords:
            x = self.expr(k.value)
            per_kw.append((k.arg, x))
            argsrc.extend(x)
        recv = []
        if isinstance(e.func, ast.Attribute):
            recv = self.expr(e.func.value)
        out = []
        if s is None:
            return argsrc + recv
        for g in s.callees:
            if pc and T.interproc_pc:
                T.add(("pc", g.qual), ("called under tainted control in %s" % self.q.split(".")[-1], pc[0]))
            pos = list(g.posparams)
            if g.is_method or (s.kind == "ctor" and g.name == "__init__"):
                if recv and g.is_method and s.kind != "ctor":
                    T.add(("var", g.qual, pos[0]), ("receiver", recv[0]))
                pos = pos[1:]
            i = 0
            for a, x in per_arg:
                if isinstance(a, ast.Starred):
                    for p in pos[i:]:
                        if x:
                            T.add(("var", g.qual, p), ("argument", x[0]))
                    i = len(pos)
                    continue
                if i < len(pos) and x:
                    T.add(("var", g.qual, pos[i]), ("argument at %s" % self.f.loc(e), x[0]))
                elif i >= len(pos) and g.vararg and x:
                    T.add(("var", g.qual, g.vararg), ("argument", x[0]))
                i += 1
            for kname, x in per_kw:
                if x and kname in g.params:
                    T.add(("var", g.qual, kname), ("argument at %s" % self.f.loc(e), x[0]))
            if s.kind == "ctor" and g.name == "__init__":
                pass
            else:
                if T.tainted(("ret", g.qual)):
                    out.append(("ret", g.qual))
        if s.kind == "ctor":
            # a constructed object is as tainted as its arguments (fields are tracked separately, but
            # container-of-object conflation needs the object taint)
            c = None
            for x in s.ext:
                if x.startswith("new:"):
                    c = T.db.classes.get(x[4:])
                    if c is not None and "__init__" not in c.methods:
                        names = [n for n, st in c.class_attrs.items() if isinstance(st, ast.AnnAssign)]
                        for n, (a, x2) in zip(names, per_arg):
                            if x2:
                                T.add(("field", c.qual, n), ("constructor argument", x2[0]))
                        for kname, x2 in per_kw:
                            if x2 and kname:
                                T.add(("field", c.qual, kname), ("constructor argument", x2[0]))
            # field-sensitive: the new object itself is clean; its fields carry the taint
        for x in s.ext:
            if x.startswith("new:"):
                continue
            # external: result depends on all arguments and the receiver; mutators taint the receiver
            out.extend(argsrc)
            out.extend(recv)
            meth = x.rsplit(".", 1)[-1]
            if meth in ("append", "appendleft", "extend", "insert", "add", "update", "setdefault", "heappush") and \
                    isinstance(e.func, ast.Attribute):
                src = argsrc + list(pc)
                if src:
                    self.store(e.func.value, src, "mutated by .%s()" % meth)
            if x in ("heapq.heappush",) and e.args:
                src = argsrc + list(pc)
                if src:
                    self.store(e.args[0], src, "heappush")
        for g in s.hof:
            if argsrc:
                for p in (g.posparams[1:] if g.is_method else g.posparams):
                    T.add(("var", g.qual, p), ("higher-order argument", argsrc[0]))
            if T.tainted(("ret", g.qual)):
                out.append(("ret", g.qual))
        return out

    # --- stores
    def store(self, target, src, how):
        """src: non-empty list of tainted locations"""
        T = self.T
        if not src:
            return
        w = (how + " at " + self.f.loc(target), src[0])
        if isinstance(target, ast.Name):
            v = self.var(target.id) or ("var", self.q, target.id)
            T.add(v, w)
        elif isinstance(target, (ast.Tuple, ast.List)):
            for x in target.elts:
                self.store(x, src, how)
        elif isinstance(target, ast.Starred):
            self.store(target.value, src, how)
        elif isinstance(target, ast.Attribute):
            for fl in self.field_locs(target.value, target.attr):
                T.add(fl, w)
        elif isinstance(target, ast.Subscript):
            self.store(target.value, src, how)
        elif isinstance(target, ast.Call):
            # e.g. d.setdefault(k, []).append(x): taint the receiver of the inner call
            if isinstance(target.func, ast.Attribute):
                self.store(target.func.value, src, how)

    # --- statements
    def block(self, body, pc):
        pc = list(pc)
        for st in body:
            self.stmt(st, pc)
            # early exit under tainted control taints the remainder of the block
            ex = self._tainted_exit(st)
            if ex:
                pc = pc + ex

    def _tainted_exit(self, st):
        """if st is an `if` with a tainted test one of whose arms leaves the block, the rest is control-dependent"""
        if isinstance(st, ast.If):
            src = self.expr(st.test)
            if src and (self._leaves(st.body) or self._leaves(st.orelse)):
                return src
        if isinstance(st, ast.Assert):
            return self.expr(st.test)
        return []

    @staticmethod
    def _leaves(body):
        for n in body:
            for x in ast.walk(n):
                if isinstance(x, (ast.Return, ast.Raise, ast.Break, ast.Continue)):
                    return True
        return False

    def stmt(self, st, pc):
        T = self.T
        if isinstance(st, ast.Assign):
            src = self.expr(st.value) + pc
            for tg in st.targets:
                # component-wise for tuple displays bound to a single name
                if isinstance(tg, ast.Name) and isinstance(st.value, ast.Tuple) and (self.q, tg.id) in self._comp_vars():
                    for i, x in enumerate(st.value.elts):
                        xs = self.expr(x) + pc
                        if xs:
                            T.add(("comp", self.q, tg.id, i), ("component %d" % i, xs[0]))
                    continue
                if isinstance(tg, (ast.Tuple, ast.List)) and isinstance(st.value, ast.Tuple) and len(tg.elts) == len(st.value.elts):
                    for t2, x in zip(tg.elts, st.value.elts):
                        self.store(t2, self.expr(x) + pc, "assignment")
                    continue
                # unpacking the result of a call with component-wise return taint
                if isinstance(tg, (ast.Tuple, ast.List)) and isinstance(st.value, ast.Call):
                    s = self.sites.get(id(st.value))
                    if s is not None and len(s.callees) == 1 and not s.ext and self._ret_comps(s.callees[0], len(tg.elts)):
                        g = s.callees[0]
                        self.call(st.value, pc)
                        for i, t2 in enumerate(tg.elts):
                            xs = ([("retc", g.qual, i)] if T.tainted(("retc", g.qual, i)) else []) + pc
                            self.store(t2, xs, "unpacked result")
                        continue
                self.store(tg, src, "assignment")
        elif isinstance(st, ast.AnnAssign):
            if st.value is not None:
                self.store(st.target, self.expr(st.value) + pc, "assignment")
        elif isinstance(st, ast.AugAssign):
            self.store(st.target, self.expr(st.value) + self.expr(st.target) + pc, "augmented assignment")
        elif isinstance(st, ast.Expr):
            if isinstance(st.value, ast.Call):
                self.call(st.value, pc)
            else:
                self.expr(st.value)
        elif isinstance(st, ast.If):
            src = self.expr(st.test)
            self.block(st.body, pc + src)
            self.block(st.orelse, pc + src)
        elif isinstance(st, ast.While):
            src = self.expr(st.test)
            self.block(st.body, pc + src)
            self.block(st.orelse, pc + src)
        elif isinstance(st, (ast.For, ast.AsyncFor)):
            src = self.expr(st.iter)
            self.store(st.target, src + pc, "loop variable")
            self.block(st.body, pc + src)
            self.block(st.orelse, pc + src)
        elif isinstance(st, ast.Try):
            self.block(st.body, pc)
            for h in st.handlers:
                self.block(h.body, pc)
            self.block(st.orelse, pc)
            self.block(st.finalbody, pc)
        elif isinstance(st, (ast.With, ast.AsyncWith)):
            for it in st.items:
                src = self.expr(it.context_expr)
                if it.optional_vars is not None:
                    self.store(it.optional_vars, src + pc, "with")
            self.block(st.body, pc)
        elif isinstance(st, ast.Return):
            if st.value is not None:
                v = st.value
                if isinstance(v, ast.Tuple):
                    for i, x in enumerate(v.elts):
                        xs = self.expr(x) + pc
                        if xs:
                            T.add(("retc", self.q, i), ("returned component", xs[0]))
                            T.add(("ret", self.q), ("returned component", xs[0]))
                else:
                    src = self.expr(v) + pc
                    if src:
                        T.add(("ret", self.q), ("returned at " + self.f.loc(st), src[0]))
                        for i in range(8):
                            pass
            elif pc:
                pass
        elif isinstance(st, (ast.Raise, ast.Assert, ast.Delete)):
            for c in ast.iter_child_nodes(st):
                if isinstance(c, ast.expr):
                    self.expr(c)
        elif isinstance(st, ast.Global):
            pass
        # yields inside expressions
        for n in ast.walk(st) if isinstance(st, (ast.Expr, ast.Assign)) else []:
            if isinstance(n, (ast.Yield, ast.YieldFrom)) and n.value is not None:
                src = self.expr(n.value) + pc
                if src:
                    T.add(("ret", self.q), ("yielded", src[0]))

    def _ret_comps(self, g, n):
        """does g return only tuple displays of arity n"""
        rets = [r for r in own_nodes(g.node) if isinstance(r, ast.Return) and r.value is not None]
        return bool(rets) and all(isinstance(r.value, ast.Tuple) and len(r.value.elts) == n for r in rets)
