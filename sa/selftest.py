"""Engine unit fixtures run by MANIFEST.setup_cmd (fast, no /repo access needed beyond parsing)."""
import sys


def main():
    from . import selftests
    return selftests.run()


if __name__ == "__main__":
    sys.exit(main())
