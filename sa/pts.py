"""E4: field-sensitive, allocation-site based, context-insensitive points-to / origin analysis,
with mutation-site, rebind-site and touch (read) records.  Flow-insensitive; sound for the
ownership / effect rules that use it.

Object ids:
  'IMM'                                  immutable scalar (str/int/float/bool/None/pattern/match/exception)
  'UNK'                                  unknown external object
  ('alloc', scope, lineno, col, kind)    allocation site
  ('func', qual) ('class', qual)         callables
  ('extparam', func_qual, name)          caller-owned object passed into a public API parameter
"""
import ast

from . import AnalysisError
from .db import Func, Cls, own_nodes, dotted, unparse, target_names
from .tyinf import FuncEnv, ModEnv

IMM = "IMM"
UNK = "UNK"

MUTATORS = {"append", "appendleft", "extend", "insert", "pop", "popleft", "remove", "clear", "sort",
            "reverse", "update", "setdefault", "add", "discard", "popitem", "difference_update",
            "intersection_update", "rotate", "extendleft", "symmetric_difference_update"}
SCALAR = {"int", "str", "bool", "float", "none", "pattern", "match", "exc"}


class Obj:
    __slots__ = ("id", "kind", "cls", "contents", "fields", "site", "copy_of", "src")

    def __init__(self, oid, kind, cls=None, site=None):
        self.id = oid
        self.kind = kind
        self.cls = cls
        self.contents = set()
        self.fields = {}
        self.site = site
        self.copy_of = set()   # objects this one is a shallow copy of
        self.src = set()       # iterator wrappers: underlying iterables

    def __repr__(self):
        return "<Obj %s %s>" % (self.kind, self.id,)


class Rec:
    """a mutation / store / rebind record"""
    __slots__ = ("scope", "node", "op", "targets", "detail", "values")

    def __init__(self, scope, node, op, targets, detail="", values=()):
        self.scope = scope
        self.node = node
        self.op = op            # 'store-sub' 'store-attr' 'mutcall' 'del' 'aug' 'rebind-global' 'memo-clear'
        self.targets = set(targets)
        self.detail = detail
        self.values = set(values)


class PointsTo:
    def __init__(self, db, ty, cg):
        self.db = db
        self.ty = ty
        self.cg = cg
        self.objs = {}
        self.var = {}
        self.recs = {}          # (scope, id(node), op) -> Rec
        self.touch = {}         # scope -> set(obj ids)
        self.name_reads = {}    # scope -> set((mod, name)) module-level names loaded
        self.memo_ret = {}      # lru func qual -> set(obj ids)
        self.memo_calls = {}    # scope -> set(lru func qual called)
        self.ext_escape = {}    # scope -> list of (node, ext name, obj ids) passed to unmodelled externals
        self.unmodelled = []    # (scope, node, ext name)
        self.changed = True
        self.api = {}
        for n, r in db.public_api().items():
            if r[0] == "func":
                self.api[r[1].qual] = r[1]
        self._site_index = {}
        self._solve()

    # ------------------------------------------------------------------ infra
    def obj(self, oid, kind=None, cls=None, site=None):
        o = self.objs.get(oid)
        if o is None:
            o = Obj(oid, kind, cls, site)
            self.objs[oid] = o
            self.changed = True
        return o

    def alloc(self, scope, node, kind, cls=None, tag=""):
        oid = ("alloc", scope, getattr(node, "lineno", 0), getattr(node, "col_offset", 0), kind + tag)
        return self.obj(oid, kind, cls, site=(scope, node))

    def add(self, s, items):
        n = len(s)
        s |= items
        if len(s) != n:
            self.changed = True

    def v(self, scope, name):
        return self.var.setdefault((scope, name), set())

    def contents(self, ids):
        out = set()
        for i in ids:
            if i == IMM:
                out.add(IMM)
            elif i == UNK:
                out.add(UNK)
            else:
                o = self.objs.get(i)
                if o is not None:
                    out |= o.contents
                    if o.kind in ("ext",):
                        out.add(UNK)
        return out

    def add_contents(self, ids, items):
        for i in ids:
            o = self.objs.get(i) if isinstance(i, tuple) else None
            if o is not None and o.kind not in ("func", "class"):
                self.add(o.contents, items)

    def fieldset(self, oid, attr):
        o = self.objs[oid]
        return o.fields.setdefault(attr, set())

    # ------------------------------------------------------------------ solve
    def _solve(self):
        # seed API parameters with caller-owned objects
        for q, f in self.api.items():
            for p in f.params:
                t = self.ty.param.get((q, p), frozenset())
                if t and all(a[0] in SCALAR for a in t):
                    self.add(self.v(q, p), {IMM})
                else:
                    o = self.obj(("extparam", q, p), "ext")
                    self.add(self.v(q, p), {o.id, IMM})
        rounds = 0
        while self.changed:
            rounds += 1
            if rounds > 60:
                raise AnalysisError("points-to analysis did not converge")
            self.changed = False
            self.ext_escape = {}
            self.unmodelled = []
            for m in self.db.modules.values():
                W = Walker(self, "mod:" + m.name, m, None)
                for st in m.tree.body:
                    W.stmt(st)
                # defaults of functions are evaluated at definition time in module scope
                for f in self.db.funcs.values():
                    if f.module is m:
                        for p, d in f.defaults.items():
                            val = W.eval(d)
                            self.add(self.v(f.qual, p), val)
                            self.add(self.v("default:" + f.qual, p), val)
            for f in self.db.funcs.values():
                W = Walker(self, f.qual, f.module, f)
                for st in f.node.body:
                    W.stmt(st)
        self.rounds = rounds

    # ------------------------------------------------------------------ results
    def site_of(self, f, node):
        key = f.qual
        idx = self._site_index.get(key)
        if idx is None:
            idx = {id(s.node): s for s in self.cg.sites(f)}
            self._site_index[key] = idx
        return idx.get(id(node))

    def retained_roots(self):
        roots = {}
        for (scope, name), ids in self.var.items():
            if scope.startswith("mod:"):
                for i in ids:
                    if isinstance(i, tuple) and i[0] == "alloc":
                        roots.setdefault(i, set()).add("global %s.%s" % (scope[4:], name))
            elif scope.startswith("default:"):
                for i in ids:
                    if isinstance(i, tuple) and i[0] == "alloc":
                        roots.setdefault(i, set()).add("default argument %s of %s" % (name, scope[8:]))
        for f in self.db.funcs.values():
            if f.is_lru:
                ids = self.var.get((f.qual, "<ret>"), set()) | self.memo_ret.get(f.qual, set())
                for i in ids:
                    if isinstance(i, tuple) and i[0] == "alloc":
                        roots.setdefault(i, set()).add("memo of %s" % f.qual)
        for c in self.db.classes.values():
            ids = self.var.get(("class:" + c.qual, "*"), set())
            for i in ids:
                if isinstance(i, tuple) and i[0] == "alloc":
                    roots.setdefault(i, set()).add("class attribute of %s" % c.qual)
        return roots

    def retained(self):
        """obj id -> set of reasons (closure over contents / fields / copy sources excluded)"""
        roots = self.retained_roots()
        out = {k: set(v) for k, v in roots.items()}
        work = list(out)
        while work:
            i = work.pop()
            o = self.objs.get(i)
            if o is None:
                continue
            nxt = set(o.contents)
            for fk, s in o.fields.items():
                if fk != "#n":
                    nxt |= s
            nxt |= o.src
            for j in nxt:
                if isinstance(j, tuple) and j[0] == "alloc":
                    if j not in out:
                        out[j] = set()
                        work.append(j)
                    before = len(out[j])
                    out[j] |= {"reachable from " + r if not r.startswith("reachable") else r for r in out[i]}
                    if len(out[j]) != before and j not in work:
                        work.append(j)
        return out

    def reach(self, ids):
        """all objects reachable from ids through contents / fields / iterator sources"""
        seen = set()
        work = [i for i in ids if isinstance(i, tuple)]
        while work:
            i = work.pop()
            if i in seen:
                continue
            seen.add(i)
            o = self.objs.get(i)
            if o is None:
                continue
            allf = set()
            for fk, fv in o.fields.items():
                if fk != "#n":
                    allf |= fv
            for j in o.contents | o.src | allf:
                if isinstance(j, tuple) and j not in seen:
                    work.append(j)
        return seen

    def records(self, scope=None):
        return [r for r in self.recs.values() if scope is None or r.scope == scope]

    def describe(self, oid):
        if not isinstance(oid, tuple):
            return str(oid)
        if oid[0] == "alloc":
            scope = oid[1]
            rel = None
            if scope.startswith("mod:"):
                m = self.db.modules.get(scope[4:])
                rel = m.rel if m else scope
            else:
                f = self.db.funcs.get(scope)
                rel = f.module.rel if f else scope
            return "%s allocated at %s:%d (%s)" % (oid[4], rel, oid[2], scope)
        return "%s %s" % (oid[0], ".".join(str(x) for x in oid[1:]))


class Walker:
    def __init__(self, pt, scope, module, func):
        self.pt = pt
        self.scope = scope
        self.module = module
        self.func = func
        if func is not None:
            self.tenv = FuncEnv(pt.ty, func)
        else:
            self.tenv = ModEnv(pt.ty, module)
        self.tenv.readonly = True

    # names ---------------------------------------------------------------
    def lookup(self, name, node=None):
        f = self.func
        while f is not None:
            if name in f.locals and name not in f.declared_global:
                return self.pt.v(f.qual, name)
            f = f.outer
        r = self.pt.db.resolve_global(self.module, name)
        if r is None:
            return {UNK}
        k = r[0]
        if k == "func":
            return {self.pt.obj(("func", r[1].qual), "func").id}
        if k == "class":
            return {self.pt.obj(("class", r[1].qual), "class").id}
        if k == "global":
            self.pt.name_reads.setdefault(self.scope, set()).add((r[1], r[2]))
            return self.pt.v("mod:" + r[1], r[2])
        return {IMM}   # modules, externals, builtins: not heap objects of interest

    def bind(self, name, ids, node=None):
        if self.func is None:
            self.pt.add(self.pt.v(self.scope, name), ids)
            return
        if name in self.func.declared_global:
            self.pt.add(self.pt.v("mod:" + self.module.name, name), ids)
            key = (self.scope, id(node), "rebind-global")
            r = self.pt.recs.get(key)
            if r is None:
                self.pt.recs[key] = Rec(self.scope, node, "rebind-global", [("modvar", self.module.name, name)],
                                        detail=name, values=ids)
            else:
                r.values |= ids
        else:
            self.pt.add(self.pt.v(self.func.qual, name), ids)

    def record(self, node, op, targets, detail="", values=()):
        key = (self.scope, id(node), op)
        r = self.pt.recs.get(key)
        if r is None:
            self.pt.recs[key] = Rec(self.scope, node, op, targets, detail, values)
        else:
            r.targets |= set(targets)
            r.values |= set(values)

    def scalar(self, e):
        t = self.tenv.expr(e)
        return bool(t) and all(a[0] in SCALAR for a in t)

    # statements ------------------------------------------------------------
    def body(self, b):
        for s in b or []:
            self.stmt(s)

    def stmt(self, st):
        if isinstance(st, ast.Assign):
            v = self.eval(st.value)
            for t in st.targets:
                self.assign(t, v, st)
        elif isinstance(st, ast.AnnAssign):
            if st.value is not None:
                self.assign(st.target, self.eval(st.value), st)
        elif isinstance(st, ast.AugAssign):
            v = self.eval(st.value)
            t = st.target
            if isinstance(t, ast.Name):
                cur = set(self.lookup(t.id))
                # list += iterable mutates in place and rebinds
                mut = {i for i in cur if isinstance(i, tuple) and i[0] == "alloc"
                       and self.pt.objs[i].kind in ("list", "set", "dict", "deque")}
                if mut:
                    self.pt.add_contents(mut, self.pt.contents(v))
                    self.record(st, "aug", mut, detail=unparse(t))
                self.bind(t.id, cur | ({IMM} if IMM in v or IMM in cur else set()), st)
            elif isinstance(t, ast.Subscript):
                base = self.eval(t.value)
                self.eval(t.slice) if not isinstance(t.slice, ast.Slice) else None
                self.pt.add_contents(base, v | {IMM})
                self.record(st, "store-sub", self._heap(base), detail=unparse(t), values=v)
            elif isinstance(t, ast.Attribute):
                base = self.eval(t.value)
                for i in self._heap(base):
                    self.pt.add(self.pt.fieldset(i, t.attr), v | {IMM})
                self.record(st, "store-attr", self._heap(base), detail=unparse(t), values=v)
        elif isinstance(st, (ast.For, ast.AsyncFor)):
            it = self.eval(st.iter)
            self.assign(st.target, self.iter_elems(it), st, unpack_source=True)
            self.body(st.body)
            self.body(st.orelse)
        elif isinstance(st, ast.While):
            self.eval(st.test)
            self.body(st.body)
            self.body(st.orelse)
        elif isinstance(st, ast.If):
            self.eval(st.test)
            self.body(st.body)
            self.body(st.orelse)
        elif isinstance(st, ast.Try):
            self.body(st.body)
            for h in st.handlers:
                if h.name:
                    self.bind(h.name, {IMM}, h)
                self.body(h.body)
            self.body(st.orelse)
            self.body(st.finalbody)
        elif isinstance(st, (ast.With, ast.AsyncWith)):
            for it in st.items:
                v = self.eval(it.context_expr)
                if it.optional_vars is not None:
                    self.assign(it.optional_vars, v | {UNK}, st)
            self.body(st.body)
        elif isinstance(st, ast.Return):
            if st.value is not None and self.func is not None:
                v = self.eval(st.value)
                self.pt.add(self.pt.v(self.func.qual, "<ret>"), v)
            elif self.func is not None:
                self.pt.add(self.pt.v(self.func.qual, "<ret>"), {IMM})
        elif isinstance(st, ast.Expr):
            self.eval(st.value)
        elif isinstance(st, ast.Raise):
            if st.exc is not None:
                self.eval(st.exc)
            if st.cause is not None:
                self.eval(st.cause)
        elif isinstance(st, ast.Assert):
            self.eval(st.test)
            if st.msg is not None:
                self.eval(st.msg)
        elif isinstance(st, ast.Delete):
            for t in st.targets:
                if isinstance(t, ast.Subscript):
                    base = self.eval(t.value)
                    self.record(st, "del", self._heap(base), detail=unparse(t))
                elif isinstance(t, ast.Attribute):
                    base = self.eval(t.value)
                    self.record(st, "del", self._heap(base), detail=unparse(t))
        elif isinstance(st, (ast.FunctionDef, ast.AsyncFunctionDef)):
            if self.func is not None:
                q = self.func.qual + ".<locals>." + st.name
                if q in self.pt.db.funcs:
                    self.bind(st.name, {self.pt.obj(("func", q), "func").id}, st)
        elif isinstance(st, ast.ClassDef):
            # class-level mutable attributes are shared state
            c = self.pt.db.classes.get(self.module.name + "." + st.name)
            if c is not None and self.func is None:
                for cs in st.body:
                    if isinstance(cs, ast.Assign):
                        v = self.eval(cs.value)
                        self.pt.add(self.pt.v("class:" + c.qual, "*"), v)
                        for t in cs.targets:
                            for nm in target_names(t):
                                self.pt.add(self.pt.v("class:" + c.qual, nm), v)
                    elif isinstance(cs, ast.AnnAssign) and cs.value is not None:
                        v = self.eval(cs.value)
                        self.pt.add(self.pt.v("class:" + c.qual, "*"), v)
        # pass/break/continue/global/import: nothing

    @staticmethod
    def _heap(ids):
        return {i for i in ids if isinstance(i, tuple) and i[0] in ("alloc", "extparam")}

    def iter_elems(self, ids):
        out = self.pt.contents(ids)
        if IMM in ids:
            out.add(IMM)   # iterating a str / range
        if UNK in ids:
            out.add(UNK)
        return out

    def assign(self, t, v, node, unpack_source=False):
        if isinstance(t, ast.Name):
            self.bind(t.id, v, node)
        elif isinstance(t, (ast.Tuple, ast.List)):
            n = len(t.elts)
            starred = any(isinstance(e, ast.Starred) for e in t.elts)
            positional = [set() for _ in range(n)]
            rest = set()
            for i in v:
                o = self.pt.objs.get(i) if isinstance(i, tuple) else None
                if o is not None and o.kind == "tuple" and not starred and o.fields.get("#n") == {n}:
                    for k in range(n):
                        positional[k] |= o.fields.get("#%d" % k, set())
                elif o is not None and o.kind == "tuple" and o.fields.get("#n") and not starred:
                    pass  # arity mismatch: unpacking would raise, contributes nothing
                else:
                    rest |= self.pt.contents({i})
                    if i == IMM:
                        rest.add(IMM)
                    if i == UNK:
                        rest.add(UNK)
            for k, e in enumerate(t.elts):
                inner = positional[k] | rest
                if isinstance(e, ast.Starred):
                    o = self.pt.alloc(self.scope, e, "list")
                    self.pt.add(o.contents, inner)
                    self.assign(e.value, {o.id}, node)
                else:
                    self.assign(e, inner, node)
        elif isinstance(t, ast.Attribute):
            base = self.eval(t.value)
            heap = self._heap(base)
            for i in heap:
                self.pt.add(self.pt.fieldset(i, t.attr), v)
            # class attribute store  C.attr = v
            r = self.pt.db.resolve_dotted(self.module, t.value) if self.func is not None or True else None
            tgt = set(heap)
            if r and r[0] == "class":
                self.pt.add(self.pt.v("class:" + r[1].qual, "*"), v)
                self.pt.add(self.pt.v("class:" + r[1].qual, t.attr), v)
                tgt.add(("classattr", r[1].qual, t.attr))
            elif r and r[0] == "module" and r[1] in self.pt.db.modules:
                self.pt.add(self.pt.v("mod:" + r[1], t.attr), v)
                tgt.add(("modvar", r[1], t.attr))
            self.record(node if not isinstance(node, (ast.For,)) else t, "store-attr", tgt, detail=unparse(t), values=v)
        elif isinstance(t, ast.Subscript):
            base = self.eval(t.value)
            if isinstance(t.slice, ast.Slice):
                self.pt.add_contents(base, self.pt.contents(v) | ({IMM} if IMM in v else set()))
            else:
                self.eval(t.slice)
                self.pt.add_contents(base, v)
            self.record(node, "store-sub", self._heap(base), detail=unparse(t), values=v)
        elif isinstance(t, ast.Starred):
            self.assign(t.value, v, node)

    # expressions -----------------------------------------------------------
    def eval(self, e):
        m = getattr(self, "e_" + type(e).__name__, None)
        if m is None:
            out = set()
            for c in ast.iter_child_nodes(e):
                if isinstance(c, ast.expr):
                    self.eval(c)
            out = {UNK}
        else:
            out = m(e)
        heap = {i for i in out if isinstance(i, tuple) and i[0] == "alloc"}
        if heap:
            self.pt.touch.setdefault(self.scope, set()).update(heap)
        return out

    def e_Constant(self, e):
        return {IMM}

    def e_JoinedStr(self, e):
        for v in e.values:
            if isinstance(v, ast.FormattedValue):
                self.eval(v.value)
        return {IMM}

    def e_Name(self, e):
        if e.id in ("True", "False", "None"):
            return {IMM}
        return set(self.lookup(e.id, e))

    def _display(self, e, kind, parts):
        vals = set()
        for p in parts:
            if p is None:
                continue
            if isinstance(p, ast.Starred):
                vals |= self.iter_elems(self.eval(p.value))
            else:
                vals |= self.eval(p)
        if kind == "tuple" and vals <= {IMM}:
            return {IMM}
        o = self.pt.alloc(self.scope, e, kind)
        self.pt.add(o.contents, vals)
        if kind == "tuple" and not any(isinstance(p, ast.Starred) for p in parts):
            for i, p in enumerate(parts):
                self.pt.add(o.fields.setdefault("#%d" % i, set()), self.eval(p))
            o.fields.setdefault("#n", set()).add(len(parts))
        return {o.id}

    def e_Tuple(self, e):
        return self._display(e, "tuple", e.elts)

    def e_List(self, e):
        return self._display(e, "list", e.elts)

    def e_Set(self, e):
        return self._display(e, "set", e.elts)

    def e_Dict(self, e):
        vals = set()
        for k, v in zip(e.keys, e.values):
            if k is None:
                vals |= self.pt.contents(self.eval(v))
            else:
                vals |= self.eval(k)
                vals |= self.eval(v)
        o = self.pt.alloc(self.scope, e, "dict")
        self.pt.add(o.contents, vals)
        return {o.id}

    def _comp(self, e, kind, elts):
        for g in e.generators:
            it = self.eval(g.iter)
            self.assign(g.target, self.iter_elems(it), g)
            for c in g.ifs:
                self.eval(c)
        vals = set()
        for x in elts:
            vals |= self.eval(x)
        o = self.pt.alloc(self.scope, e, kind)
        self.pt.add(o.contents, vals)
        # identity comprehension == shallow copy
        if len(e.generators) == 1 and not e.generators[0].ifs:
            g = e.generators[0]
            if kind == "dict" and isinstance(g.target, ast.Tuple) and len(g.target.elts) == 2 and \
                    all(isinstance(x, ast.Name) for x in g.target.elts) and \
                    isinstance(e.key, ast.Name) and isinstance(e.value, ast.Name) and \
                    (e.key.id, e.value.id) == (g.target.elts[0].id, g.target.elts[1].id) and \
                    isinstance(g.iter, ast.Call) and isinstance(g.iter.func, ast.Attribute) and \
                    g.iter.func.attr == "items" and not g.iter.args:
                self.pt.add(o.copy_of, self._heap(self.eval(g.iter.func.value)))
            elif kind in ("list", "set") and isinstance(g.target, ast.Name) and \
                    isinstance(elts[0], ast.Name) and elts[0].id == g.target.id:
                self.pt.add(o.copy_of, self._heap(self.eval(g.iter)))
        return {o.id}

    def e_ListComp(self, e):
        return self._comp(e, "list", [e.elt])

    def e_SetComp(self, e):
        return self._comp(e, "set", [e.elt])

    def e_GeneratorExp(self, e):
        return self._comp(e, "iter", [e.elt])

    def e_DictComp(self, e):
        return self._comp(e, "dict", [e.key, e.value])

    def e_Lambda(self, e):
        for a in e.args.args:
            self.bind(a.arg, {IMM, UNK}, e)
        self.eval(e.body)
        return {IMM}

    def e_IfExp(self, e):
        self.eval(e.test)
        return self.eval(e.body) | self.eval(e.orelse)

    def e_BoolOp(self, e):
        out = set()
        for v in e.values:
            out |= self.eval(v)
        return out

    def e_Compare(self, e):
        self.eval(e.left)
        for c in e.comparators:
            self.eval(c)
        return {IMM}

    def e_UnaryOp(self, e):
        self.eval(e.operand)
        return {IMM}

    def e_NamedExpr(self, e):
        v = self.eval(e.value)
        self.assign(e.target, v, e)
        return v

    def e_Starred(self, e):
        return self.iter_elems(self.eval(e.value))

    def e_Yield(self, e):
        v = self.eval(e.value) if e.value is not None else {IMM}
        if self.func is not None:
            self.pt.add(self.pt.v(self.func.qual, "<yield>"), v)
        return {IMM, UNK}

    def e_YieldFrom(self, e):
        v = self.eval(e.value)
        if self.func is not None:
            self.pt.add(self.pt.v(self.func.qual, "<yield>"), self.iter_elems(v))
        return {IMM, UNK}

    def e_Await(self, e):
        self.eval(e.value)
        return {UNK}

    def e_BinOp(self, e):
        l = self.eval(e.left)
        r = self.eval(e.right)
        if self.scalar(e):
            return {IMM}
        heap = [i for i in (l | r) if isinstance(i, tuple) and i[0] == "alloc"
                and self.pt.objs[i].kind in ("list", "tuple", "set", "dict", "deque")]
        if heap:
            kind = self.pt.objs[heap[0]].kind
            o = self.pt.alloc(self.scope, e, kind)
            self.pt.add(o.contents, self.pt.contents(set(heap)))
            self.pt.add(o.copy_of, set(heap))
            return {o.id} | ({IMM} if (IMM in l and IMM in r) else set())
        out = {IMM}
        if UNK in l or UNK in r:
            out.add(UNK)
        return out

    def e_Subscript(self, e):
        base = self.eval(e.value)
        if isinstance(e.slice, ast.Slice):
            for x in (e.slice.lower, e.slice.upper, e.slice.step):
                if x is not None:
                    self.eval(x)
            out = set()
            heap = self._heap(base)
            if IMM in base:
                out.add(IMM)
            if UNK in base:
                out.add(UNK)
            src = {i for i in heap if i[0] == "alloc"}
            if src or any(i[0] == "extparam" for i in heap):
                o = self.pt.alloc(self.scope, e, "list", tag=":slice")
                self.pt.add(o.contents, self.pt.contents(heap))
                self.pt.add(o.copy_of, src)
                out.add(o.id)
            return out
        self.eval(e.slice)
        idx = None
        if isinstance(e.slice, ast.Constant) and isinstance(e.slice.value, int):
            idx = e.slice.value
        elif isinstance(e.slice, ast.UnaryOp) and isinstance(e.slice.op, ast.USub) and \
                isinstance(e.slice.operand, ast.Constant) and isinstance(e.slice.operand.value, int):
            idx = -e.slice.operand.value
        out = set()
        if isinstance(e.ctx, ast.Load):
            dd = [i for i in self._heap(base) if isinstance(i, tuple) and i[0] == "alloc" and str(i[-1]).endswith(":defaultdict")]
            if dd:
                self.record(e, "store-sub", dd, detail="%s (defaultdict: looking up a missing key inserts it)" % unparse(e))
        for i in base:
            o = self.pt.objs.get(i) if isinstance(i, tuple) else None
            if o is not None and o.kind == "tuple" and idx is not None and o.fields.get("#n") and \
                    len(o.fields["#n"]) == 1:
                n = next(iter(o.fields["#n"]))
                k = idx if idx >= 0 else n + idx
                if 0 <= k < n:
                    out |= o.fields.get("#%d" % k, set())
            else:
                out |= self.pt.contents({i})
        if IMM in base:
            out.add(IMM)
        if UNK in base:
            out.add(UNK)
        if self.scalar(e):
            out = {i for i in out if not isinstance(i, tuple)} | {IMM}
        return out

    def e_Attribute(self, e):
        # module-level entity reference (mod.NAME, Class.attr)?
        r = self.pt.db.resolve_dotted(self.module, e) if self._is_static_chain(e) else None
        if r is not None:
            k = r[0]
            if k == "func":
                return {self.pt.obj(("func", r[1].qual), "func").id}
            if k == "class":
                return {self.pt.obj(("class", r[1].qual), "class").id}
            if k == "global":
                self.pt.name_reads.setdefault(self.scope, set()).add((r[1], r[2]))
                return set(self.pt.v("mod:" + r[1], r[2]))
            if k == "classattr":
                return set(self.pt.v("class:" + r[1].qual, r[2])) | {IMM}
            return {IMM}
        base = self.eval(e.value)
        out = set()
        f = self.func
        if e.attr in self.pt.cg.props and f is not None:
            s = self.pt.site_of(f, e)
            if s is not None:
                for g in s.callees:
                    self.pt.add(self.pt.v(g.qual, g.posparams[0]), self._heap(base))
                    ret = self.pt.v(g.qual, "<ret>")
                    out |= ret
                    if g.is_lru:
                        self.pt.add(self.pt.memo_ret.setdefault(g.qual, set()), ret)
                        self.pt.memo_calls.setdefault(self.scope, set()).add(g.qual)
        for i in base:
            if isinstance(i, tuple) and i[0] in ("alloc", "extparam"):
                o = self.pt.objs[i]
                if e.attr in o.fields:
                    out |= o.fields[e.attr]
                elif o.kind == "ext":
                    out.add(UNK)
                if o.kind == "inst" and o.cls:
                    cv = self.pt.var.get(("class:" + o.cls, e.attr))
                    if cv:
                        out |= cv
            elif i == UNK:
                out.add(UNK)
            elif i == IMM:
                out.add(IMM)
        if self.scalar(e):
            out = {i for i in out if not isinstance(i, tuple)} | {IMM}
        if not out:
            out = {IMM}
        return out

    def _is_static_chain(self, e):
        b = e
        while isinstance(b, ast.Attribute):
            b = b.value
        if not isinstance(b, ast.Name):
            return False
        f = self.func
        while f is not None:
            if b.id in f.locals and b.id not in f.declared_global:
                return False
            f = f.outer
        r = self.pt.db.resolve_global(self.module, b.id)
        return r is not None and r[0] in ("module", "class", "func")

    # calls ---------------------------------------------------------------
    def e_Call(self, e):
        pt = self.pt
        argv = []
        for a in e.args:
            if isinstance(a, ast.Starred):
                argv.append(("*", self.iter_elems(self.eval(a.value))))
            else:
                argv.append((None, self.eval(a)))
        kw = {}
        for k in e.keywords:
            v = self.eval(k.value)
            if k.arg is None:
                kw["**"] = self.pt.contents(v)
            else:
                kw[k.arg] = v
        recv = None
        if isinstance(e.func, ast.Attribute) and not self._is_static_chain(e.func):
            recv = self.eval(e.func.value)
        fobjs = self.eval(e.func) if not isinstance(e.func, ast.Attribute) or self._is_static_chain(e.func) else set()
        site = pt.site_of(self.func, e) if self.func is not None else None
        if site is None:
            site = self._module_site(e)
        out = set()
        handled = False
        # partial objects held in variables
        partial_args = set()
        for i in fobjs:
            if isinstance(i, tuple) and i[0] == "alloc" and pt.objs[i].kind == "partial":
                partial_args |= pt.objs[i].contents
        for g in site.callees:
            handled = True
            if site.kind == "ctor" and g.name == "__init__":
                cq = g.cls.qual
                o = pt.alloc(self.scope, e, "inst", cls=cq)
                o.cls = cq
                out.add(o.id)
                pt.add(pt.v(g.qual, g.posparams[0]), {o.id})
                self.pass_args(g, argv, kw, skip_self=True, extra=partial_args)
            else:
                if g.is_method and recv is not None:
                    pt.add(pt.v(g.qual, g.posparams[0]), self._heap(recv))
                self.pass_args(g, argv, kw, skip_self=g.is_method)
                if g.is_generator:
                    o = pt.alloc(self.scope, e, "gen", tag=":" + g.qual)
                    pt.add(o.contents, pt.v(g.qual, "<yield>"))
                    out.add(o.id)
                else:
                    ret = pt.v(g.qual, "<ret>")
                    out |= ret
                    if g.is_lru:
                        pt.add(pt.memo_ret.setdefault(g.qual, set()), ret)
                        pt.memo_calls.setdefault(self.scope, set()).add(g.qual)
        for x in site.ext:
            handled = True
            if x.startswith("new:"):
                cq = x[4:]
                c = pt.db.classes.get(cq)
                if c is not None and "__init__" in c.methods:
                    continue
                o = pt.alloc(self.scope, e, "inst", cls=cq)
                o.cls = cq
                vals = set()
                for _, v in argv:
                    vals |= v
                for v in kw.values():
                    vals |= v
                if c is not None and c.is_dataclass:
                    names = [n for n, st in c.class_attrs.items() if isinstance(st, ast.AnnAssign)]
                    for n, (_, v) in zip(names, argv):
                        pt.add(o.fields.setdefault(n, set()), v)
                    for n, v in kw.items():
                        pt.add(o.fields.setdefault(n, set()), v)
                else:
                    pt.add(o.fields.setdefault("<args>", set()), vals)
                out.add(o.id)
            else:
                out |= self.ext_call(x, e, recv, argv, kw)
        for g in site.hof:
            # a package function handed to an external higher-order callee: its parameters receive
            # elements of the other arguments
            elems = set()
            for _, v in argv:
                elems |= self.iter_elems(v)
            params = g.posparams[1:] if g.is_method else g.posparams
            for p in params:
                pt.add(pt.v(g.qual, p), elems)
            if g.is_method:
                for a in e.args:
                    if isinstance(a, ast.Attribute) and a.attr == g.name:
                        pt.add(pt.v(g.qual, g.posparams[0]), self._heap(self.eval(a.value)))
        if site.unresolved or not handled:
            out.add(UNK)
            pt.unmodelled.append((self.scope, e, "unresolved call"))
        return out or {IMM}

    def _module_site(self, e):
        """call at module level: resolve through a throw-away site"""
        from .cg import Site
        env = ModEnv(self.pt.ty, self.module)
        env.readonly = True
        fake = Func.__new__(Func)
        # minimal stand-in for resolve: use cg._resolve_call with a module env
        s = self.pt.cg._resolve_call(_ModFunc(self.module), e, env)
        return s

    def pass_args(self, g, argv, kw, skip_self, extra=()):
        pt = self.pt
        pos = list(g.posparams)
        if skip_self:
            pos = pos[1:]
        i = 0
        for star, v in argv:
            if star:
                for p in pos[i:]:
                    pt.add(pt.v(g.qual, p), v)
                if g.vararg:
                    self._vararg(g, v)
                i = len(pos)
                continue
            if i < len(pos):
                pt.add(pt.v(g.qual, pos[i]), v)
            elif g.vararg:
                self._vararg(g, v)
            i += 1
        for k, v in kw.items():
            if k == "**":
                for p in g.params:
                    pt.add(pt.v(g.qual, p), v)
            elif k in g.params:
                pt.add(pt.v(g.qual, k), v)
            elif g.kwarg:
                pt.add(pt.v(g.qual, g.kwarg), v)
        if extra:
            for p in pos + g.kwonly:
                pt.add(pt.v(g.qual, p), set(extra))

    def _vararg(self, g, v):
        o = self.pt.obj(("alloc", g.qual, g.node.lineno, 0, "tuple:vararg"), "tuple", site=(g.qual, g.node))
        self.pt.add(o.contents, v)
        self.pt.add(self.pt.v(g.qual, g.vararg), {o.id})

    # external model ---------------------------------------------------------
    def ext_call(self, name, e, recv, argv, kw):
        pt = self.pt
        short = name[9:] if name.startswith("builtins.") else name
        a = [v for _, v in argv]
        a0 = a[0] if a else set()
        allargs = set().union(*a) if a else set()
        for v in kw.values():
            allargs |= v
        typ, _, meth = short.rpartition(".")

        def fresh(kind, contents=(), copy_of=(), src=()):
            o = pt.alloc(self.scope, e, kind)
            pt.add(o.contents, set(contents))
            pt.add(o.copy_of, {i for i in copy_of if isinstance(i, tuple)})
            pt.add(o.src, {i for i in src if isinstance(i, tuple)})
            return {o.id}

        if typ in ("list", "dict", "set", "deque", "tuple", "str", "iter", "?", "pattern", "match", "int",
                   "float", "funcattr") and recv is not None or typ == "funcattr":
            r = recv or set()
            heap = self._heap(r)
            if meth == "cache_clear":
                fr = pt.db.resolve_dotted(self.module, e.func.value)
                tgt = fr[1].qual if fr and fr[0] == "func" else unparse(e.func.value)
                self.record(e, "memo-clear", [("memo", tgt)], detail=tgt)
                return {IMM}
            if meth in MUTATORS:
                self.record(e, "mutcall", heap, detail=meth + " on " + unparse(e.func.value), values=allargs)
            if meth in ("append", "appendleft", "add"):
                pt.add_contents(r, allargs)
                return {IMM}
            if meth == "insert":
                pt.add_contents(r, a[-1] if a else set())
                return {IMM}
            if meth in ("extend", "update", "extendleft", "difference_update", "intersection_update"):
                for v in a:
                    pt.add_contents(r, self.iter_elems(v))
                for v in kw.values():
                    pt.add_contents(r, v)
                return {IMM}
            if meth in ("pop", "popleft", "popitem"):
                out = self.iter_elems(r) if typ != "str" else {IMM}
                if len(a) > 1:
                    out |= a[1]
                return out or {IMM}
            if meth == "get":
                return (pt.contents(r) | (a[1] if len(a) > 1 else {IMM})) or {IMM}
            if meth == "setdefault":
                if len(a) > 1:
                    pt.add_contents(r, a[1])
                pt.add_contents(r, a0)
                return pt.contents(r) | (a[1] if len(a) > 1 else {IMM})
            if meth in ("items", "keys", "values"):
                return fresh("iter", pt.contents(r), src=r)
            if meth in ("copy", "union", "intersection", "difference", "symmetric_difference"):
                kinds = [pt.objs[i].kind for i in heap if i[0] == "alloc"]
                c = pt.contents(r)
                for v in a:
                    c |= self.iter_elems(v)
                return fresh(kinds[0] if kinds else "list", c, copy_of=heap)
            if meth in ("remove", "clear", "sort", "reverse", "discard", "rotate"):
                return {IMM}
            if meth in ("index", "count", "find", "rfind", "isnumeric", "isdigit", "isalpha", "islower", "isupper",
                        "startswith", "endswith", "isdecimal", "issubset", "issuperset", "isalnum", "isspace"):
                return {IMM}
            if meth in ("format", "join", "lower", "upper", "capitalize", "strip", "lstrip", "rstrip", "replace",
                        "title", "zfill", "encode"):
                return {IMM}
            if meth in ("split", "rsplit", "splitlines", "partition"):
                return fresh("list", {IMM})
            if meth in ("match", "fullmatch", "search", "group"):
                return {IMM}
            if meth == "groups":
                return fresh("tuple", {IMM})
            if meth == "cache_info":
                return {IMM}
            pt.unmodelled.append((self.scope, e, name))
            return {UNK, IMM}
        # plain functions -----------------------------------------------------
        if short in ("len", "int", "str", "repr", "bool", "float", "ord", "chr", "isinstance", "abs", "hash",
                     "id", "any", "all", "sum", "round", "callable", "hasattr", "issubclass", "format", "print",
                     "divmod", "pow", "type"):
            return {IMM}
        if short in ("list", "sorted", "tuple", "set", "frozenset", "collections.deque"):
            kind = {"list": "list", "sorted": "list", "tuple": "tuple", "set": "set", "frozenset": "set",
                    "collections.deque": "deque"}[short]
            return fresh(kind, self.iter_elems(a0) if a else (), copy_of=self._heap(a0))
        if short == "dict":
            c = set()
            for v in a:
                c |= pt.contents(v)
                # dict(iterable of pairs)
                c |= pt.contents(pt.contents(v))
            for v in kw.values():
                c |= v
            return fresh("dict", c, copy_of=self._heap(a0))
        if short in ("collections.defaultdict",):
            # a dict whose __getitem__ inserts a missing key: a subscript *load* on it is a write (see e_Subscript)
            c = {IMM}
            for v in a[1:]:
                c |= pt.contents(v)
                c |= pt.contents(pt.contents(v))
            for v in kw.values():
                c |= v
            o = pt.alloc(self.scope, e, "dict", tag=":defaultdict")
            pt.add(o.contents, c)
            if len(a) > 1:
                pt.add(o.copy_of, {i for i in self._heap(a[1]) if isinstance(i, tuple)})
            return {o.id}
        if short in ("range",):
            return fresh("iter", {IMM})
        if short in ("enumerate", "reversed", "iter", "zip", "filter", "itertools.filterfalse",
                     "itertools.chain", "itertools.product", "map", "itertools.islice",
                     "itertools.permutations", "itertools.combinations", "itertools.zip_longest"):
            c = {IMM}
            srcs = set()
            use = a[1:] if short in ("filter", "itertools.filterfalse", "map") else a
            for v in use:
                c |= self.iter_elems(v)
                srcs |= self._heap(v)
            return fresh("iter", c, src=srcs)
        if short == "next":
            out = self.iter_elems(a0)
            if len(a) > 1:
                out |= a[1]
            return out or {IMM}
        if short in ("min", "max"):
            out = set()
            if len(a) == 1:
                out |= self.iter_elems(a0)
            else:
                for v in a:
                    out |= v
            return out or {IMM}
        if short == "functools.partial":
            cls = None
            for i in a0:
                if isinstance(i, tuple) and i[0] == "class":
                    cls = i[1]
            o = pt.alloc(self.scope, e, "partial", cls=cls)
            o.cls = cls
            vals = set()
            for v in a[1:]:
                vals |= v
            for v in kw.values():
                vals |= v
            pt.add(o.contents, vals)
            pt.add(o.fields.setdefault("<target>", set()), a0)
            return {o.id}
        if short in ("re.compile", "warnings.warn", "getattr", "setattr", "heapq.heapify"):
            if short == "heapq.heapify":
                self.record(e, "mutcall", self._heap(a0), detail="heapify")
            if short == "setattr":
                self.record(e, "store-attr", self._heap(a0), detail="setattr")
            return {IMM}
        if short == "heapq.heappush":
            pt.add_contents(a0, a[1] if len(a) > 1 else set())
            self.record(e, "mutcall", self._heap(a0), detail="heappush")
            return {IMM}
        if short == "heapq.heappop":
            self.record(e, "mutcall", self._heap(a0), detail="heappop")
            return self.iter_elems(a0) or {IMM}
        if short in ("ValueError", "KeyError", "IndexError", "Exception", "TypeError", "RuntimeError",
                     "StopIteration", "AssertionError", "NotImplementedError", "OverflowError",
                     "AttributeError", "ZeroDivisionError", "RecursionError"):
            return {IMM}
        if short in ("copy.copy", "copy.deepcopy"):
            kinds = [pt.objs[i].kind for i in self._heap(a0) if i[0] == "alloc"]
            return fresh(kinds[0] if kinds else "list", pt.contents(a0), copy_of=self._heap(a0))
        if short in ("dataclasses.field",):
            return {IMM}
        if short in ("logging.debug", "logging.info", "logging.warning", "logging.error", "logging.getLogger",
                     "time.time", "time.perf_counter"):
            return {IMM}
        if short == "lambda":
            return {IMM, UNK}
        pt.unmodelled.append((self.scope, e, name))
        heap = self._heap(allargs)
        if heap:
            pt.ext_escape.setdefault(self.scope, []).append((e, name, heap))
        return {UNK, IMM}


class _ModFunc:
    """stand-in 'function' for module-level call sites"""

    def __init__(self, module):
        self.module = module
        self.qual = "mod:" + module.name
        self.node = module.tree

    def loc(self, node=None):
        return "%s:%d" % (self.module.rel, getattr(node, "lineno", 0))
