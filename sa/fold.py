"""E5: constant folder for closed module-level initialisers.

An own step-bounded evaluator over a pure subset of Python.  It never sees a quantified
input; it fails closed (FoldError) on any construct outside its subset.  Values are real
Python immutables/containers plus a few abstract records (FPattern, FPartial, FFunc, FClass).
"""
import ast
import functools
import itertools
import re

from . import AnalysisError
from .db import Func, Cls, dotted


class FoldError(AnalysisError):
    pass


class FoldRaise(Exception):
    """a Python exception raised inside folded code (e.g. KeyError used for control flow)"""

    def __init__(self, name, msg=""):
        super().__init__(name, msg)
        self.name = name
        self.msg = msg


class FPattern:
    def __init__(self, pattern, flags=0):
        self.pattern = pattern
        self.flags = flags

    def __repr__(self):
        return "FPattern(%r)" % self.pattern


class FMatch:
    def __init__(self, m):
        self.m = m


class FPartial:
    def __init__(self, target, args, kwargs):
        self.target = target      # FClass / FFunc
        self.args = tuple(args)
        self.kwargs = dict(kwargs)

    def __repr__(self):
        return "FPartial(%s, %r, %r)" % (self.target, self.args, self.kwargs)

    def __eq__(self, o):
        return isinstance(o, FPartial) and (self.target, self.args, self.kwargs) == (o.target, o.args, o.kwargs)

    def __hash__(self):
        return hash((self.target, self.args))


class FFunc:
    def __init__(self, func):
        self.func = func

    def __repr__(self):
        return "FFunc(%s)" % self.func.qual

    def __eq__(self, o):
        return isinstance(o, FFunc) and o.func is self.func

    def __hash__(self):
        return hash(self.func.qual)


class FClass:
    def __init__(self, cls):
        self.cls = cls

    def __repr__(self):
        return "FClass(%s)" % self.cls.qual

    def __eq__(self, o):
        return isinstance(o, FClass) and o.cls is self.cls

    def __hash__(self):
        return hash(self.cls.qual)


class FExt:
    def __init__(self, name):
        self.name = name

    def __repr__(self):
        return "FExt(%s)" % self.name


class FModule:
    def __init__(self, name):
        self.name = name


class _Ret(Exception):
    def __init__(self, v):
        self.v = v


class _Brk(Exception):
    pass


class _Cnt(Exception):
    pass


PURE_BUILTINS = {
    "len": len, "range": range, "enumerate": enumerate, "dict": dict, "set": set, "list": list,
    "tuple": tuple, "sorted": sorted, "reversed": reversed, "str": str, "int": int, "min": min,
    "max": max, "zip": zip, "frozenset": frozenset, "any": any, "all": all, "sum": sum, "abs": abs,
    "bool": bool, "float": float, "repr": repr, "ord": ord, "chr": chr, "divmod": divmod, "iter": iter,
    "next": next, "map": map, "filter": filter,
}
PURE_EXT = {
    "itertools.product": itertools.product, "itertools.chain": itertools.chain,
    "itertools.permutations": itertools.permutations, "itertools.combinations": itertools.combinations,
}
ALLOWED_METHODS = {
    str: {"format", "lower", "upper", "capitalize", "join", "split", "strip", "startswith", "endswith",
          "replace", "isnumeric", "isdigit", "isalpha", "islower", "isupper", "find", "count", "index",
          "lstrip", "rstrip", "title", "zfill", "isdecimal"},
    dict: {"update", "items", "keys", "values", "get", "copy", "setdefault", "pop"},
    list: {"append", "extend", "insert", "pop", "index", "count", "copy", "sort", "reverse"},
    set: {"add", "update", "discard", "union", "intersection", "difference", "copy", "remove", "issubset"},
    frozenset: {"union", "intersection", "difference", "issubset"},
    tuple: {"index", "count"},
}


class Folder:
    MAX_STEPS = 400000

    def __init__(self, db):
        self.db = db
        self.steps = 0
        self.mod_env = {}       # module name -> {name: value}
        self.mod_failed = {}    # module name -> {name: reason}
        self._folding = set()

    # ------------------------------------------------------------------ modules
    def module(self, name):
        if name in self.mod_env:
            return self.mod_env[name]
        if name in self._folding:
            # circular import: expose what is there
            return self.mod_env.setdefault(name, {})
        self._folding.add(name)
        m = self.db.modules[name]
        env = self.mod_env.setdefault(name, {})
        failed = self.mod_failed.setdefault(name, {})
        for nm, d in m.defs.items():
            env[nm] = FFunc(d) if isinstance(d, Func) else FClass(d)
        self._run_module_body(m, m.tree.body, env, failed)
        self._folding.discard(name)
        return env

    def _run_module_body(self, m, body, env, failed):
        from .db import binding_targets
        for st in body:
            if isinstance(st, (ast.FunctionDef, ast.AsyncFunctionDef, ast.ClassDef)):
                continue
            if isinstance(st, (ast.Import, ast.ImportFrom)):
                continue
            if isinstance(st, ast.Expr) and isinstance(st.value, ast.Constant):
                continue  # docstring
            try:
                fr = Frame(self, m, env, is_module=True)
                fr.exec_stmt(st)
            except FoldError as e:
                for nm in self._bound_names(st):
                    failed[nm] = str(e)
                    env.pop(nm, None)
                # an unfoldable statement that may mutate foldable tables poisons them
                for nm in self._mutated_names(st):
                    failed[nm] = "mutated by unfoldable statement at line %d: %s" % (st.lineno, e)
                    env.pop(nm, None)
            except FoldRaise as e:
                for nm in self._bound_names(st):
                    failed[nm] = "raises %s" % e.name
                    env.pop(nm, None)

    @staticmethod
    def _bound_names(st):
        from .db import binding_targets
        out = set()
        for n in ast.walk(st):
            out.update(binding_targets(n))
        return out

    @staticmethod
    def _mutated_names(st):
        out = set()
        for n in ast.walk(st):
            if isinstance(n, ast.Call) and isinstance(n.func, ast.Attribute):
                b = n.func.value
                while isinstance(b, (ast.Subscript, ast.Attribute)):
                    b = b.value
                if isinstance(b, ast.Name):
                    out.add(b.id)
            if isinstance(n, (ast.Subscript, ast.Attribute)) and isinstance(n.ctx, (ast.Store, ast.Del)):
                b = n.value
                while isinstance(b, (ast.Subscript, ast.Attribute)):
                    b = b.value
                if isinstance(b, ast.Name):
                    out.add(b.id)
        return out

    def global_value(self, module, name):
        """Folded value of a module-level name (following imports)."""
        r = self.db.resolve_global(module, name)
        if r is None:
            raise FoldError("name %s.%s does not resolve" % (module, name))
        return self._value_of_resolved(r)

    def _value_of_resolved(self, r):
        k = r[0]
        if k == "func":
            return FFunc(r[1])
        if k == "class":
            return FClass(r[1])
        if k == "global":
            env = self.module(r[1])
            if r[2] in env:
                return env[r[2]]
            raise FoldError("cannot fold %s.%s: %s" % (r[1], r[2], self.mod_failed.get(r[1], {}).get(r[2], "not bound")))
        if k == "module":
            return FModule(r[1])
        if k == "ext":
            return FExt(r[1])
        if k == "builtin":
            return FExt("builtins." + r[1])
        raise FoldError("unsupported reference %r" % (r,))

    def tick(self):
        self.steps += 1
        if self.steps > self.MAX_STEPS:
            raise FoldError("step bound exceeded")

    # ------------------------------------------------------------------ calls
    def call_function(self, f, args, kwargs):
        self.tick()
        node = f.node
        env = {}
        pos = list(f.posparams)
        if len(args) > len(pos) and not f.vararg:
            raise FoldRaise("TypeError", "too many args for %s" % f.qual)
        for p, a in zip(pos, args):
            env[p] = a
        if f.vararg:
            env[f.vararg] = tuple(args[len(pos):])
        for k, v in kwargs.items():
            if k in env:
                raise FoldRaise("TypeError", "dup arg")
            if k not in f.params:
                if f.kwarg:
                    env.setdefault(f.kwarg, {})[k] = v
                    continue
                raise FoldRaise("TypeError", "unexpected kw %s" % k)
            env[k] = v
        for p in pos + f.kwonly:
            if p not in env:
                if p in f.defaults:
                    env[p] = Frame(self, f.module, self.module(f.module.name), is_module=True).eval(f.defaults[p])
                else:
                    raise FoldRaise("TypeError", "missing arg %s of %s" % (p, f.qual))
        fr = Frame(self, f.module, self.module(f.module.name), local=env, func=f)
        if f.is_generator:
            # a closed initialiser consumes the generators it calls completely (dict.update / dict() / list() / for): folded
            # eagerly into the list of yielded values
            fr.yields = []
        try:
            fr.exec_body(node.body)
        except _Ret as r:
            if f.is_generator:
                return fr.yields
            return r.v
        return fr.yields if f.is_generator else None


class Frame:
    def __init__(self, folder, module, genv, local=None, func=None, is_module=False):
        self.fo = folder
        self.module = module
        self.genv = genv
        self.local = local if local is not None else {}
        self.func = func
        self.is_module = is_module

    # names ---------------------------------------------------------------
    def load(self, name):
        if not self.is_module and name in self.local:
            return self.local[name]
        if self.func is not None and name in self.func.locals and name not in self.func.declared_global:
            raise FoldRaise("UnboundLocalError", name)
        if name in self.genv:
            return self.genv[name]
        if name in ("True", "False", "None"):
            return {"True": True, "False": False, "None": None}[name]
        return self.fo.global_value(self.module.name, name)

    def store(self, name, v):
        if self.is_module or (self.func is not None and name in self.func.declared_global):
            self.genv[name] = v
        else:
            self.local[name] = v

    # statements ------------------------------------------------------------
    def exec_body(self, body):
        for st in body:
            self.exec_stmt(st)

    def exec_stmt(self, st):
        self.fo.tick()
        if isinstance(st, ast.Assign):
            v = self.eval(st.value)
            for t in st.targets:
                self.assign(t, v)
        elif isinstance(st, ast.AnnAssign):
            if st.value is not None:
                self.assign(st.target, self.eval(st.value))
        elif isinstance(st, ast.AugAssign):
            cur = self.eval(_as_load(st.target))
            v = self.binop(st.op, cur, self.eval(st.value))
            self.assign(st.target, v)
        elif isinstance(st, ast.Expr):
            self.eval(st.value)
        elif isinstance(st, ast.If):
            if self.truth(self.eval(st.test)):
                self.exec_body(st.body)
            else:
                self.exec_body(st.orelse)
        elif isinstance(st, ast.For):
            it = self.eval(st.iter)
            broke = False
            for x in self.iterate(it):
                self.assign(st.target, x)
                try:
                    self.exec_body(st.body)
                except _Brk:
                    broke = True
                    break
                except _Cnt:
                    continue
            if not broke:
                self.exec_body(st.orelse)
        elif isinstance(st, ast.While):
            broke = False
            while self.truth(self.eval(st.test)):
                self.fo.tick()
                try:
                    self.exec_body(st.body)
                except _Brk:
                    broke = True
                    break
                except _Cnt:
                    continue
            if not broke:
                self.exec_body(st.orelse)
        elif isinstance(st, ast.Return):
            raise _Ret(self.eval(st.value) if st.value is not None else None)
        elif isinstance(st, ast.Break):
            raise _Brk()
        elif isinstance(st, ast.Continue):
            raise _Cnt()
        elif isinstance(st, ast.Pass):
            pass
        elif isinstance(st, ast.Assert):
            if not self.truth(self.eval(st.test)):
                raise FoldRaise("AssertionError")
        elif isinstance(st, ast.Raise):
            name = "Exception"
            if st.exc is not None:
                e = st.exc.func if isinstance(st.exc, ast.Call) else st.exc
                name = dotted(e) or "Exception"
            raise FoldRaise(name.split(".")[-1])
        elif isinstance(st, ast.Try):
            try:
                self.exec_body(st.body)
            except FoldRaise as e:
                for h in st.handlers:
                    names = []
                    if h.type is None:
                        names = None
                    elif isinstance(h.type, ast.Tuple):
                        names = [dotted(x) for x in h.type.elts]
                    else:
                        names = [dotted(h.type)]
                    if names is None or any(self._exc_matches(e.name, n) for n in names):
                        if h.name:
                            self.store(h.name, e)
                        self.exec_body(h.body)
                        break
                else:
                    raise
            else:
                self.exec_body(st.orelse)
            finally:
                if st.finalbody:
                    self.exec_body(st.finalbody)
        elif isinstance(st, ast.Global):
            pass
        elif isinstance(st, ast.Delete):
            for t in st.targets:
                if isinstance(t, ast.Subscript):
                    c = self.eval(t.value)
                    k = self.eval(t.slice)
                    try:
                        del c[k]
                    except (KeyError, IndexError) as ex:
                        raise FoldRaise(type(ex).__name__)
                else:
                    raise FoldError("unsupported del")
        else:
            raise FoldError("unsupported statement %s at %s:%d" % (type(st).__name__, self.module.rel, st.lineno))

    def _exc_matches(self, raised, handler):
        if handler is None:
            return False
        handler = handler.split(".")[-1]
        anc = self.fo.db.exc_ancestors(raised)
        # package classes by short name
        if raised not in anc:
            anc.append(raised)
        for q, c in self.fo.db.classes.items():
            if c.name == raised:
                anc = [a.split(".")[-1] for a in self.fo.db.exc_ancestors(c)]
        return handler in anc or handler in ("Exception", "BaseException")

    def assign(self, t, v):
        if isinstance(t, ast.Name):
            self.store(t.id, v)
        elif isinstance(t, (ast.Tuple, ast.List)):
            try:
                vals = list(self.iterate(v))
            except TypeError:
                raise FoldRaise("TypeError", "cannot unpack")
            if any(isinstance(e, ast.Starred) for e in t.elts):
                raise FoldError("starred unpack unsupported")
            if len(vals) != len(t.elts):
                raise FoldRaise("ValueError", "unpack arity")
            for e, x in zip(t.elts, vals):
                self.assign(e, x)
        elif isinstance(t, ast.Subscript):
            c = self.eval(t.value)
            if not isinstance(c, (dict, list)):
                raise FoldError("subscript store on %s" % type(c).__name__)
            k = self.eval(t.slice)
            try:
                c[k] = v
            except (IndexError, TypeError) as ex:
                raise FoldRaise(type(ex).__name__)
        else:
            raise FoldError("unsupported assignment target %s" % type(t).__name__)

    # expressions -------------------------------------------------------------
    def truth(self, v):
        if isinstance(v, (FPattern, FPartial, FFunc, FClass, FExt, FMatch)):
            return True
        return bool(v)

    def iterate(self, v):
        if isinstance(v, (FPattern, FPartial, FFunc, FClass, FExt, FModule, FMatch)) or v is None or \
                isinstance(v, (int, float)):
            raise FoldRaise("TypeError", "not iterable")
        return iter(v)

    def eval(self, e):
        self.fo.tick()
        m = getattr(self, "x_" + type(e).__name__, None)
        if m is None:
            raise FoldError("unsupported expression %s at %s:%d" % (type(e).__name__, self.module.rel,
                                                                      getattr(e, "lineno", 0)))
        return m(e)

    def x_Constant(self, e):
        return e.value

    def x_Yield(self, e):
        ys = getattr(self, "yields", None)
        if ys is None:
            raise FoldError("yield outside a folded generator call")
        ys.append(self.eval(e.value) if e.value is not None else None)
        return None

    def x_YieldFrom(self, e):
        ys = getattr(self, "yields", None)
        if ys is None:
            raise FoldError("yield from outside a folded generator call")
        ys.extend(list(self.iterate(self.eval(e.value))))
        return None

    def x_Name(self, e):
        return self.load(e.id)

    def x_Tuple(self, e):
        out = []
        for x in e.elts:
            if isinstance(x, ast.Starred):
                out.extend(self.iterate(self.eval(x.value)))
            else:
                out.append(self.eval(x))
        return tuple(out)

    def x_List(self, e):
        return list(self.x_Tuple(e))

    def x_Set(self, e):
        try:
            return set(self.x_Tuple(e))
        except TypeError:
            raise FoldRaise("TypeError", "unhashable")

    def x_Dict(self, e):
        out = {}
        for k, v in zip(e.keys, e.values):
            if k is None:
                out.update(self.eval(v))
            else:
                out[self.eval(k)] = self.eval(v)
        return out

    def x_JoinedStr(self, e):
        parts = []
        for v in e.values:
            if isinstance(v, ast.Constant):
                parts.append(str(v.value))
            elif isinstance(v, ast.FormattedValue):
                val = self.eval(v.value)
                spec = self.eval(v.format_spec) if v.format_spec is not None else ""
                if v.conversion == 114:
                    val = repr(val)
                elif v.conversion == 115:
                    val = str(val)
                self._check_plain(val)
                parts.append(format(val, spec))
        return "".join(parts)

    def _check_plain(self, v):
        if isinstance(v, (FPattern, FPartial, FFunc, FClass, FExt, FModule, FMatch)):
            raise FoldError("formatting an abstract value")

    def _comp(self, gens, emit):
        def rec(i):
            if i == len(gens):
                emit()
                return
            g = gens[i]
            for x in self.iterate(self.eval(g.iter)):
                self.fo.tick()
                self.assign(g.target, x)
                if all(self.truth(self.eval(c)) for c in g.ifs):
                    rec(i + 1)
        saved = dict(self.local) if not self.is_module else None
        rec(0)

    def x_ListComp(self, e):
        out = []
        sub = self._sub()
        sub._comp(e.generators, lambda: out.append(sub.eval(e.elt)))
        return out

    def x_SetComp(self, e):
        out = set()
        sub = self._sub()
        sub._comp(e.generators, lambda: out.add(sub.eval(e.elt)))
        return out

    def x_GeneratorExp(self, e):
        return iter(self.x_ListComp(e))

    def x_DictComp(self, e):
        out = {}
        sub = self._sub()

        def emit():
            out[sub.eval(e.key)] = sub.eval(e.value)
        sub._comp(e.generators, emit)
        return out

    def _sub(self):
        """comprehension scope: reads fall through to the enclosing frame"""
        outer = self
        fr = Frame(self.fo, self.module, self.genv, local=_ChainLocal(outer), func=None, is_module=False)
        return fr

    def x_IfExp(self, e):
        return self.eval(e.body) if self.truth(self.eval(e.test)) else self.eval(e.orelse)

    def x_BoolOp(self, e):
        v = None
        for x in e.values:
            v = self.eval(x)
            if isinstance(e.op, ast.And) and not self.truth(v):
                return v
            if isinstance(e.op, ast.Or) and self.truth(v):
                return v
        return v

    def x_UnaryOp(self, e):
        v = self.eval(e.operand)
        if isinstance(e.op, ast.Not):
            return not self.truth(v)
        self._check_plain(v)
        try:
            if isinstance(e.op, ast.USub):
                return -v
            if isinstance(e.op, ast.UAdd):
                return +v
            if isinstance(e.op, ast.Invert):
                return ~v
        except TypeError:
            raise FoldRaise("TypeError")
        raise FoldError("unary op")

    def binop(self, op, a, b):
        self._check_plain(a)
        self._check_plain(b)
        try:
            if isinstance(op, ast.Add):
                return a + b
            if isinstance(op, ast.Sub):
                return a - b
            if isinstance(op, ast.Mult):
                if isinstance(a, (str, list, tuple)) and isinstance(b, int) and b > 100000:
                    raise FoldError("huge repetition")
                return a * b
            if isinstance(op, ast.FloorDiv):
                return a // b
            if isinstance(op, ast.Div):
                return a / b
            if isinstance(op, ast.Mod):
                return a % b
            if isinstance(op, ast.Pow):
                if isinstance(b, int) and abs(b) > 64:
                    raise FoldError("huge power")
                return a ** b
            if isinstance(op, ast.BitOr):
                return a | b
            if isinstance(op, ast.BitAnd):
                return a & b
            if isinstance(op, ast.BitXor):
                return a ^ b
            if isinstance(op, ast.LShift):
                return a << b
            if isinstance(op, ast.RShift):
                return a >> b
        except ZeroDivisionError:
            raise FoldRaise("ZeroDivisionError")
        except TypeError:
            raise FoldRaise("TypeError")
        raise FoldError("binary op %s" % type(op).__name__)

    def x_BinOp(self, e):
        return self.binop(e.op, self.eval(e.left), self.eval(e.right))

    def x_Compare(self, e):
        left = self.eval(e.left)
        for op, c in zip(e.ops, e.comparators):
            right = self.eval(c)
            try:
                if isinstance(op, ast.Eq):
                    r = left == right
                elif isinstance(op, ast.NotEq):
                    r = left != right
                elif isinstance(op, ast.Lt):
                    r = left < right
                elif isinstance(op, ast.LtE):
                    r = left <= right
                elif isinstance(op, ast.Gt):
                    r = left > right
                elif isinstance(op, ast.GtE):
                    r = left >= right
                elif isinstance(op, ast.Is):
                    r = left is right
                elif isinstance(op, ast.IsNot):
                    r = left is not right
                elif isinstance(op, ast.In):
                    r = left in right
                elif isinstance(op, ast.NotIn):
                    r = left not in right
                else:
                    raise FoldError("compare op")
            except TypeError:
                raise FoldRaise("TypeError")
            if not r:
                return False
            left = right
        return True

    def x_Subscript(self, e):
        c = self.eval(e.value)
        if isinstance(e.slice, ast.Slice):
            lo = self.eval(e.slice.lower) if e.slice.lower is not None else None
            hi = self.eval(e.slice.upper) if e.slice.upper is not None else None
            st = self.eval(e.slice.step) if e.slice.step is not None else None
            if not isinstance(c, (str, list, tuple)):
                raise FoldError("slice of %s" % type(c).__name__)
            return c[lo:hi:st]
        k = self.eval(e.slice)
        if isinstance(c, FMatch):
            return c.m[k]
        if not isinstance(c, (str, list, tuple, dict)):
            raise FoldError("subscript of %s" % type(c).__name__)
        try:
            return c[k]
        except KeyError:
            raise FoldRaise("KeyError")
        except IndexError:
            raise FoldRaise("IndexError")
        except TypeError:
            raise FoldRaise("TypeError")

    def x_Attribute(self, e):
        v = self.eval(e.value)
        if isinstance(v, FModule):
            if v.name in self.fo.db.modules:
                return self.fo.global_value(v.name, e.attr)
            return FExt(v.name + "." + e.attr)
        if isinstance(v, FExt):
            return FExt(v.name + "." + e.attr)
        return _BoundMethod(v, e.attr)

    def x_Lambda(self, e):
        raise FoldError("lambda not foldable")

    def x_Starred(self, e):
        raise FoldError("starred")

    def x_Call(self, e):
        fn = self.eval(e.func)
        args = []
        for a in e.args:
            if isinstance(a, ast.Starred):
                args.extend(self.iterate(self.eval(a.value)))
            else:
                args.append(self.eval(a))
        kwargs = {}
        for k in e.keywords:
            if k.arg is None:
                kwargs.update(self.eval(k.value))
            else:
                kwargs[k.arg] = self.eval(k.value)
        return self.call(fn, args, kwargs, e)

    def call(self, fn, args, kwargs, e=None):
        if isinstance(fn, FFunc):
            return self.fo.call_function(fn.func, args, kwargs)
        if isinstance(fn, FClass):
            raise FoldError("instantiating %s is outside the foldable subset" % fn.cls.qual)
        if isinstance(fn, FPartial):
            raise FoldError("calling a partial is outside the foldable subset")
        if isinstance(fn, FExt):
            name = fn.name
            if name.startswith("builtins."):
                b = name[9:]
                if b in PURE_BUILTINS:
                    for a in list(args) + list(kwargs.values()):
                        self._check_plain(a)
                    try:
                        r = PURE_BUILTINS[b](*args, **kwargs)
                    except (TypeError, ValueError, KeyError, IndexError, StopIteration) as ex:
                        raise FoldRaise(type(ex).__name__, str(ex))
                    if b in ("range",) and len(r) > 100000:
                        raise FoldError("huge range")
                    return r
                if b == "isinstance":
                    return self._isinstance(args)
                raise FoldError("builtin %s not in the foldable subset" % b)
            if name in PURE_EXT:
                return PURE_EXT[name](*args, **kwargs)
            if name == "functools.partial":
                if not args or not isinstance(args[0], (FClass, FFunc)):
                    raise FoldError("partial of unknown callable")
                return FPartial(args[0], args[1:], kwargs)
            if name == "re.compile":
                for a in args:
                    if not isinstance(a, (str, int)):
                        raise FoldError("re.compile of non-constant")
                return FPattern(*args)
            if name in ("functools.lru_cache", "functools.cache"):
                return FExt("identity")
            if name == "identity":
                return args[0]
            raise FoldError("external call %s not in the foldable subset" % name)
        if isinstance(fn, _BoundMethod):
            recv, meth = fn.recv, fn.name
            if isinstance(recv, FPattern):
                if meth in ("match", "fullmatch", "search"):
                    if not (len(args) == 1 and isinstance(args[0], str)):
                        raise FoldError("pattern.%s on non-constant" % meth)
                    m = getattr(re.compile(recv.pattern, recv.flags), meth)(args[0])
                    return None if m is None else FMatch(m)
                raise FoldError("pattern.%s unsupported" % meth)
            if isinstance(recv, FMatch):
                if meth == "groups":
                    return recv.m.groups(*args)
                if meth == "group":
                    return recv.m.group(*args)
                raise FoldError("match.%s unsupported" % meth)
            for ty, names in ALLOWED_METHODS.items():
                if isinstance(recv, ty) and not isinstance(recv, bool):
                    if meth in names:
                        for a in list(args) + list(kwargs.values()):
                            if meth in ("format", "join"):
                                self._check_plain(a)
                        try:
                            return getattr(recv, meth)(*args, **kwargs)
                        except (KeyError, IndexError, ValueError, TypeError) as ex:
                            raise FoldRaise(type(ex).__name__, str(ex))
                    raise FoldError("%s.%s not in the foldable subset" % (ty.__name__, meth))
            raise FoldError("method %s on %s not foldable" % (meth, type(recv).__name__))
        raise FoldError("call of %r not foldable" % (fn,))

    def _isinstance(self, args):
        v, t = args
        names = {"builtins.str": str, "builtins.int": int, "builtins.dict": dict, "builtins.list": list,
                 "builtins.tuple": tuple, "builtins.set": set, "builtins.float": float, "builtins.bool": bool}
        ts = t if isinstance(t, tuple) else (t,)
        real = []
        for x in ts:
            if isinstance(x, FExt) and x.name in names:
                real.append(names[x.name])
            else:
                raise FoldError("isinstance against %r" % (x,))
        return isinstance(v, tuple(real))


def _as_load(t):
    import copy
    t2 = copy.copy(t)
    t2.ctx = ast.Load()
    return t2


class _BoundMethod:
    def __init__(self, recv, name):
        self.recv = recv
        self.name = name


class _ChainLocal(dict):
    """locals of a comprehension scope: own bindings, falling back to the outer frame"""

    def __init__(self, outer):
        super().__init__()
        self.outer = outer

    def __contains__(self, k):
        if dict.__contains__(self, k):
            return True
        o = self.outer
        return (not o.is_module) and (k in o.local)

    def __getitem__(self, k):
        if dict.__contains__(self, k):
            return dict.__getitem__(self, k)
        return self.outer.local[k]
