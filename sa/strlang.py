"""E6 (part 2): abstract string domain — maps the symbolic string values produced by the engine
(sa.sym) to regular languages (sa.reglang), using the provenance registry and the path facts.

The mapping over-approximates (every concrete string the value can take is in the language), so it is
sound on the left-hand side of an inclusion check.
"""
import re

from . import AnalysisError
from .fold import FPattern
from .lin import Lin, ge, le, eq
from .sym import Hooks, Num, Con, Tup, Obj, Unk, Str, Ref, vkey, assume
from . import reglang as RL


class Unsupported(AnalysisError):
    pass


NAT = ("alt", [("lit", "0"), ("cat", [("set", frozenset("123456789")), ("rep", ("set", frozenset("0123456789")), 0, None)])])
POS = ("cat", [("set", frozenset("123456789")), ("rep", ("set", frozenset("0123456789")), 0, None)])
DIGIT_SYMS = frozenset(RL.DIGITS)


class StrLang:
    def __init__(self, ctx, eng):
        self.ctx = ctx
        self.eng = eng
        self._groups = {}
        self._dfa = {}
        self.field_domain = {}     # attribute name -> finite set of non-None string values (named field invariants)
        self.term_language = {}    # explicit languages for opaque terms (e.g. the result of a modelled printer)

    # ------------------------------------------------------------------ patterns
    def pattern_groups(self, patref):
        name = patref.name
        if name not in self._groups:
            pat = patref.target
            r, groups, tree = RL.parse_pattern(pat.pattern)
            self._groups[name] = (r, groups, tree)
        return self._groups[name]

    def compile(self, r):
        key = repr(r)
        if key not in self._dfa:
            self._dfa[key] = RL.compile_regex(r)
        return self._dfa[key]

    # ------------------------------------------------------------------ facts about a value in a state
    def eq_const(self, v, st, const):
        """True / False / None: is v == const known in st"""
        k = ("eq", tuple(sorted([repr(vkey(v)), repr(vkey(Con(const)))])))
        return st.atoms.get(k)

    def member_sets(self, v, st):
        """folded containers v is known to be a member of (name, True/False)"""
        out = []
        kv = vkey(v)
        for k, val in st.atoms.items():
            if k[0] == "in" and k[1] == kv and isinstance(k[2], tuple) and k[2][0] == "folded":
                out.append((k[2][1], val))
        return out

    def folded(self, name):
        mod, _, nm = name.rpartition(".")
        return self.ctx.fold.global_value(mod, nm)

    # ------------------------------------------------------------------ languages
    def lang(self, v, st):
        return self.refine(v, st, self._lang(v, st))

    def refine(self, v, st, d):
        # refinements that apply to any string value
        for name, val in self.member_sets(v, st):
            try:
                s = self.folded(name)
            except Exception:
                continue
            if isinstance(s, (set, frozenset, tuple, list, dict)) and all(isinstance(x, str) for x in s):
                fs = RL.finite(set(s))
                d = d.intersect(fs) if val else d.minus(fs)
        # membership of a single character in a string constant:  x[i] in "abc"
        if isinstance(v, Unk) and self.eng.origin.get(v.term, (None,))[0] == "item":
            kv = vkey(v)
            for k, val in st.atoms.items():
                if k[0] == "in" and k[1] == kv and isinstance(k[2], tuple) and k[2][0] == "con":
                    try:
                        import ast as _ast
                        chars = _ast.literal_eval(k[2][1])
                    except Exception:
                        continue
                    if isinstance(chars, str):
                        fs = RL.finite(set(chars))
                        d = d.intersect(fs) if val else d.minus(fs)
        e = self.eq_const(v, st, "")
        if e is None:
            # truthiness of a string value: `if s:` / `if not s:` is the test against ""
            tk = ("truthy", ("unk", v.term)) if isinstance(v, Unk) else ("truthy", vkey(v))
            tv = st.atoms.get(tk)
            if tv is True:
                e = False
            elif tv is False:
                e = True
        if e is True:
            d = d.intersect(RL.lit(""))
        elif e is False:
            d = d.minus(RL.lit(""))
        return d

    def _lang(self, v, st):
        if isinstance(v, Con):
            if isinstance(v.value, str):
                return RL.lit(v.value)
            raise Unsupported("non-string constant %r in a string position" % (v.value,))
        if isinstance(v, Str):
            parts = []
            for p in v.parts:
                if p[0] == "lit":
                    parts.append(("lit", p[1]))
                elif p[0] == "rep":
                    lo = 1 if st.entails(ge(p[2], 1)) else 0
                    parts.append(("rep", ("lit", p[1]), lo, None))
                else:
                    d = self.lang(Unk(p[1]), st)
                    # facts recorded about the one-part string (e.g. membership of a capitalised element)
                    d2 = self.refine(Str((p,)), st, d)
                    parts.append(("dfa", d2))
            return self.compile(("cat", parts)) if all(x[0] != "dfa" for x in parts) else RL.compile_regex(("cat", parts))
        if isinstance(v, Unk):
            return self.term_lang(v, st)
        if isinstance(v, Num):
            raise Unsupported("number in a string position")
        raise Unsupported("value %r has no string abstraction" % (v,))

    def term_lang(self, v, st):
        t = v.term
        if t in self.term_language:
            return self.term_language[t]
        o = self.eng.origin.get(t)
        if o is None and isinstance(t, tuple) and len(t) == 4 and t[0] == "attr" and t[2] in self.field_domain:
            return RL.finite(set(self.field_domain[t[2]]))
        if o is None:
            # membership alone may define it
            for name, val in self.member_sets(v, st):
                if val:
                    s = self.folded(name)
                    if all(isinstance(x, str) for x in s):
                        return RL.finite(set(s))
            raise Unsupported("string value of unknown provenance: %r" % (t,))
        k = o[0]
        if k == "group":
            matchrec, gi = o[1], o[2]
            patref = matchrec[1]
            r, groups, tree = self.pattern_groups(patref)
            if gi not in groups:
                raise Unsupported("group %d not found" % gi)
            d = self.compile(groups[gi])
            proj = self.match_decomposition(o[1], st)
            if proj is not None and gi in proj:
                d = d.intersect(RL.finite(proj[gi]))
            return d
        if k == "slice":
            _, base, has_lo, has_hi, vals = o
            if has_lo and not has_hi and len(vals) == 1 and isinstance(vals[0], Num) and vals[0].lin.is_const() and vals[0].lin.k == 1:
                return self.lang(base, st).drop_first()
            if has_lo and has_hi and len(vals) == 2 and all(isinstance(x, Num) and x.lin.is_const() and x.lin.k.denominator == 1 for x in vals):
                a_, b_ = int(vals[0].lin.k), int(vals[1].lin.k)
                if 0 <= a_ == b_:
                    return RL.lit("")                       # s[a:a]
                if 0 <= a_ and b_ == a_ + 1 and isinstance(base, Unk):
                    # s[a:a+1] is the character s[a] (the facts recorded about that item apply); shorter only at the very end
                    # of s, which a preceding read of s[a] on the same path excludes
                    item = Unk(("item", base.term, a_))
                    if self.eng.origin.get(item.term) is not None or any(True for _ in self.member_sets(item, st)):
                        return self.lang(item, st)
            raise Unsupported("slice form not supported")
        if k == "item":
            return RL.compile_regex(("set", frozenset(RL.ALPHABET)))
        if k == "bmeth":
            _, attr, base, args = o
            if attr == "capitalize":
                bl = self.lang(base, st)
                words = bl.enumerate(limit=4000)
                if words is not None:
                    return RL.finite({w.capitalize() for w in words})
                return RL.any_string()
            if attr in ("lower", "upper"):
                bl = self.lang(base, st)
                words = bl.enumerate(limit=4000)
                if words is not None:
                    return RL.finite({getattr(w, attr)() for w in words})
                return RL.any_string()
            raise Unsupported("string method %s" % attr)
        if k == "add":
            return RL.cat(self.lang(o[1], st), self.lang(o[2], st))
        if k == "str":
            a = o[1]
            if isinstance(a, Num):
                return self.numeral(a.lin, st, signed=False)
            return self.lang(a, st)
        if k == "fmt":
            _, spec, a = o
            if spec == "+" and isinstance(a, Num):
                return self.numeral(a.lin, st, signed=True)
            raise Unsupported("format spec %r" % spec)
        raise Unsupported("provenance %r" % (k,))

    def match_decomposition(self, matchrec, st):
        """Lemma: if the pattern is a plain concatenation  lit* g1 g2 ... gn lit*  and the state knows that the slice
        of the matched string that cuts off the leading literals, the groups g1..g(j-1) and the trailing literals is
        a member of a finite set S, then (gj, ..., gn) is a split of a word of S.  Returns {group: set(values)}."""
        import re._constants as src
        _, patref, attr, subject = matchrec
        r, groups, tree = self.pattern_groups(patref)
        segs = []
        for op, av in tree:
            if op is src.AT:
                continue
            if op is src.LITERAL:
                segs.append(("lit", chr(av)))
            elif op is src.SUBPATTERN and av[0] is not None:
                segs.append(("grp", av[0]))
            else:
                return None
        lead = 0
        while lead < len(segs) and segs[lead][0] == "lit":
            lead += 1
        trail = 0
        while trail < len(segs) and segs[-1 - trail][0] == "lit":
            trail += 1
        mid = segs[lead:len(segs) - trail]
        if not mid or any(x[0] != "grp" for x in mid):
            return None
        gorder = [x[1] for x in mid]
        sk = vkey(subject)
        for k, val in st.atoms.items():
            if not (k[0] == "in" and val is True and isinstance(k[2], tuple) and k[2][0] == "folded"):
                continue
            vk = k[1]
            if not (vk[0] == "unk" and isinstance(vk[1], tuple) and vk[1][0] == "slice" and vk[1][1] == sk):
                continue
            o = self.eng.origin.get(vk[1])
            if o is None or not (o[2] and o[3]) or len(o[4]) != 2:
                continue
            lo, hi = o[4]
            if not (isinstance(lo, Num) and isinstance(hi, Num) and hi.lin.is_const() and int(hi.lin.k) == -trail and trail > 0):
                continue
            if int(lo.lin.k) != lead:
                continue
            # the len-terms must be exactly the first j-1 groups
            cut = []
            okc = True
            for t, c in lo.lin.c.items():
                if c != 1 or not (isinstance(t, tuple) and t[0] == "len"):
                    okc = False
                    break
                gk = t[1]
                if gk[0] == "unk" and isinstance(gk[1], tuple) and gk[1][0] == "group" and self.eng.origin.get(gk[1], (None, None))[1] is matchrec:
                    cut.append(gk[1][2])
                else:
                    okc = False
            if not okc or sorted(cut) != gorder[:len(cut)]:
                continue
            rest = gorder[len(cut):]
            try:
                S = self.folded(k[2][1])
            except Exception:
                continue
            if not all(isinstance(w, str) for w in S):
                continue
            dfas = [self.compile(groups[g]) for g in rest]
            proj = {g: set() for g in rest}

            def split(w, i, acc):
                if i == len(rest) - 1:
                    if dfas[i].accepts(w):
                        for g, part in zip(rest, acc + [w]):
                            proj[g].add(part)
                    return
                for cutp in range(len(w) + 1):
                    if dfas[i].accepts(w[:cutp]):
                        split(w[cutp:], i + 1, acc + [w[:cutp]])
            for w in S:
                split(w, 0, [])
            return proj
        return None

    def numeral(self, lin, st, signed):
        """language of str(n) (signed=False) or '{:+}'.format(n) (signed=True) for the integers n allowed by st"""
        if lin.is_const():
            n = int(lin.k)
            return RL.lit(("%+d" % n) if signed else str(n))
        nonneg = st.entails(ge(lin, 0))
        pos = st.entails(ge(lin, 1))
        neg = st.entails(le(lin, -1))
        nonpos = st.entails(le(lin, 0))
        nonzero = pos or neg or not assume(("lin", lin, "=="), st)
        small = st.entails(le(lin, 9)) and st.entails(ge(lin, -9))
        mag_pos = ("set", frozenset("123456789")) if small else POS
        alts = []
        plus = [("lit", "+")] if signed else []
        if not neg and not nonpos or pos or (not neg and not (nonpos and nonzero)):
            pass
        # positive part
        if not nonpos:
            alts.append(("cat", plus + [mag_pos]))
        # zero
        if not nonzero:
            alts.append(("cat", plus + [("lit", "0")]))
        # negative part
        if not nonneg:
            alts.append(("cat", [("lit", "-"), mag_pos]))
        if not alts:
            return RL.compile_regex(("set", frozenset()))
        return self.compile(("alt", alts))


class IntFacts(Hooks):
    """adds range facts for int(<string>) / len(<string>) from the string's language"""

    def __init__(self, ctx):
        self.ctx = ctx
        self.sl = None
        self.int_sites = []
        self.int_prov = {}     # id(int call node) -> {(pattern name, group index)} the digit string comes from

    @staticmethod
    def provenance(eng, v):
        """(pattern name, group) a string value is (a slice of) a regex group of, if known"""
        for _ in range(6):
            if not isinstance(v, Unk):
                return None
            o = eng.origin.get(v.term)
            if o is None:
                return None
            if o[0] == "group":
                patref = o[1][1]
                return (str(patref.name).split(".")[-1], o[2])
            if o[0] in ("slice", "item"):
                v = o[1]
                continue
            return None
        return None

    def bind(self, eng):
        self.sl = StrLang(self.ctx, eng)
        return self

    def on_call(self, eng, fr, node, callee, args, kwargs, st):
        if isinstance(callee, tuple) and callee[0] == "ext" and callee[1] in ("builtins.int",) and len(args) == 1 \
                and not isinstance(args[0], Num):
            try:
                d = self.sl.lang(args[0], st)
            except Unsupported:
                return None
            digits1 = RL.compile_regex(("set", DIGIT_SYMS))
            digitsp = RL.compile_regex(("rep", ("set", DIGIT_SYMS), 1, None))
            t = eng.fresh("int")
            eng.origin[t] = ("int", args[0])
            s2 = st.copy()
            ok_all, w = d.included_in(digitsp)
            self.int_sites.append((node, args[0], st, ok_all, w, fr.func))
            prov = self.provenance(eng, args[0])
            if prov is not None:
                self.int_prov.setdefault(id(node), set()).add(prov)
            if d.included_in(digits1)[0]:
                s2.add_lin(ge(Lin.var(t), 0))
                s2.add_lin(le(Lin.var(t), 9))
            elif ok_all:
                s2.add_lin(ge(Lin.var(t), 0))
            return [(s2, Num(Lin.var(t)))]
        if isinstance(callee, tuple) and callee[0] == "ext" and callee[1] == "builtins.len" and len(args) == 1 \
                and isinstance(args[0], (Unk, Str)):
            try:
                d = self.sl.lang(args[0], st)
            except Unsupported:
                return None
            t = ("len", vkey(args[0]), 0)
            eng.origin[t] = ("len", args[0])
            s2 = st.copy()
            s2.add_lin(ge(Lin.var(t), 0 if d.accepts("") else 1))
            return [(s2, Num(Lin.var(t)))]
        return None
