"""E6: regular-language engine over a symbolic alphabet.

Alphabet: the 128 ASCII characters individually plus classes of non-ASCII characters that the
predicates used in the repository can distinguish:
  ND  non-ASCII decimal digits (matched by \\d, accepted by int(), str.isdigit/isnumeric)
  NO  numeric but not decimal (accepted by str.isnumeric() only, e.g. superscript two)
  LL / LU / LO  non-ASCII lower / upper / other letters
  OT  every other non-ASCII character
Languages are DFAs (complete, over this alphabet).  Decisions: inclusion, emptiness, equality, each
with a shortest witness.
"""
import re._parser as sre
import re._constants as src
import unicodedata

CLASSES = ("ND", "NO", "LL", "LU", "LO", "OT")
ALPHABET = [chr(i) for i in range(128)] + list(CLASSES)
REPR = {"ND": "٠", "NO": "²", "LL": "é", "LU": "É", "LO": "ª", "OT": "€"}
A_INDEX = {a: i for i, a in enumerate(ALPHABET)}
NSYM = len(ALPHABET)

DIGITS = set("0123456789") | {"ND"}
ASCII_DIGITS = set("0123456789")
LOWER = set("abcdefghijklmnopqrstuvwxyz")
UPPER = set("ABCDEFGHIJKLMNOPQRSTUVWXYZ")
WORD = LOWER | UPPER | ASCII_DIGITS | {"_", "ND", "NO", "LL", "LU", "LO"}
SPACE = set(" \t\n\r\f\v")


def sym_of(ch):
    if ord(ch) < 128:
        return ch
    cat = unicodedata.category(ch)
    if cat == "Nd":
        return "ND"
    if cat in ("No", "Nl"):
        return "NO"
    if cat == "Ll":
        return "LL"
    if cat == "Lu":
        return "LU"
    if cat.startswith("L"):
        return "LO"
    return "OT"


class DFA:
    """complete DFA: trans[state][symbol index] -> state; state 0 is the start"""

    def __init__(self, trans, accept):
        self.trans = trans
        self.accept = set(accept)

    # ------------------------------------------------------------------ construction
    @staticmethod
    def from_nfa(nfa):
        start = nfa.eclose({nfa.start})
        ids = {start: 0}
        trans = []
        work = [start]
        accept = set()
        while work:
            S = work.pop()
            i = ids[S]
            while len(trans) <= i:
                trans.append(None)
            row = [0] * NSYM
            moves = {}
            for st in S:
                for syms, tgt in nfa.edges.get(st, ()):
                    for a in syms:
                        moves.setdefault(a, set()).add(tgt)
            cache = {}
            for k, a in enumerate(ALPHABET):
                tg = moves.get(a)
                if not tg:
                    T = frozenset()
                else:
                    key = frozenset(tg)
                    T = cache.get(key)
                    if T is None:
                        T = nfa.eclose(tg)
                        cache[key] = T
                j = ids.get(T)
                if j is None:
                    j = len(ids)
                    ids[T] = j
                    work.append(T)
                row[k] = j
            trans[i] = row
            if nfa.final in S:
                accept.add(i)
        # make sure the dead state rows exist
        for S, i in ids.items():
            while len(trans) <= i:
                trans.append(None)
            if trans[i] is None:
                trans[i] = [i] * NSYM
        return DFA(trans, accept).minimize()

    def minimize(self):
        # reachable
        reach = {0}
        work = [0]
        while work:
            s = work.pop()
            for t in self.trans[s]:
                if t not in reach:
                    reach.add(t)
                    work.append(t)
        states = sorted(reach)
        # Moore partition refinement
        part = {s: (1 if s in self.accept else 0) for s in states}
        while True:
            sig = {}
            newpart = {}
            for s in states:
                key = (part[s], tuple(part[t] for t in self.trans[s]))
                if key not in sig:
                    sig[key] = len(sig)
                newpart[s] = sig[key]
            if len(set(newpart.values())) == len(set(part.values())):
                part = newpart
                break
            part = newpart
        # renumber with start = 0
        order = {}
        def num(b):
            if b not in order:
                order[b] = len(order)
            return order[b]
        num(part[0])
        rep = {}
        for s in states:
            rep.setdefault(part[s], s)
        trans = {}
        work = [part[0]]
        seen = {part[0]}
        while work:
            b = work.pop(0)
            row = []
            for t in self.trans[rep[b]]:
                tb = part[t]
                num(tb)
                row.append(tb)
                if tb not in seen:
                    seen.add(tb)
                    work.append(tb)
            trans[b] = row
        n = len(order)
        T = [None] * n
        acc = set()
        for b, i in order.items():
            T[i] = [order[x] for x in trans[b]]
            if rep[b] in self.accept:
                acc.add(i)
        return DFA(T, acc)

    # ------------------------------------------------------------------ operations
    def complement(self):
        return DFA(self.trans, set(range(len(self.trans))) - self.accept)

    def product(self, other, mode):
        ids = {(0, 0): 0}
        work = [(0, 0)]
        trans = []
        accept = set()
        while work:
            a, b = work.pop()
            i = ids[(a, b)]
            while len(trans) <= i:
                trans.append(None)
            row = []
            for k in range(NSYM):
                t = (self.trans[a][k], other.trans[b][k])
                j = ids.get(t)
                if j is None:
                    j = len(ids)
                    ids[t] = j
                    work.append(t)
                row.append(j)
            trans[i] = row
            ina, inb = a in self.accept, b in other.accept
            if (mode == "and" and ina and inb) or (mode == "or" and (ina or inb)) or (mode == "diff" and ina and not inb):
                accept.add(i)
        return DFA(trans, accept).minimize()

    def intersect(self, o):
        return self.product(o, "and")

    def union(self, o):
        return self.product(o, "or")

    def minus(self, o):
        return self.product(o, "diff")

    def is_empty(self):
        return self.witness() is None

    def witness(self):
        """a shortest accepted string (class symbols replaced by representatives), or None"""
        prev = {0: None}
        work = [0]
        if 0 in self.accept:
            return ""
        while work:
            nxt = []
            for s in work:
                for k, t in enumerate(self.trans[s]):
                    if t not in prev:
                        prev[t] = (s, k)
                        if t in self.accept:
                            out = []
                            cur = t
                            while prev[cur] is not None:
                                p, kk = prev[cur]
                                a = ALPHABET[kk]
                                out.append(REPR.get(a, a))
                                cur = p
                            return "".join(reversed(out))
                        nxt.append(t)
            work = nxt
        return None

    def included_in(self, o):
        """(bool, witness string in self \\ o)"""
        d = self.minus(o)
        w = d.witness()
        return (w is None, w)

    def equals(self, o):
        a, w1 = self.included_in(o)
        b, w2 = o.included_in(self)
        return (a and b, w1 if w1 is not None else w2)

    def accepts(self, s):
        st = 0
        for ch in s:
            st = self.trans[st][A_INDEX[sym_of(ch)]]
        return st in self.accept

    def is_finite(self):
        return self.enumerate(limit=100000) is not None

    def enumerate(self, limit=5000, maxlen=40):
        """all accepted strings if the language is finite and small, else None"""
        # states that can reach an accepting state
        n = len(self.trans)
        rev = [set() for _ in range(n)]
        for s in range(n):
            for t in self.trans[s]:
                rev[t].add(s)
        live = set(self.accept)
        work = list(live)
        while work:
            s = work.pop()
            for p in rev[s]:
                if p not in live:
                    live.add(p)
                    work.append(p)
        out = []
        stack = [(0, "")]
        while stack:
            s, w = stack.pop()
            if s not in live:
                continue
            if len(w) > maxlen:
                return None
            if s in self.accept:
                out.append(w)
                if len(out) > limit:
                    return None
            for k, t in enumerate(self.trans[s]):
                if t in live:
                    a = ALPHABET[k]
                    stack.append((t, w + REPR.get(a, a)))
        return sorted(set(out))

    def drop_first(self):
        """{ w : exists a. a w in L }  (left quotient by any one character): the language of s[1:]"""
        nfa = NFA()
        n = len(self.trans)
        base = [nfa.new() for _ in range(n)]
        for s in range(n):
            by_t = {}
            for k, t in enumerate(self.trans[s]):
                by_t.setdefault(t, set()).add(ALPHABET[k])
            for t, syms in by_t.items():
                nfa.edge(base[s], frozenset(syms), base[t])
        start = nfa.new()
        for t in set(self.trans[0]):
            nfa.eps(start, base[t])
        final = nfa.new()
        for s in self.accept:
            nfa.eps(base[s], final)
        nfa.start, nfa.final = start, final
        return DFA.from_nfa(nfa)

    def nonempty_strings(self):
        return self.minus(lit(""))


class NFA:
    def __init__(self):
        self.n = 0
        self.edges = {}
        self.epsilon = {}
        self.start = None
        self.final = None

    def new(self):
        self.n += 1
        return self.n - 1

    def edge(self, a, syms, b):
        self.edges.setdefault(a, []).append((frozenset(syms), b))

    def eps(self, a, b):
        self.epsilon.setdefault(a, set()).add(b)

    def eclose(self, S):
        out = set(S)
        work = list(S)
        while work:
            s = work.pop()
            for t in self.epsilon.get(s, ()):
                if t not in out:
                    out.add(t)
                    work.append(t)
        return frozenset(out)


# ----------------------------------------------------------------------------- regex AST (own)
# ('lit', str) ('set', frozenset(symbols)) ('cat', [r...]) ('alt', [r...]) ('rep', r, lo, hi|None) ('dfa', DFA)
def build(nfa, r):
    """returns (start, end) states for regex r"""
    k = r[0]
    if k == "lit":
        s = nfa.new()
        cur = s
        for ch in r[1]:
            t = nfa.new()
            nfa.edge(cur, {sym_of(ch)}, t)
            cur = t
        return s, cur
    if k == "set":
        s, t = nfa.new(), nfa.new()
        if r[1]:
            nfa.edge(s, r[1], t)
        return s, t
    if k == "cat":
        s = nfa.new()
        cur = s
        for x in r[1]:
            a, b = build(nfa, x)
            nfa.eps(cur, a)
            cur = b
        return s, cur
    if k == "alt":
        s, t = nfa.new(), nfa.new()
        for x in r[1]:
            a, b = build(nfa, x)
            nfa.eps(s, a)
            nfa.eps(b, t)
        return s, t
    if k == "rep":
        _, x, lo, hi = r
        s = nfa.new()
        cur = s
        for _ in range(lo):
            a, b = build(nfa, x)
            nfa.eps(cur, a)
            cur = b
        if hi is None:
            a, b = build(nfa, x)
            nfa.eps(cur, a)
            nfa.eps(b, a)
            t = nfa.new()
            nfa.eps(cur, t)
            nfa.eps(b, t)
            return s, t
        t = nfa.new()
        nfa.eps(cur, t)
        for _ in range(hi - lo):
            a, b = build(nfa, x)
            nfa.eps(cur, a)
            cur = b
            nfa.eps(cur, t)
        return s, t
    if k == "dfa":
        d = r[1]
        base = [nfa.new() for _ in range(len(d.trans))]
        for s_ in range(len(d.trans)):
            by_t = {}
            for kk, t in enumerate(d.trans[s_]):
                by_t.setdefault(t, set()).add(ALPHABET[kk])
            for t, syms in by_t.items():
                nfa.edge(base[s_], syms, base[t])
        end = nfa.new()
        for s_ in d.accept:
            nfa.eps(base[s_], end)
        return base[0], end
    raise ValueError("unknown regex node %r" % (r,))


def compile_regex(r):
    nfa = NFA()
    s, t = build(nfa, r)
    nfa.start, nfa.final = s, t
    return DFA.from_nfa(nfa)


def lit(s):
    return compile_regex(("lit", s))


def finite(strings):
    return compile_regex(("alt", [("lit", s) for s in sorted(strings)])) if strings else compile_regex(("set", frozenset()))


def cat(*parts):
    return compile_regex(("cat", [p if isinstance(p, tuple) else ("dfa", p) for p in parts]))


def alt(*parts):
    return compile_regex(("alt", [p if isinstance(p, tuple) else ("dfa", p) for p in parts]))


def any_string():
    return compile_regex(("rep", ("set", frozenset(ALPHABET)), 0, None))


# ----------------------------------------------------------------------------- from re._parser
def _cat_set(av):
    if av is src.CATEGORY_DIGIT:
        return set(DIGITS)
    if av is src.CATEGORY_NOT_DIGIT:
        return set(ALPHABET) - DIGITS
    if av is src.CATEGORY_WORD:
        return set(WORD)
    if av is src.CATEGORY_NOT_WORD:
        return set(ALPHABET) - WORD
    if av is src.CATEGORY_SPACE:
        return set(SPACE)
    if av is src.CATEGORY_NOT_SPACE:
        return set(ALPHABET) - SPACE
    raise ValueError("unsupported category %r" % (av,))


def _in_set(items):
    neg = False
    out = set()
    for op, av in items:
        if op is src.NEGATE:
            neg = True
        elif op is src.LITERAL:
            out.add(sym_of(chr(av)))
        elif op is src.RANGE:
            lo, hi = av
            for c in range(lo, min(hi, 127) + 1):
                out.add(chr(c))
            if hi > 127:
                out |= set(CLASSES)   # over-approximation of a non-ASCII range
        elif op is src.CATEGORY:
            out |= _cat_set(av)
        else:
            raise ValueError("unsupported set item %r" % (op,))
    if neg:
        out = set(ALPHABET) - out
    return frozenset(out)


def from_sre(seq, groups=None, subst=None):
    """re._parser sequence -> own regex AST.  groups: dict filled with group number -> own regex AST.
    subst: dict group number -> replacement regex AST (e.g. restrict the element group)."""
    parts = []
    items = list(seq)
    for idx, (op, av) in enumerate(items):
        if op is src.LITERAL:
            parts.append(("set", frozenset([sym_of(chr(av))])))
        elif op is src.NOT_LITERAL:
            parts.append(("set", frozenset(set(ALPHABET) - {sym_of(chr(av))})))
        elif op is src.ANY:
            parts.append(("set", frozenset(set(ALPHABET) - {"\n"})))
        elif op is src.IN:
            parts.append(("set", _in_set(av)))
        elif op is src.BRANCH:
            parts.append(("alt", [from_sre(x, groups, subst) for x in av[1]]))
        elif op is src.SUBPATTERN:
            gnum = av[0]
            inner = from_sre(av[3], groups, subst)
            if subst and gnum in subst:
                inner = subst[gnum]
            if groups is not None and gnum is not None:
                groups[gnum] = inner
            parts.append(inner)
        elif op in (src.MAX_REPEAT, src.MIN_REPEAT):
            lo, hi, sub = av
            parts.append(("rep", from_sre(sub, groups, subst), lo, None if hi is src.MAXREPEAT else hi))
        elif op is src.AT:
            if av is src.AT_BEGINNING or av is src.AT_BEGINNING_STRING:
                if idx != 0:
                    raise ValueError("^ not at the beginning")
            elif av is src.AT_END:
                if idx != len(items) - 1:
                    raise ValueError("$ not at the end")
                # Python's $ also matches before a trailing newline
                parts.append(("rep", ("set", frozenset(["\n"])), 0, 1))
            elif av is src.AT_END_STRING:
                pass
            else:
                raise ValueError("unsupported anchor %r" % (av,))
        else:
            raise ValueError("unsupported regex construct %r" % (op,))
    return ("cat", parts)


def parse_pattern(pattern, mode="match"):
    """language of strings s for which re.compile(pattern).<mode>(s) succeeds, plus per-group regex ASTs.
    mode 'match': anchored at the start, free at the end unless the pattern ends with $."""
    tree = sre.parse(pattern)
    groups = {}
    r = from_sre(tree, groups)
    items = list(tree)
    anchored_end = bool(items) and items[-1][0] is src.AT and items[-1][1] in (src.AT_END, src.AT_END_STRING)
    if mode == "match" and not anchored_end:
        r = ("cat", [r, ("rep", ("set", frozenset(ALPHABET)), 0, None)])
    return r, groups, tree
