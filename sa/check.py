"""CLI:  python -m sa.check <property id> [--tier quick|thorough]  |  --replay <path>

exit 0: every obligation discharged (or a listed known finding);
exit 1: VIOLATION lines printed; exit 2: ANALYSIS-ERROR (the analyser could not model something).
"""
import argparse
import importlib
import json
import os
import sys
import time
import traceback

from . import AnalysisError, REPO
from .core import Ctx, Report, finalize, VERIF


def run_property(pid, tier, seed, repo=REPO, quiet=False):
    t0 = time.time()
    mod = importlib.import_module("rules." + pid)
    ctx = Ctx(repo, tier)
    rep = Report(pid)
    rep.analysed = ctx.units()
    try:
        mod.run(ctx, rep)
    except AnalysisError as e:
        # a rule lost its anchor after other rules had already reported violations that are not known findings: those verdicts
        # stand (exit 1 with the constructs named); only a run that has nothing to report ends as analysis-broken (exit 2)
        from .core import load_known
        known = {k["key"] for k in load_known().get("known", []) if k.get("property") == pid}
        if not [o for o in rep.violations if o.key not in known]:
            raise
        rep.note("analysis stopped early (%s); the violations found up to that point are reported" % e)
    meta = dict(getattr(mod, "META", {}))
    meta["checker_cmd"] = "/venv/bin/python -m sa.check %s --tier %s" % (pid, tier)
    if tier == "thorough" and hasattr(mod, "thorough"):
        mod.thorough(ctx, rep)
    return rep, meta, time.time() - t0


def main(argv=None):
    ap = argparse.ArgumentParser()
    ap.add_argument("pid", nargs="?")
    ap.add_argument("--tier", default=os.environ.get("VERIF_TIER", "quick"), choices=["quick", "thorough"])
    ap.add_argument("--replay")
    ap.add_argument("--repo", default=os.environ.get("SA_REPO", REPO))
    ap.add_argument("--scratch", action="store_true", help="self-validation run on a scratch copy: no evidence / replay files")
    a = ap.parse_args(argv)
    seed = int(os.environ.get("VERIF_SEED", "0") or 0)
    sys.path.insert(0, VERIF)
    try:
        if a.replay:
            with open(a.replay) as fh:
                rec = json.load(fh)
            pid = rec["property"]
            rep, meta, wall = run_property(pid, "quick", seed, a.repo)
            hit = [o for o in rep.violations if o.key == rec["key"]]
            if hit:
                print("VIOLATION property=%s replay=%s" % (pid, a.replay))
                o = hit[0]
                print("  rule %s at %s in %s: %s\n  %s" % (o.rule, o.loc, o.func, o.construct, o.witness or o.how))
                return 1
            print("replay: obligation %s is discharged on the current tree" % rec["key"])
            return 0
        if not a.pid:
            ap.error("property id required")
        rep, meta, wall = run_property(a.pid, a.tier, seed, a.repo)
        if a.scratch:
            from .core import load_known
            known = {k["key"] for k in load_known().get("known", []) if k.get("property") == a.pid}
            new = sorted({(o.rule, o.key) for o in rep.violations if o.key not in known})
            for rule, key in new:
                print("SCRATCH-VIOLATION rule=%s key=%s" % (rule, key))
            if not new and rep.floor_failures:
                print("ANALYSIS-ERROR property=%s: %s" % (a.pid, "; ".join(rep.floor_failures)))
                return 2
            return 1 if new else 0
        if a.tier == "thorough":
            from . import selfval
            selfval.run(a.pid, rep, seed)
            wall = wall + rep.analysed.get("selfval_wall_s", 0)
        return finalize(rep, a.tier, seed, wall, meta)
    except AnalysisError as e:
        print("ANALYSIS-ERROR property=%s: %s" % (a.pid or "?", e))
        return 2
    except Exception:
        print("ANALYSIS-ERROR property=%s: internal error\n%s" % (a.pid or "?", traceback.format_exc()))
        return 2


if __name__ == "__main__":
    sys.exit(main())
