"""E1: generic discharges of implicit-raise sites (decided from guard facts, inferred types, folded
tables and pattern ASTs — never from source text matching of a particular function)."""
import ast
import re as _re

from .db import own_nodes, unparse, dotted
from .guards import guard_facts, u, _const_index
from .tyinf import always_exits


def noreturn_pred(ctx, f):
    sites = {id(s.node): s for s in ctx.cg.sites(f)}

    def pred(call):
        s = sites.get(id(call))
        if s is None or not s.callees or s.ext:
            return False
        for g in s.callees:
            if not always_exits(g.node.body):
                return False
            if any(isinstance(n, ast.Return) for n in own_nodes(g.node)):
                return False
        return True
    return pred


def tuple_arities(t, notnone=False):
    """set of arities if every atom of type t is a tuple (None tolerated when notnone), else None"""
    ar = set()
    for a in t:
        if a[0] == "tuple":
            ar.add(len(a[1]))
        elif a[0] == "none" and notnone:
            continue
        else:
            return None
    return ar or None


class Discharger:
    def __init__(self, esc):
        self.esc = esc
        self.ctx = esc.ctx
        self._facts = {}

    def facts(self, info):
        return self.facts_of(info.f)

    def facts_of(self, f):
        key = f.qual
        if key not in self._facts:
            self._facts[key] = {}          # cycle guard: a recursive caller contributes no entry facts
            entry = self.entry_facts(f)
            self._facts[key] = guard_facts(f, noreturn_pred(self.ctx, f), entry)
        return self._facts[key]

    def entry_facts(self, f):
        """facts about the parameters of a private module-level function that hold at every one of its call sites
        (it is only ever called directly, from its own package): the guard of the caller still dominates the
        construct after an 'extract function' refactoring."""
        if f.cls is not None or f.outer is not None or not f.name.startswith("_") or f.name.startswith("__"):
            return frozenset()
        db = self.ctx.db
        calls = []
        for g in db.funcs.values():
            for n in own_nodes(g.node):
                if isinstance(n, ast.Name) and n.id == f.name and isinstance(n.ctx, ast.Load):
                    r = db.resolve_dotted(g.module, n)
                    if r and r[0] == "func" and r[1] is f:
                        calls.append((g, n))
                elif isinstance(n, ast.Attribute) and n.attr == f.name:
                    r = db.resolve_dotted(g.module, n)
                    if r and r[0] == "func" and r[1] is f:
                        calls.append((g, n))
        for m in db.modules.values():
            # a module-level reference (registry, decorator, re-export in a table) makes the callers unknown
            for st in m.tree.body:
                if isinstance(st, (ast.FunctionDef, ast.AsyncFunctionDef, ast.ClassDef, ast.Import, ast.ImportFrom)):
                    continue
                for n in ast.walk(st):
                    if isinstance(n, ast.Name) and n.id == f.name:
                        return frozenset()
        if not calls:
            return frozenset()
        common = None
        for g, ref in calls:
            call = None
            for n in own_nodes(g.node):
                if isinstance(n, ast.Call) and n.func is ref:
                    call = n
            if call is None or any(isinstance(a, ast.Starred) for a in call.args) or any(k.arg is None for k in call.keywords):
                return frozenset()
            at = self.facts_of(g)
            facts = at.get(id(call))
            if facts is None:
                continue                      # unreachable call site
            bind = {}
            for i, a in enumerate(call.args):
                if i < len(f.posparams) and isinstance(a, ast.Name):
                    bind[a.id] = f.posparams[i]
            for k in call.keywords:
                if isinstance(k.value, ast.Name) and k.arg in f.params:
                    bind[k.value.id] = k.arg
            here = set()
            for fact in facts:
                # string length facts (strings are immutable) and not-None facts of the bound name itself
                if fact[0] in ("strge", "notnone") and isinstance(fact[1], str) and fact[1] in bind:
                    here.add((fact[0], bind[fact[1]]) + tuple(fact[2:]))
            common = here if common is None else (common & here)
        return frozenset(common or ())

    def run(self):
        for info, s in self.esc.all_sites():
            if s.discharge is None:
                s.discharge = self.try_site(info, s)

    # ------------------------------------------------------------------
    def try_site(self, info, s):
        at = self.facts(info)
        facts = at.get(id(s.node))
        if facts is None:
            # node not reached by the dataflow: unreachable code (after a noreturn / return)
            return "unreachable"
        m = getattr(self, "d_" + s.kind.replace("-", "_"), None)
        if m is None:
            return None
        return m(info, s, facts)

    def has(self, facts, *f):
        return tuple(f) in facts

    def _without_sentinel(self, info, name, node, facts, t):
        """x = next(it, SENTINEL) under a dominating `x is not SENTINEL`: the default is excluded, x is an element of `it`
        -> the type of x without the sentinel's (unknown) type, or t unchanged"""
        if not any(a[0] == "any" for a in t):
            return t
        for fc in facts:
            if fc[0] != "cmp":
                continue
            if fc[1].startswith("not (%s is " % name) and fc[1].endswith(")"):
                sn = fc[1][len("not (%s is " % name):-1]
            elif fc[1].startswith("%s is not " % name):
                sn = fc[1][len("%s is not " % name):]
            else:
                continue
            d_ = self.dominating_def(info, name, node)
            from .db import is_private_sentinel
            if sn.isidentifier() and isinstance(d_, ast.Call) and u(d_.func) == "next" and len(d_.args) == 2 and u(d_.args[1]) == sn \
                    and sn not in info.f.locals and is_private_sentinel(self.ctx.db, info.f.module.name, sn):
                # the element type of the iterator: what next(it) alone would give
                return frozenset(a for a in t if a[0] != "any")
        return t

    # ---- subscripts
    def d_subscript(self, info, s, facts):
        n = s.node
        base, idx = n.value, n.slice
        bt = u(base)
        it = u(idx)
        k = _const_index(idx)
        t = info.type_of(base)
        kinds = {a[0] for a in t}
        # dict with dominating membership test
        if ("in", it, bt) in facts:
            return "dominating membership test %s in %s" % (it, bt)
        # literal displays
        if isinstance(base, (ast.Tuple, ast.List)) and k is not None and -len(base.elts) <= k < len(base.elts):
            return "constant index into a display"
        if isinstance(base, ast.Constant) and isinstance(base.value, str) and k is not None and -len(base.value) <= k < len(base.value):
            return "constant index into a string literal"
        if isinstance(base, ast.Name):
            t = self._without_sentinel(info, bt, n, facts, t)
            kinds = {a[0] for a in t}
        # tuples of known arity
        if k is not None:
            ar = tuple_arities(t, ("notnone", bt) in facts)
            if ar and all((-a <= k < a) for a in ar):
                return "constant index into a tuple of known arity %s" % sorted(ar)
            # results of regex groups()/partition etc are not handled here
            need = k + 1 if k >= 0 else -k
            for f in facts:
                if f[0] in ("strge", "lenge") and f[1] == bt and f[2] >= need:
                    return "length fact len(%s) >= %d" % (bt, f[2])
            if need == 1 and (("truthy", bt) in facts) and not (kinds & {"dict", "set"}):
                return "dominating non-emptiness test of %s" % bt
            # folded module-level sequence
            v = self._fold_global(info, base)
            if isinstance(v, (tuple, list, str)) and -len(v) <= k < len(v):
                return "constant index into a folded table of length %d" % len(v)
            if isinstance(v, dict) and k in v:
                return "constant key of a folded table"
        # first / last element of a copy of a container known to be non-empty:  list(x)[-1], list(x.items())[0]
        if k in (0, -1) and isinstance(base, ast.Call) and u(base.func) in ("list", "tuple", "sorted") and len(base.args) == 1:
            inner = base.args[0]
            if isinstance(inner, ast.Call) and isinstance(inner.func, ast.Attribute) and inner.func.attr in ("items", "keys", "values") and not inner.args:
                inner = inner.func.value
            if ("truthy", u(inner)) in facts:
                return "first/last element of a copy of %s, which a dominating test shows non-empty" % u(inner)
        # index variable bounded by range(len(base)) / enumerate(base)
        if isinstance(idx, ast.Name):
            if ("range", idx.id, "len(%s)" % bt) in facts:
                return "index bound by range(len(%s)) / enumerate" % bt
        # x[a % n] with n == len(x) (folded or textual)
        if isinstance(idx, ast.BinOp) and isinstance(idx.op, ast.Mod):
            nlen = self._int_value(info, idx.right)
            v = self._fold_global(info, base)
            if nlen is not None and isinstance(v, (tuple, list, str)) and nlen == len(v) and nlen > 0:
                return "index is a residue modulo the table length %d" % nlen
        # string key into folded dict with all possible keys? (not generic)
        return None

    def _fold_global(self, info, expr):
        r = self.ctx.db.resolve_dotted(info.f.module, expr) if isinstance(expr, (ast.Name, ast.Attribute)) else None
        if isinstance(expr, ast.Name) and expr.id in info.f.locals:
            return None
        if r and r[0] == "global":
            try:
                return self.ctx.fold.global_value(r[1], r[2])
            except Exception:
                return None
        return None

    def _int_value(self, info, expr):
        """fold an int-valued expression: constants, len(FOLDED), or a local assigned once from such"""
        if isinstance(expr, ast.Constant) and isinstance(expr.value, int):
            return expr.value
        if isinstance(expr, ast.Call) and u(expr.func) == "len" and len(expr.args) == 1:
            v = self._fold_global(info, expr.args[0])
            if v is not None:
                try:
                    return len(v)
                except TypeError:
                    return None
        if isinstance(expr, ast.Name) and expr.id in info.f.locals:
            assigns = [n for n in own_nodes(info.f.node) if isinstance(n, (ast.Assign, ast.AugAssign)) and
                       any(isinstance(t, ast.Name) and t.id == expr.id for t in (n.targets if isinstance(n, ast.Assign) else [n.target]))]
            if len(assigns) == 1 and isinstance(assigns[0], ast.Assign):
                return self._int_value(info, assigns[0].value)
        return None

    # ---- unpacking
    def d_unpack(self, info, s, facts):
        tg = s.node
        n = len(tg.elts)
        p = info.pm.get(id(tg))
        val = None
        elem = False
        if isinstance(p, ast.Assign):
            val = p.value
        elif isinstance(p, (ast.For, ast.comprehension)):
            val = p.iter
            elem = True
        elif isinstance(p, (ast.Tuple, ast.List)):
            # nested target: arity of the corresponding component
            return self._nested_unpack(info, s, facts, p, tg)
        if val is None:
            return None
        if not elem:
            if isinstance(val, (ast.Tuple, ast.List)) and len(val.elts) == n:
                return "display of matching arity"
            t = info.type_of(val)
            if isinstance(val, ast.Name):
                d = self.dominating_def(info, val.id, p)
                if d is not None:
                    t = info.type_of(d)
                t = self._without_sentinel(info, val.id, p, facts, t)
            ar = tuple_arities(t, ("notnone", u(val)) in facts)
            if ar == {n}:
                return "value is a tuple of arity %d on every path" % n
            if isinstance(val, ast.Call) and u(val.func) == "divmod" and n == 2:
                return "divmod returns a pair"
            # an element of a container all of whose stored elements are displays of this arity
            cont = None
            if isinstance(val, ast.Subscript) and isinstance(val.value, ast.Name) and not isinstance(val.slice, ast.Slice):
                cont = val.value.id
            elif isinstance(val, ast.Call) and isinstance(val.func, ast.Attribute) and val.func.attr in ("pop", "get") \
                    and isinstance(val.func.value, ast.Name) and len(val.args) == 1:
                cont = val.func.value.id
            if cont is not None:
                ar2 = self.element_arity(info.f, cont)
                if ar2 == n:
                    return "every element stored into %s (in every function it is passed through) is a display of arity %d" % (cont, n)
            # m.groups() of a folded pattern
            if isinstance(val, ast.Call) and isinstance(val.func, ast.Attribute) and val.func.attr == "groups":
                g = self._pattern_groups(info, val.func.value)
                if g == n:
                    return "groups() of a pattern with %d groups" % n
            return None
        # element of an iterable
        from .tyinf import elem as elem_t
        t = elem_t(info.type_of(val))
        ar = tuple_arities(t)
        if ar == {n}:
            return "elements are tuples of arity %d" % n
        if isinstance(val, ast.Call):
            fn = u(val.func)
            if fn == "enumerate" and n == 2:
                return "enumerate yields pairs"
            if fn.endswith(".items") and n == 2:
                return "items() yields pairs"
            if fn == "zip" and n == len(val.args):
                return "zip of %d iterables" % n
            if fn in ("product", "itertools.product"):
                rep = None
                for k in val.keywords:
                    if k.arg == "repeat" and isinstance(k.value, ast.Constant):
                        rep = k.value.value
                if rep == n or (rep is None and len(val.args) == n):
                    return "product of %d factors" % n
        return None

    def element_arity(self, f, name):
        """n when every value ever stored as an element of the container `name` of f is a tuple / list display of n items.
        The container is followed through parameter passing (to callees it is handed to, and up to the callers that
        supplied it), among module-level functions; anything not understood gives None."""
        db = self.ctx.db
        seen, work = set(), [(f, name)]
        while work and len(seen) < 12:
            g, v = work.pop()
            if (g.qual, v) in seen:
                continue
            seen.add((g.qual, v))
            if v in g.params:
                callers = [c for c in db.funcs.values() if any(g in s_.callees for s_ in self.ctx.cg.sites(c))]
                for c in callers:
                    for s_ in self.ctx.cg.sites(c):
                        if g in s_.callees and isinstance(s_.node, ast.Call):
                            arg = None
                            pos = g.posparams[1:] if g.is_method else g.posparams
                            if v in pos and pos.index(v) < len(s_.node.args):
                                arg = s_.node.args[pos.index(v)]
                            for kw in s_.node.keywords:
                                if kw.arg == v:
                                    arg = kw.value
                            if not isinstance(arg, ast.Name):
                                return None
                            work.append((c, arg.id))
            for s_ in self.ctx.cg.sites(g):
                if not isinstance(s_.node, ast.Call):
                    continue
                for h in s_.callees:
                    pos = h.posparams[1:] if h.is_method else h.posparams
                    for i, a in enumerate(s_.node.args):
                        if isinstance(a, ast.Name) and a.id == v and i < len(pos):
                            work.append((h, pos[i]))
                    for kw in s_.node.keywords:
                        if isinstance(kw.value, ast.Name) and kw.value.id == v and kw.arg in h.params:
                            work.append((h, kw.arg))
        arities = set()
        n_store = 0
        for q, v in seen:
            g = db.funcs[q]
            for nd in own_nodes(g.node):
                val = None
                if isinstance(nd, ast.Assign):
                    for t in nd.targets:
                        if isinstance(t, ast.Subscript) and isinstance(t.value, ast.Name) and t.value.id == v and not isinstance(t.slice, ast.Slice):
                            val = nd.value
                        elif isinstance(t, ast.Name) and t.id == v:
                            # (re)binding of the container itself: empty or a display of displays
                            b = nd.value
                            if isinstance(b, ast.Call) and u(b.func) in ("dict", "list", "deque", "collections.deque") and not b.args and not b.keywords:
                                continue
                            if isinstance(b, (ast.Dict, ast.List)) and not (b.values if isinstance(b, ast.Dict) else b.elts):
                                continue
                            return None
                elif isinstance(nd, ast.Call) and isinstance(nd.func, ast.Attribute) and isinstance(nd.func.value, ast.Name) and nd.func.value.id == v:
                    if nd.func.attr in ("append", "appendleft", "add") and len(nd.args) == 1:
                        val = nd.args[0]
                    elif nd.func.attr == "setdefault" and len(nd.args) == 2:
                        val = nd.args[1]
                    elif nd.func.attr in ("update", "extend", "insert"):
                        return None
                elif isinstance(nd, ast.AugAssign) and isinstance(nd.target, ast.Name) and nd.target.id == v:
                    return None
                if val is not None:
                    n_store += 1
                    if isinstance(val, (ast.Tuple, ast.List)) and not any(isinstance(e, ast.Starred) for e in val.elts):
                        arities.add(len(val.elts))
                    else:
                        return None
        if n_store and len(arities) == 1:
            return arities.pop()
        return None

    def dominating_def(self, info, name, stmt):
        """the right-hand side of the nearest assignment `name = <expr>` that precedes stmt in its own block (walking
        outwards); None if another binding of name could intervene"""
        cur = stmt
        while True:
            p = info.pm.get(id(cur))
            if p is None:
                return None
            for fld in ("body", "orelse", "finalbody"):
                blk = getattr(p, fld, None)
                if isinstance(blk, list) and cur in blk:
                    i = blk.index(cur)
                    for prev in reversed(blk[:i]):
                        binds = [n for n in ast.walk(prev) if isinstance(n, ast.Name) and n.id == name and isinstance(n.ctx, ast.Store)]
                        if binds:
                            if isinstance(prev, ast.Assign) and len(prev.targets) == 1 and isinstance(prev.targets[0], ast.Name) \
                                    and prev.targets[0].id == name:
                                return prev.value
                            return None
            if isinstance(p, (ast.FunctionDef, ast.AsyncFunctionDef, ast.For, ast.While)):
                return None
            cur = p

    def _nested_unpack(self, info, s, facts, parent, tg):
        # ((a, b), c) = value / for (a, c), (b, m) in product(X.items(), Y.items())
        top = parent
        path = [parent.elts.index(tg)]
        while isinstance(info.pm.get(id(top)), (ast.Tuple, ast.List)):
            nxt = info.pm.get(id(top))
            path.insert(0, nxt.elts.index(top))
            top = nxt
        p = info.pm.get(id(top))
        from .tyinf import elem as elem_t
        if isinstance(p, ast.Assign):
            t = info.type_of(p.value)
            if isinstance(p.value, ast.Name):
                d = self.dominating_def(info, p.value.id, p)
                if d is not None:
                    t = info.type_of(d)
            if ("notnone", u(p.value)) in facts:
                t = frozenset(a for a in t if a[0] != "none")
        elif isinstance(p, (ast.For, ast.comprehension)):
            t = elem_t(info.type_of(p.iter))
            if isinstance(p.iter, ast.Call) and u(p.iter.func) in ("product", "itertools.product") and \
                    all(isinstance(a, ast.Call) and u(a.func).endswith(".items") for a in p.iter.args) and len(tg.elts) == 2:
                return "product of items(): each component is a pair"
        else:
            return None
        for i in path:
            nt = set()
            for a in t:
                if a[0] == "tuple" and i < len(a[1]):
                    nt |= a[1][i]
                else:
                    return None
            t = frozenset(nt)
        ar = tuple_arities(t)
        if ar == {len(tg.elts)}:
            return "nested component is a tuple of arity %d" % len(tg.elts)
        return None

    def _pattern_groups(self, info, mexpr):
        """number of groups of the pattern whose match object `mexpr` is"""
        if isinstance(mexpr, ast.Name):
            defs = [n for n in own_nodes(info.f.node) if isinstance(n, ast.Assign) and len(n.targets) == 1
                    and isinstance(n.targets[0], ast.Name) and n.targets[0].id == mexpr.id]
            if len(defs) != 1:
                return None
            call = defs[0].value
        else:
            call = mexpr
        if isinstance(call, ast.Call) and isinstance(call.func, ast.Attribute) and call.func.attr in ("match", "fullmatch", "search"):
            v = self._fold_global(info, call.func.value)
            from .fold import FPattern
            if isinstance(v, FPattern):
                return _re.compile(v.pattern, v.flags).groups
        return None

    # ---- pops
    def d_pop(self, info, s, facts):
        n = s.node
        if isinstance(n.func, ast.Attribute) and not u(n.func).startswith("heapq."):
            recv = u(n.func.value)
            if n.args and ("in", u(n.args[0]), recv) in facts:
                return "dominating membership test of the popped key"
            if ("truthy", recv) in facts:
                return "dominating non-emptiness test of %s" % recv
        elif n.args:
            recv = u(n.args[0])
            if ("truthy", recv) in facts:
                return "dominating non-emptiness test of %s" % recv
        return None

    def d_none_deref(self, info, s, facts):
        nm = s.node.value.id
        if ("notnone", nm) in facts or ("truthy", nm) in facts:
            return "dominating test that %s is not None" % nm
        # nearest dominating definition assigns a value that cannot be None
        stmt = s.node
        while stmt is not None and not isinstance(stmt, ast.stmt):
            stmt = info.pm.get(id(stmt))
        if stmt is not None:
            d = self.dominating_def(info, nm, stmt)
            if d is not None:
                if isinstance(d, ast.Call):
                    site = {id(x.node): x for x in self.ctx.cg.sites(info.f, info.consts)}.get(id(d))
                    opt = self.esc.optional_returning()
                    if site is not None and site.callees and not any(g.qual in opt for g in site.callees):
                        t = info.type_of(d)
                        if t and not any(a[0] == "none" for a in t):
                            return "assigned from a call that never returns None"
                    if site is not None and not site.callees and isinstance(d.func, ast.Attribute) and d.func.attr in ("popleft", "pop"):
                        t = info.type_of(d)
                        if t and not any(a[0] in ("none", "any") for a in t):
                            return "element of a container that holds no None"
                elif isinstance(d, (ast.Tuple, ast.List, ast.Dict, ast.Constant, ast.BinOp, ast.JoinedStr)) and \
                        not (isinstance(d, ast.Constant) and d.value is None):
                    return "assigned a non-None value"
        return None

    def d_next(self, info, s, facts):
        return None

    def d_div(self, info, s, facts):
        n = s.node
        right = n.right if isinstance(n, ast.BinOp) else n.value
        v = self._int_value(info, right)
        if v is not None and v != 0:
            return "divisor folds to the non-zero constant %d" % v
        if isinstance(right, ast.Constant) and isinstance(right.value, (int, float)) and right.value != 0:
            return "non-zero constant divisor"
        return None

    def d_index(self, info, s, facts):
        n = s.node
        # row.index(1) etc: no generic discharge
        return None

    def d_int(self, info, s, facts):
        return None

    def d_assert(self, info, s, facts):
        t = s.node.test
        # guard facts that literally contain the asserted comparison
        if ("cmp", u(t)) in facts:
            return "dominating test %s" % u(t)
        return None

    # ---- explicit raises in dead branches
    def d_explicit(self, info, s, facts):
        n = s.node
        f = info.f
        # else-branch of an isinstance chain over a parameter whose inferred types are covered
        # `if not isinstance(p, (A, B)): raise ...` over a parameter whose inferred types are all covered
        par = info.pm.get(id(n))
        if isinstance(par, ast.If) and any(x is n for x in par.body) and isinstance(par.test, ast.UnaryOp) and isinstance(par.test.op, ast.Not):
            t = par.test.operand
            if isinstance(t, ast.Call) and u(t.func) == "isinstance" and len(t.args) == 2 and isinstance(t.args[0], ast.Name) \
                    and t.args[0].id in f.params and not any(
                        isinstance(x, ast.Name) and x.id == t.args[0].id and isinstance(x.ctx, ast.Store) for x in own_nodes(f.node)):
                ts = t.args[1].elts if isinstance(t.args[1], ast.Tuple) else [t.args[1]]
                covered = {u(x) for x in ts}
                kinds = {a[0] for a in self.ctx.ty.param.get((f.qual, t.args[0].id), frozenset())}
                if kinds and kinds <= covered:
                    return "dead branch: parameter %s is always %s" % (t.args[0].id, sorted(kinds))
        chain = self._if_chain_of(info, n)
        if not chain:
            chain = self._early_return_chain(info, n)
        elif chain[1]:
            # tests that left the block before the chain started (``if T: break`` ... ``if A: .. elif B: .. else: raise``)
            pre = self._early_return_chain(info, self._chain_head_stmt(info, n))
            if pre:
                chain = (pre[0] + chain[0], True)
        if chain:
            tests, in_else = chain
            if in_else:
                # isinstance chain
                names = set()
                covered = set()
                ok = True
                for t in tests:
                    if isinstance(t, ast.Call) and u(t.func) == "isinstance" and len(t.args) == 2 and isinstance(t.args[0], ast.Name):
                        names.add(t.args[0].id)
                        ts = t.args[1].elts if isinstance(t.args[1], ast.Tuple) else [t.args[1]]
                        covered |= {u(x) for x in ts}
                    else:
                        ok = False
                if ok and len(names) == 1:
                    p = names.pop()
                    if p in f.params:
                        pt = self.ctx.ty.param.get((f.qual, p), frozenset())
                        kinds = {a[0] for a in pt}
                        if kinds and kinds <= covered:
                            return "dead branch: parameter %s is always %s" % (p, sorted(kinds))
                # enum exhaustiveness
                members = set()
                enumcls = None
                ok = True
                for t in tests:
                    if isinstance(t, ast.Compare) and len(t.ops) == 1 and isinstance(t.ops[0], (ast.Eq, ast.Is)) \
                            and isinstance(t.comparators[0], ast.Attribute):
                        r = self.ctx.db.resolve_dotted(f.module, t.comparators[0].value)
                        if r and r[0] == "class":
                            enumcls = r[1]
                            members.add(t.comparators[0].attr)
                            continue
                    # interleaved unrelated tests (e.g. `elif chain_start:`) are tolerated
                if enumcls is not None:
                    bases = [unparse(b) for b in enumcls.node.bases]
                    if any(b.endswith("Enum") for b in bases):
                        allm = {k for k, st in enumcls.class_attrs.items()}
                        if allm and allm <= members:
                            return "dead branch: if/elif chain covers every member of %s" % enumcls.name
        return None

    def _chain_head_stmt(self, info, node):
        """the If statement that heads the if/elif chain enclosing node"""
        cur = node
        head = None
        while True:
            p = info.pm.get(id(cur))
            if p is None or isinstance(p, (ast.FunctionDef, ast.For, ast.While, ast.Try)):
                return head if head is not None else node
            if isinstance(p, ast.If):
                head = p
            cur = p

    def _early_return_chain(self, info, node):
        """a raise that follows a run of ``if T: <always exits>`` statements in the same block is the else-branch of that
        chain (early-return spelling of if / elif / else)"""
        stmt = node if isinstance(node, ast.stmt) else None
        cur = node
        while stmt is None:
            cur = info.pm.get(id(cur))
            if cur is None:
                return None
            if isinstance(cur, ast.stmt):
                stmt = cur
        parent = info.pm.get(id(stmt))
        block = None
        for fld in ("body", "orelse", "finalbody"):
            b = getattr(parent, fld, None) if parent is not None else None
            if isinstance(b, list) and any(x is stmt for x in b):
                block = b
        if block is None and any(x is stmt for x in info.f.node.body):
            block = info.f.node.body
        if block is None:
            return None
        i = [k for k, x in enumerate(block) if x is stmt][0]
        tests = []
        k = i - 1
        def leaves(body):
            return always_exits(body) or (body and isinstance(body[-1], (ast.Break, ast.Continue)))
        while k >= 0 and isinstance(block[k], ast.If) and not block[k].orelse and leaves(block[k].body):
            tests.append(block[k].test)
            k -= 1
        if not tests:
            return None
        return list(reversed(tests)), True

    def _if_chain_of(self, info, node):
        """(tests of the enclosing if/elif chain, node is in the final else)"""
        cur = node
        while True:
            p = info.pm.get(id(cur))
            if p is None:
                return None
            if isinstance(p, ast.If):
                # climb to the head of the chain
                head = p
                in_else = any(cur is x or _contains(x, cur) for x in p.orelse)
                while True:
                    pp = info.pm.get(id(head))
                    if isinstance(pp, ast.If) and len(pp.orelse) == 1 and pp.orelse[0] is head:
                        head = pp
                    else:
                        break
                tests = []
                c = head
                last = head
                while True:
                    tests.append(c.test)
                    last = c
                    if len(c.orelse) == 1 and isinstance(c.orelse[0], ast.If):
                        c = c.orelse[0]
                    else:
                        break
                final_else = any(cur is x or _contains(x, cur) for x in last.orelse) and p is last
                if in_else and p is last:
                    return tests, True
                return tests, False
            if isinstance(p, (ast.FunctionDef, ast.For, ast.While, ast.Try)):
                return None
            cur = p


def _contains(root, node):
    for x in ast.walk(root):
        if x is node:
            return True
    return False
