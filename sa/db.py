"""E0 (part 1): program database — modules, classes, functions, import resolution."""
import ast
import builtins
import os

from . import AnalysisError, PKG, REPO

BUILTINS = set(dir(builtins))


def dotted(node):
    """ast expr -> 'a.b.c' or None"""
    if isinstance(node, ast.Name):
        return node.id
    if isinstance(node, ast.Attribute):
        b = dotted(node.value)
        return None if b is None else b + "." + node.attr
    return None


_PURE_BUILTINS = {"len", "range", "enumerate", "reversed", "sorted", "list", "tuple", "set", "iter", "zip", "isinstance", "id", "bool",
                  "any", "all", "sum", "min", "max", "repr", "str", "int", "print"}
_MUTATORS = {"append", "extend", "insert", "pop", "remove", "clear", "sort", "reverse", "add", "discard", "update", "setdefault",
             "popitem", "appendleft", "popleft", "__setitem__", "__delitem__"}


def _own_scope_nodes(fn):
    """nodes of fn's own scope (nested defs / lambdas / classes are entered only for their decorators and defaults)"""
    out = []
    stack = list(fn.body)
    while stack:
        n = stack.pop()
        out.append(n)
        if isinstance(n, (ast.FunctionDef, ast.AsyncFunctionDef, ast.Lambda, ast.ClassDef)):
            continue
        stack.extend(ast.iter_child_nodes(n))
    return out


def inline_single_use_aliases(tree):
    """Normalisation pass (run once, right after parsing): locals that merely *name* something are replaced by what they name,
    so that every analysis sees one spelling.  A local N qualifies when it is bound exactly once in its function, by a plain
    assignment (or a tuple assignment of such pairs), is not captured by a nested function, every use of N lies lexically after
    the assignment inside the same statement list, and the right-hand side is one of

      A  X.attr          with N used in call position only            (add_atom = mol.add_atom;  heappop = heapq.heappop)
      B  X is None / X is not None                                    (attributable = attribute_stack is not None)
      C  X[<constant slice>]   with X never mutated or handed to a non-builtin call in the function
                                                                      (symbol_kind = symbol[-4:-2])
      D  a str / int literal                                          (err_line = "...{}...")

    where X, Y are parameters or locals bound once, not re-bound after the assignment in that statement list.  The value of N at
    each use is then the value the expression has there, so the substitution preserves behaviour (bound-method identity and
    attribute hooks aside).  Positions are kept (copy_location)."""
    import copy
    for fn in ast.walk(tree):
        if not isinstance(fn, (ast.FunctionDef, ast.AsyncFunctionDef)):
            continue
        for _round in range(3):
            own = _own_scope_nodes(fn)
            params = {a.arg for a in fn.args.args + fn.args.kwonlyargs + fn.args.posonlyargs} | \
                ({fn.args.vararg.arg} if fn.args.vararg else set()) | ({fn.args.kwarg.arg} if fn.args.kwarg else set())
            stores, loads = {}, {}
            declared = set()
            comp_bound = set()
            for n in own:
                if isinstance(n, ast.Name):
                    (stores if isinstance(n.ctx, (ast.Store, ast.Del)) else loads).setdefault(n.id, []).append(n)
                elif isinstance(n, (ast.Global, ast.Nonlocal)):
                    declared |= set(n.names)
                elif isinstance(n, ast.ExceptHandler) and n.name:
                    stores.setdefault(n.name, []).append(n)
                elif isinstance(n, ast.comprehension):
                    comp_bound |= {x.id for x in ast.walk(n.target) if isinstance(x, ast.Name)}
                elif isinstance(n, (ast.Import, ast.ImportFrom)):
                    for a in n.names:
                        stores.setdefault((a.asname or a.name).split(".")[0], []).append(n)
            captured = set()
            for n in own:
                if isinstance(n, (ast.FunctionDef, ast.AsyncFunctionDef, ast.Lambda, ast.ClassDef)):
                    captured |= {x.id for x in ast.walk(n) if isinstance(x, ast.Name)}
            parent = {}
            for n in [fn] + own:
                for c in ast.iter_child_nodes(n):
                    parent[id(c)] = n
            mutated = set()
            passed = set()
            for n in own:
                if isinstance(n, ast.Call):
                    if isinstance(n.func, ast.Attribute) and isinstance(n.func.value, ast.Name) and n.func.attr in _MUTATORS:
                        mutated.add(n.func.value.id)
                    pure = isinstance(n.func, ast.Name) and n.func.id in _PURE_BUILTINS and n.func.id not in stores and n.func.id not in params
                    if not pure:
                        for a in list(n.args) + [k.value for k in n.keywords]:
                            a = a.value if isinstance(a, ast.Starred) else a
                            if isinstance(a, ast.Name):
                                passed.add(a.id)
                elif isinstance(n, (ast.Subscript, ast.Attribute)) and isinstance(n.ctx, (ast.Store, ast.Del)) and isinstance(n.value, ast.Name):
                    mutated.add(n.value.id)
                elif isinstance(n, ast.AugAssign) and isinstance(n.target, ast.Name):
                    mutated.add(n.target.id)

            def stable(x):      # a name whose binding cannot change under our feet
                return isinstance(x, ast.Name) and x.id not in declared and x.id not in comp_bound and \
                    ((x.id in params and x.id not in stores) or (x.id not in params and len(stores.get(x.id, ())) <= 1))

            def const_bound(e):
                return e is None or isinstance(e, ast.Constant) or (isinstance(e, ast.UnaryOp) and isinstance(e.op, ast.USub) and isinstance(e.operand, ast.Constant))

            def kind(e):
                if isinstance(e, ast.Attribute) and isinstance(e.ctx, ast.Load) and stable(e.value):
                    return "A"
                if isinstance(e, ast.Compare) and len(e.ops) == 1 and isinstance(e.ops[0], (ast.Is, ast.IsNot)) and stable(e.left) \
                        and isinstance(e.comparators[0], ast.Constant) and e.comparators[0].value is None:
                    return "B"
                if isinstance(e, ast.Subscript) and isinstance(e.ctx, ast.Load) and stable(e.value) and e.value.id not in mutated \
                        and e.value.id not in passed:
                    sl = e.slice
                    if isinstance(sl, ast.Slice) and const_bound(sl.lower) and const_bound(sl.upper) and sl.step is None:
                        return "C"
                if isinstance(e, ast.Constant) and type(e.value) in (str, int):
                    return "D"
                return None
            done = False
            for st in own:
                if not (isinstance(st, ast.Assign) and len(st.targets) == 1):
                    continue
                t, v = st.targets[0], st.value
                if isinstance(t, ast.Name):
                    pairs = [(t, v)]
                elif isinstance(t, ast.Tuple) and isinstance(v, ast.Tuple) and len(t.elts) == len(v.elts) and all(isinstance(x, ast.Name) for x in t.elts):
                    pairs = list(zip(t.elts, v.elts))
                else:
                    continue
                blk = None
                par = parent.get(id(st))
                for fld in ("body", "orelse", "finalbody"):
                    b = getattr(par, fld, None)
                    if isinstance(b, list) and any(x is st for x in b):
                        blk = b
                if blk is None:
                    continue
                i = next(k for k, x in enumerate(blk) if x is st)
                after = {id(x) for s2 in blk[i + 1:] for x in ast.walk(s2)}
                ok = True
                for tn, e in pairs:
                    N = tn.id
                    k = kind(e)
                    if k is None or N in params or N in declared or N in captured or N in comp_bound or len(stores.get(N, ())) != 1 \
                            or not loads.get(N) or not all(id(u) in after for u in loads[N]):
                        ok = False
                        break
                    if k == "A" and not all(isinstance(parent.get(id(u)), ast.Call) and parent[id(u)].func is u for u in loads[N]):
                        ok = False
                        break
                    # the names the expression reads are not re-bound after the assignment in this statement list
                    for x in ast.walk(e):
                        if isinstance(x, ast.Name) and any(id(s_) in after for s_ in stores.get(x.id, ()) if isinstance(s_, ast.AST)):
                            ok = False
                    if len({p[0].id for p in pairs}) != len(pairs) or any(isinstance(x, ast.Name) and x.id in {p[0].id for p in pairs} for x in ast.walk(e)):
                        ok = False
                if not ok:
                    continue
                for tn, e in pairs:
                    for u in loads[tn.id]:
                        new = ast.copy_location(copy.deepcopy(e), u)
                        for x in ast.walk(new):
                            ast.copy_location(x, u)
                        pu = parent[id(u)]
                        for fld, val in ast.iter_fields(pu):
                            if val is u:
                                setattr(pu, fld, new)
                            elif isinstance(val, list):
                                for j, y in enumerate(val):
                                    if y is u:
                                        val[j] = new
                if len(blk) > 1:
                    del blk[i]
                else:
                    blk[i] = ast.copy_location(ast.Pass(), st)
                done = True
                break          # tables are stale: recompute
            if not done:
                break
    return tree


class Module:
    def __init__(self, name, path, src, root=REPO):
        self.name = name
        self.root = root
        self.path = path
        self.src = src
        self.tree = inline_single_use_aliases(ast.parse(src, filename=path))
        self.imports = {}        # local name -> (module, attr or None)
        self.defs = {}           # name -> Func | Cls
        self.assigned = {}       # name -> [stmt] (module-level bindings, in order)
        self.is_pkg_init = path.endswith("__init__.py")

    @property
    def rel(self):
        return os.path.relpath(self.path, self.root)


class Cls:
    def __init__(self, module, node):
        self.module = module
        self.node = node
        self.name = node.name
        self.qual = module.name + "." + node.name
        self.methods = {}
        self.decorators = [dotted(d.func if isinstance(d, ast.Call) else d) for d in node.decorator_list]
        self.is_dataclass = any(d and d.split(".")[-1] == "dataclass" for d in self.decorators)
        self.base_exprs = node.bases
        self.class_attrs = {}    # name -> stmt (class-level assignments / annotations)

    def __repr__(self):
        return "<Cls %s>" % self.qual


class Func:
    def __init__(self, module, node, cls=None, outer=None):
        self.module = module
        self.node = node
        self.cls = cls
        self.outer = outer
        self.name = node.name
        if cls is not None:
            self.qual = cls.qual + "." + node.name
        elif outer is not None:
            self.qual = outer.qual + ".<locals>." + node.name
        else:
            self.qual = module.name + "." + node.name
        a = node.args
        self.posparams = [x.arg for x in a.posonlyargs + a.args]
        self.kwonly = [x.arg for x in a.kwonlyargs]
        self.vararg = a.vararg.arg if a.vararg else None
        self.kwarg = a.kwarg.arg if a.kwarg else None
        self.params = self.posparams + self.kwonly + ([self.vararg] if self.vararg else []) + \
            ([self.kwarg] if self.kwarg else [])
        nd = len(a.defaults)
        self.defaults = {}
        for p, d in zip(self.posparams[len(self.posparams) - nd:], a.defaults):
            self.defaults[p] = d
        for p, d in zip(a.kwonlyargs, a.kw_defaults):
            if d is not None:
                self.defaults[p.arg] = d
        self.annotations = {x.arg: x.annotation for x in a.posonlyargs + a.args + a.kwonlyargs
                            if x.annotation is not None}
        self.decorators = [dotted(d.func if isinstance(d, ast.Call) else d) for d in node.decorator_list]
        self.is_property = any(d == "property" for d in self.decorators)
        self.is_lru = any(d and d.split(".")[-1] in ("lru_cache", "cache") for d in self.decorators)
        self.is_static = any(d in ("staticmethod",) for d in self.decorators)
        self.is_generator = any(isinstance(n, (ast.Yield, ast.YieldFrom)) for n in own_nodes(node))
        self.declared_global = set()
        self.declared_nonlocal = set()
        for n in own_nodes(node):
            if isinstance(n, ast.Global):
                self.declared_global.update(n.names)
            elif isinstance(n, ast.Nonlocal):
                self.declared_nonlocal.update(n.names)
        self.local_imports = {}
        for n in own_nodes(node):
            if isinstance(n, ast.Import):
                for al in n.names:
                    if al.asname:
                        self.local_imports[al.asname] = (al.name, None)
                    else:
                        self.local_imports[al.name.split(".")[0]] = (al.name.split(".")[0], None)
            elif isinstance(n, ast.ImportFrom) and not n.level:
                for al in n.names:
                    self.local_imports[al.asname or al.name] = (n.module or "", al.name)
        self.locals = set(self.params)
        for n in own_nodes(node):
            for t in binding_targets(n):
                if t not in self.declared_global and t not in self.declared_nonlocal:
                    self.locals.add(t)

    @property
    def is_method(self):
        return self.cls is not None and not self.is_static

    @property
    def lineno(self):
        return self.node.lineno

    def loc(self, node=None):
        n = node if node is not None and hasattr(node, "lineno") else self.node
        return "%s:%d" % (self.module.rel, n.lineno)

    def __repr__(self):
        return "<Func %s>" % self.qual


def own_nodes(fnode):
    """All AST nodes of a function body, not descending into nested def/class bodies
    (lambdas and comprehensions are part of the function)."""
    stack = list(fnode.body) if hasattr(fnode, "body") and isinstance(fnode.body, list) else [fnode.body]
    # also decorators/defaults are evaluated in the enclosing scope: excluded here
    while stack:
        n = stack.pop()
        yield n
        for c in ast.iter_child_nodes(n):
            if isinstance(c, (ast.FunctionDef, ast.AsyncFunctionDef, ast.ClassDef)):
                yield c  # the def statement itself binds a name
                continue
            stack.append(c)


def target_names(t):
    if isinstance(t, ast.Name):
        yield t.id
    elif isinstance(t, (ast.Tuple, ast.List)):
        for e in t.elts:
            yield from target_names(e)
    elif isinstance(t, ast.Starred):
        yield from target_names(t.value)


def binding_targets(n):
    """names bound by node n itself (not children)"""
    if isinstance(n, ast.Assign):
        for t in n.targets:
            yield from target_names(t)
    elif isinstance(n, (ast.AugAssign, ast.AnnAssign)):
        yield from target_names(n.target)
    elif isinstance(n, (ast.For, ast.AsyncFor)):
        yield from target_names(n.target)
    elif isinstance(n, ast.comprehension):
        yield from target_names(n.target)
    elif isinstance(n, (ast.With, ast.AsyncWith)):
        for it in n.items:
            if it.optional_vars is not None:
                yield from target_names(it.optional_vars)
    elif isinstance(n, ast.ExceptHandler):
        if n.name:
            yield n.name
    elif isinstance(n, (ast.FunctionDef, ast.AsyncFunctionDef, ast.ClassDef)):
        yield n.name
    elif isinstance(n, (ast.Import, ast.ImportFrom)):
        for a in n.names:
            yield (a.asname or a.name).split(".")[0]
    elif isinstance(n, ast.NamedExpr):
        yield from target_names(n.target)
    elif isinstance(n, ast.Lambda):
        for x in n.args.args + n.args.kwonlyargs + n.args.posonlyargs:
            yield x.arg


class DB:
    def __init__(self, repo=REPO, pkg=PKG):
        self.repo = repo
        self.pkg = pkg
        self.modules = {}
        self.funcs = {}
        self.classes = {}
        root = os.path.join(repo, pkg)
        if not os.path.isdir(root):
            raise AnalysisError("package directory %s not found" % root)
        for dp, dn, fn in sorted(os.walk(root)):
            dn[:] = sorted(d for d in dn if d != "__pycache__")
            for f in sorted(fn):
                if not f.endswith(".py"):
                    continue
                path = os.path.join(dp, f)
                rel = os.path.relpath(path, repo)[:-3].replace(os.sep, ".")
                if rel.endswith(".__init__"):
                    rel = rel[:-9]
                with open(path, encoding="utf-8") as fh:
                    src = fh.read()
                try:
                    m = Module(rel, path, src, repo)
                except SyntaxError as e:
                    raise AnalysisError("cannot parse %s: %s" % (path, e))
                self.modules[rel] = m
        for m in self.modules.values():
            self._index_module(m)
        self.method_index = {}
        for c in self.classes.values():
            for name, f in c.methods.items():
                self.method_index.setdefault(name, []).append(f)

    # ------------------------------------------------------------------
    def _index_module(self, m):
        def visit_body(body):
            for st in body:
                if isinstance(st, (ast.FunctionDef, ast.AsyncFunctionDef)):
                    f = Func(m, st)
                    m.defs[st.name] = f
                    self._add_func(f)
                elif isinstance(st, ast.ClassDef):
                    c = Cls(m, st)
                    m.defs[st.name] = c
                    self.classes[c.qual] = c
                    for cs in st.body:
                        if isinstance(cs, (ast.FunctionDef, ast.AsyncFunctionDef)):
                            f = Func(m, cs, cls=c)
                            c.methods[cs.name] = f
                            self._add_func(f)
                        elif isinstance(cs, ast.Assign):
                            for t in cs.targets:
                                for nm in target_names(t):
                                    c.class_attrs[nm] = cs
                        elif isinstance(cs, ast.AnnAssign) and isinstance(cs.target, ast.Name):
                            c.class_attrs[cs.target.id] = cs
                elif isinstance(st, ast.Import):
                    for a in st.names:
                        if a.asname:
                            m.imports[a.asname] = (a.name, None)
                        else:
                            m.imports[a.name.split(".")[0]] = (a.name.split(".")[0], None)
                elif isinstance(st, ast.ImportFrom):
                    base = st.module or ""
                    if st.level:
                        parts = m.name.split(".")
                        if not m.is_pkg_init:
                            parts = parts[:-1]
                        parts = parts[:len(parts) - (st.level - 1)]
                        base = ".".join(parts + ([st.module] if st.module else []))
                    for a in st.names:
                        m.imports[a.asname or a.name] = (base, a.name)
                elif isinstance(st, (ast.If, ast.Try, ast.With, ast.For, ast.While)):
                    for fld in ("body", "orelse", "finalbody"):
                        visit_body(getattr(st, fld, []) or [])
                    for h in getattr(st, "handlers", []) or []:
                        visit_body(h.body)
                for nm in binding_targets(st):
                    if not isinstance(st, (ast.Import, ast.ImportFrom, ast.FunctionDef, ast.ClassDef)):
                        m.assigned.setdefault(nm, []).append(st)
        visit_body(m.tree.body)

    def _add_func(self, f):
        self.funcs[f.qual] = f
        # nested functions
        for n in own_nodes(f.node):
            if isinstance(n, (ast.FunctionDef, ast.AsyncFunctionDef)) and n is not f.node:
                g = Func(f.module, n, cls=None, outer=f)
                self._add_func(g)

    # ------------------------------------------------------------------
    def resolve_global(self, module, name, _depth=0):
        """Resolve a module-level name.  Returns a tuple:
        ('func', Func) ('class', Cls) ('global', module_name, name) ('module', dotted)
        ('ext', 'mod.attr') ('builtin', name) or None"""
        if _depth > 10:
            return None
        m = module if isinstance(module, Module) else self.modules.get(module)
        if m is None:
            return None
        if name in m.defs:
            d = m.defs[name]
            return ("func", d) if isinstance(d, Func) else ("class", d)
        if name in m.assigned:
            return ("global", m.name, name)
        if name in m.imports:
            mod, attr = m.imports[name]
            if attr is None:
                if mod in self.modules:
                    return ("module", mod)
                return ("module", mod)
            if mod in self.modules:
                r = self.resolve_global(mod, attr, _depth + 1)
                if r is not None:
                    return r
                sub = mod + "." + attr
                if sub in self.modules:
                    return ("module", sub)
                return None
            if (mod + "." + attr) in self.modules:
                return ("module", mod + "." + attr)
            return ("ext", mod + "." + attr)
        if name in BUILTINS:
            return ("builtin", name)
        return None

    def resolve_dotted(self, module, expr):
        """Resolve Name / Attribute chains that denote module-level entities."""
        if isinstance(expr, ast.Name):
            return self.resolve_global(module, expr.id)
        if isinstance(expr, ast.Attribute):
            base = self.resolve_dotted(module, expr.value)
            if base is None:
                return None
            if base[0] == "module":
                if base[1] in self.modules:
                    r = self.resolve_global(base[1], expr.attr)
                    if r is not None:
                        return r
                    if base[1] + "." + expr.attr in self.modules:
                        return ("module", base[1] + "." + expr.attr)
                    return None
                return ("ext", base[1] + "." + expr.attr)
            if base[0] == "ext":
                return ("ext", base[1] + "." + expr.attr)
            if base[0] == "class":
                c = base[1]
                if expr.attr in c.methods:
                    return ("func", c.methods[expr.attr])
                return ("classattr", c, expr.attr)
            if base[0] == "func":
                return ("funcattr", base[1], expr.attr)
        return None

    def public_api(self):
        init = self.modules.get(self.pkg)
        if init is None:
            raise AnalysisError("no package __init__")
        names = None
        for st in init.tree.body:
            if isinstance(st, ast.Assign) and any(isinstance(t, ast.Name) and t.id == "__all__" for t in st.targets):
                try:
                    names = list(ast.literal_eval(st.value))
                except Exception:
                    raise AnalysisError("__all__ is not a literal")
        if names is None:
            raise AnalysisError("__all__ not found")
        out = {}
        for n in names:
            r = self.resolve_global(init, n)
            if r is None:
                raise AnalysisError("public name %s does not resolve" % n)
            out[n] = r
        return out

    def func(self, qual):
        f = self.funcs.get(qual)
        if f is None:
            raise AnalysisError("anchor function %s not found" % qual)
        return f

    def class_bases(self, c):
        """Resolved base classes: list of Cls or ('builtin'/'ext', name)"""
        out = []
        for b in c.base_exprs:
            r = self.resolve_dotted(c.module, b)
            if r and r[0] == "class":
                out.append(r[1])
            elif r:
                out.append(r)
        return out

    def exc_ancestors(self, r):
        """All ancestor class names (strings) of an exception class reference.
        Package classes by qual; builtins by builtin MRO."""
        names = []
        if isinstance(r, Cls):
            names.append(r.qual)
            for b in self.class_bases(r):
                names.extend(self.exc_ancestors(b))
        elif isinstance(r, tuple) and r[0] == "builtin":
            obj = getattr(builtins, r[1], None)
            if isinstance(obj, type):
                names.extend(k.__name__ for k in obj.__mro__)
        elif isinstance(r, str):
            obj = getattr(builtins, r, None)
            if isinstance(obj, type):
                names.extend(k.__name__ for k in obj.__mro__)
            elif r in self.classes:
                return self.exc_ancestors(self.classes[r])
            else:
                names.append(r)
        return names


def unparse(n):
    try:
        return ast.unparse(n)
    except Exception:
        return "<?>"


def is_private_sentinel(db, mod, name):
    """`NAME = object()` bound once at module level and used only as a default (of next / getattr / .get / .pop) or as an
    operand of `is` / `is not`, and not imported elsewhere: nothing but that default can ever be identical to it"""
    m = db.modules.get(mod)
    stmts = m.assigned.get(name, []) if m is not None else []
    if not (len(stmts) == 1 and isinstance(stmts[0], ast.Assign) and isinstance(stmts[0].value, ast.Call) and not stmts[0].value.args
            and not stmts[0].value.keywords and unparse(stmts[0].value.func) == "object"):
        return False
    allowed = set()
    for n in ast.walk(m.tree):
        if isinstance(n, ast.Call) and unparse(n.func) in ("next", "getattr") and len(n.args) >= 2:
            allowed.add(id(n.args[-1]))
        if isinstance(n, ast.Call) and isinstance(n.func, ast.Attribute) and n.func.attr in ("get", "pop") and len(n.args) == 2:
            allowed.add(id(n.args[1]))
        if isinstance(n, ast.Compare) and all(isinstance(o, (ast.Is, ast.IsNot)) for o in n.ops):
            for x in [n.left] + list(n.comparators):
                allowed.add(id(x))
    for n in ast.walk(m.tree):
        if isinstance(n, ast.Name) and n.id == name and isinstance(n.ctx, ast.Load) and id(n) not in allowed:
            return False
        if isinstance(n, ast.Global) and name in n.names:
            return False
    for m2 in db.modules.values():
        if m2 is not m and any(isinstance(n, ast.ImportFrom) and any(a.name == name for a in n.names) for n in ast.walk(m2.tree)):
            return False
    return True
