"""E2/E3: path-sensitive abstract interpretation of function bodies with a (bounded-disjunctive)
linear-fact domain.  Values are symbolic; branches split states; loops are summarised by havoc +
Houdini-checked invariants; small package helpers are inlined.  Entailment is Fourier–Motzkin
(sa.lin).  Nothing is executed concretely and no solver is involved.

Used for: facts at call sites (C01 V1–V5, C02 T6), transfer-function summaries (C02 T1–T4,
C06 Q1–Q2, C07 A3, C15 U5, C03 R1–R2, C16 I3), and linear discharges of E1.
"""
import ast
import itertools
from fractions import Fraction

from . import AnalysisError
from .db import Func, Cls, unparse, own_nodes
from .lin import Lin, ge, le, gt, lt, eq, feasible, entails, influence, negate
from .fold import FoldError, FPattern, FPartial, FFunc, FClass

MAX_STATES = 1500
MAX_UNROLL = 40
MAX_INLINE_DEPTH = 4


# ----------------------------------------------------------------------------- values
class V:
    pass


class Num(V):
    __slots__ = ("lin",)

    def __init__(self, lin):
        self.lin = lin if isinstance(lin, Lin) else Lin.const(lin)

    def __repr__(self):
        return "Num(%r)" % (self.lin,)


class Con(V):
    __slots__ = ("value",)

    def __init__(self, value):
        self.value = value

    def __repr__(self):
        return "Con(%r)" % (self.value,)


class Tup(V):
    __slots__ = ("items", "kind")

    def __init__(self, items, kind="tuple"):
        self.items = tuple(items)
        self.kind = kind

    def __repr__(self):
        return "%s%r" % (self.kind, self.items)


class Obj(V):
    __slots__ = ("oid", "cls", "fields")

    def __init__(self, oid, cls=None, fields=None):
        self.oid = oid
        self.cls = cls
        self.fields = fields or {}

    def __repr__(self):
        return "Obj(%s%s)" % (self.oid, (":" + self.cls.split(".")[-1]) if self.cls else "")


class Str(V):
    """concatenation of parts: ('lit', s) | ('rep', s, Lin) | ('sym', term)"""
    __slots__ = ("parts",)

    def __init__(self, parts):
        self.parts = tuple(parts)

    def __repr__(self):
        return "Str%r" % (self.parts,)


class Unk(V):
    __slots__ = ("term",)

    def __init__(self, term):
        self.term = term

    def __repr__(self):
        return "Unk(%s)" % (self.term,)


class Bool(V):
    __slots__ = ("f",)

    def __init__(self, f):
        self.f = f

    def __repr__(self):
        return "Bool(%r)" % (self.f,)


class Ref(V):
    """reference to a function / class / external / folded constant container"""
    __slots__ = ("kind", "target", "name")

    def __init__(self, kind, target, name=None):
        self.kind = kind      # 'func' 'class' 'ext' 'folded' 'bound' 'partial'
        self.target = target
        self.name = name

    def __repr__(self):
        return "Ref(%s,%s)" % (self.kind, self.name or self.target)


NONE = Con(None)
TRUE = Con(True)
FALSE = Con(False)


def vkey(v):
    """hashable structural key of a value (for atoms and equality of opaque things)"""
    if isinstance(v, Num):
        return ("num", v.lin.key())
    if isinstance(v, Con):
        return ("con", repr(v.value))
    if isinstance(v, Tup):
        return ("tup", tuple(vkey(x) for x in v.items))
    if isinstance(v, Obj):
        return ("obj", v.oid)
    if isinstance(v, Unk):
        return ("unk", v.term)
    if isinstance(v, Str):
        return ("str", tuple((p[0], p[1], p[2].key()) if p[0] == "rep" else p for p in v.parts))
    if isinstance(v, Ref):
        return ("ref", v.kind, repr(v.name or v.target))
    if isinstance(v, Bool):
        return ("bool", repr(v.f))
    return ("?", repr(v))


# ----------------------------------------------------------------------------- formulas
def f_not(f):
    if f is True:
        return False
    if f is False:
        return True
    if f[0] == "not":
        return f[1]
    return ("not", f)


def f_and(fs):
    fs = [f for f in fs if f is not True]
    if any(f is False for f in fs):
        return False
    if not fs:
        return True
    if len(fs) == 1:
        return fs[0]
    return ("and", fs)


def f_or(fs):
    fs = [f for f in fs if f is not False]
    if any(f is True for f in fs):
        return True
    if not fs:
        return False
    if len(fs) == 1:
        return fs[0]
    return ("or", fs)


# ----------------------------------------------------------------------------- state
class State:
    __slots__ = ("env", "lin", "atoms", "epoch", "tags", "neq")

    def __init__(self):
        self.env = {}
        self.lin = []
        self.atoms = {}
        self.epoch = 0
        self.tags = ()
        self.neq = []      # Lin expressions known to be non-zero (kept lazily, no case split)

    def copy(self):
        s = State()
        s.env = dict(self.env)
        s.lin = list(self.lin)
        s.atoms = dict(self.atoms)
        s.epoch = self.epoch
        s.tags = self.tags
        s.neq = list(self.neq)
        return s

    def add_lin(self, con):
        if con not in self.lin:
            self.lin.append(con)

    def feasible(self, extra=()):
        cons = self.lin + list(extra)
        return feasible(cons)

    def tighten(self):
        """use the disequalities: e != 0 together with e >= 0 gives e >= 1 (integers).
        Returns False if a disequality is contradicted."""
        changed = True
        while changed and self.neq:
            changed = False
            rest = []
            for e in self.neq:
                facts = influence(self.lin, e)
                if entails(facts, (e, ">=")):
                    if entails(facts, ((-e), ">=")):
                        return False
                    self.add_lin((e - Lin.const(1), ">="))
                    changed = True
                elif entails(facts, ((-e), ">=")):
                    self.add_lin(((-e) - Lin.const(1), ">="))
                    changed = True
                else:
                    rest.append(e)
            self.neq = rest
        return True

    def entails(self, con):
        self.tighten()
        facts = influence(self.lin, con[0])
        return entails(facts, con)

    def key(self):
        return (tuple(sorted((k, repr(vkey(v))) for k, v in self.env.items())),
                tuple(sorted(repr(l.key()) + op for l, op in self.lin)),
                tuple(sorted((repr(k), v) for k, v in self.atoms.items())),
                tuple(sorted(repr(e.key()) for e in self.neq)), self.epoch)

    def entails_formula(self, f):
        """does this state entail formula f?  (refutation: state ∧ ¬f infeasible)"""
        return not assume(f_not(f), self)


def assume(f, st):
    """list of feasible refinements of st under formula f"""
    if f is True:
        return [st]
    if f is False:
        return []
    k = f[0]
    if k == "lin":
        con = (f[1], f[2])
        if con[0].is_const():
            ok = (con[0].k >= 0) if con[1] == ">=" else (con[0].k == 0)
            return [st] if ok else []
        s = st.copy()
        s.add_lin(con)
        if not feasible(influence(s.lin, con[0])):
            return []
        if s.neq and not s.tighten():
            return []
        return [s]
    if k in ("atom", "atomx"):
        cur = st.atoms.get(f[1])
        if cur is False:
            return []
        if cur is True and k == "atom":
            return [st]
        s = st.copy()
        s.atoms[f[1]] = True
        if k == "atomx":
            # an atom whose truth implies linear side facts (e.g. s[a:b] == "lit"  =>  len(s) >= len(lit))
            for con in f[2]:
                s.add_lin(con)
            if not feasible(s.lin):
                return []
        return [s]
    if k == "not":
        g = f[1]
        if g is True:
            return []
        if g is False:
            return [st]
        gk = g[0]
        if gk == "lin" and g[2] == "==":
            # disequality: kept lazily instead of splitting into < and >
            e = g[1]
            if e.is_const():
                return [st] if e.k != 0 else []
            s = st.copy()
            if e not in s.neq and (-e) not in s.neq:
                s.neq.append(e)
            if not s.tighten():
                return []
            return [s]
        if gk == "lin":
            out = []
            for alt in negate((g[1], g[2])):
                out.extend(assume(("lin", alt[0], alt[1]), st))
            return out
        if gk in ("atom", "atomx"):
            cur = st.atoms.get(g[1])
            if cur is True:
                return []
            if cur is False:
                return [st]
            s = st.copy()
            s.atoms[g[1]] = False
            return [s]
        if gk == "not":
            return assume(g[1], st)
        if gk == "and":
            out = []
            # ¬(a ∧ b ∧ c) = ¬a ∨ (a ∧ ¬b) ∨ (a ∧ b ∧ ¬c): disjoint cases
            pre = []
            for x in g[1]:
                sts = [st]
                for p in pre:
                    sts = [s2 for s1 in sts for s2 in assume(p, s1)]
                for s1 in sts:
                    out.extend(assume(f_not(x), s1))
                pre.append(x)
            return out
        if gk == "or":
            sts = [st]
            for x in g[1]:
                sts = [s2 for s1 in sts for s2 in assume(f_not(x), s1)]
            return sts
    if k == "and":
        sts = [st]
        for x in f[1]:
            sts = [s2 for s1 in sts for s2 in assume(x, s1)]
        return sts
    if k == "or":
        out = []
        pre = []
        for x in f[1]:
            sts = [st]
            for p in pre:
                sts = [s2 for s1 in sts for s2 in assume(f_not(p), s1)]
            for s1 in sts:
                out.extend(assume(x, s1))
            pre.append(x)
        return out
    raise AnalysisError("unknown formula %r" % (f,))


def _kind(v):
    if isinstance(v, Con):
        return "con:%r" % (v.value,) if not isinstance(v.value, float) else "float"
    if isinstance(v, Num):
        return "num"
    if isinstance(v, Tup):
        return "tup%d:%s" % (len(v.items), ",".join(_kind(x) for x in v.items))
    return type(v).__name__


def merge_states(states, fresh):
    """join by kind signature: states whose variables have the same kinds (None / number / ...) are
    merged into one, keeping what they agree on (values, syntactically common facts).  Sound weakening."""
    groups = {}
    for s in states:
        sig = (tuple(sorted((k, _kind(v)) for k, v in s.env.items())), s.tags)
        groups.setdefault(sig, []).append(s)
    out = []
    for g in groups.values():
        out.extend(_merge_group(g, fresh))
    return out


def _merge_group(states, fresh):
    if len(states) <= 1:
        return list(states)
    first = states[0]
    m = State()
    m.epoch = max(s.epoch for s in states) + 1
    m.tags = first.tags if all(s.tags == first.tags for s in states) else ()
    keys = set(first.env)
    for s in states[1:]:
        keys &= set(s.env)
    for k in keys:
        vk = vkey(first.env[k])
        if all(vkey(s.env[k]) == vk for s in states[1:]):
            m.env[k] = first.env[k]
        elif all(isinstance(s.env[k], Num) for s in states):
            t = fresh("join:" + k)
            m.env[k] = Num(Lin.var(t))
            # keep simple constant bounds that hold in every state
            for b in (0, 1):
                if all(s.entails(ge(s.env[k].lin, b)) for s in states):
                    m.add_lin(ge(Lin.var(t), b))
        else:
            m.env[k] = Unk(fresh("join:" + k))
    if any(k.startswith("$") for k in keys):
        joined = sorted(k for k in keys if isinstance(m.env[k], Num) and all(isinstance(s.env[k], Num) for s in states))
        for i, a in enumerate(joined):
            for b in joined[i + 1:]:
                if not (a.startswith("$") or b.startswith("$")):
                    continue
                d0 = first.env[a].lin - first.env[b].lin
                for kk in ([d0.k] if d0.is_const() else [0, 1, -1]):
                    if all(s.entails(eq(s.env[a].lin - s.env[b].lin, kk)) for s in states):
                        m.add_lin(eq(m.env[a].lin - m.env[b].lin, kk))
                        break
    common = None
    for s in states:
        ks = {(l.key(), op): (l, op) for l, op in s.lin}
        common = ks if common is None else {k: v for k, v in common.items() if k in ks}
    for con in (common or {}).values():
        m.add_lin(con)
    for k, v in first.atoms.items():
        if all(s.atoms.get(k) is v for s in states[1:]):
            m.atoms[k] = v
    m.neq = [e for e in first.neq if all(e in s.neq for s in states[1:])]
    return [m]


# ----------------------------------------------------------------------------- engine
class Hooks:
    """client callbacks; all optional"""

    def on_call(self, eng, fr, node, callee, args, kwargs, st):
        """called for every call evaluated.  May return a V to override the result."""
        return None

    def opaque_call(self, eng, fr, node, callee, args, kwargs, st):
        """return True to force this call to be treated as opaque (not inlined)"""
        return False

    def on_raise(self, eng, fr, node, exc, st):
        pass

    def on_store(self, eng, fr, node, base, index, value, st):
        """attribute / subscript store (incl. augmented): base V, index V or attr name, value V"""
        pass

    def on_loop(self, eng, fr, node, head_syms, entered, back, exits, breaks):
        """after a summarised loop: head_syms maps loop-modified names to their head symbols"""
        pass

    def on_iter(self, eng, fr, node, iterable, st, end=False):
        """one element was taken from `iterable` by a for loop (symbolic iteration) -- or, with end=True, the loop found the
        iterable exhausted; may return a replacement state"""
        return None

    def on_yield(self, eng, fr, node, value, st):
        """a generator yields `value`; may return a replacement state (e.g. with a tag)"""
        return None

    def on_loop_head(self, eng, fr, node, head):
        """may adjust the havocked head state (e.g. reset per-iteration tags)"""
        return head


class Frame:
    def __init__(self, func, depth, parent=None):
        self.func = func
        self.depth = depth
        self.parent = parent
        self.returns = []     # (state, V)
        self.raises = []      # (state, node, excname)
        self.loops = []       # stack of dicts {breaks:[], continues:[]}
        self.trys = []        # stack of lists collecting raise events
        self.try_opaque = []  # parallel stack: did the try body contain an unmodelled call?

    def stack_quals(self):
        out = []
        f = self
        while f is not None:
            if f.func is not None:
                out.append(f.func.qual)
            f = f.parent
        return out


class Engine:
    def __init__(self, ctx, hooks=None, inline_methods=(), opaque_funcs=(), max_depth=MAX_INLINE_DEPTH):
        self.ctx = ctx
        self.db = ctx.db
        self.hooks = hooks or Hooks()
        self.inline_methods = set(inline_methods)
        self.opaque_funcs = set(opaque_funcs)
        self.max_depth = max_depth
        self.counter = itertools.count()
        self.raise_log = []
        self.origin = {}      # term -> provenance record (for the abstract string domain, sa.strlang)
        self.checks = {}      # id(node) -> [reached, failed, node, func]  (asserts, sequence indices) for E1's linear discharges
        self._pure = {}
        self._stable_global = {}
        self.sccs = None

    def fresh(self, hint):
        return "%s#%d" % (hint, next(self.counter))

    # ------------------------------------------------------------------ running
    def run_function(self, func, args=None, state=None, depth=0, parent=None, assumptions=None, captured=None):
        """Analyse func.  args: dict param -> V (missing params become unknowns / defaults).
        assumptions: callable(state, env) -> list of formulas assumed at entry.
        Returns Frame with .returns / .raises."""
        st = state.copy() if state is not None else State()
        saved_env = st.env
        # ghost variables ("$name", maintained by client hooks) live across frames
        st.env = {k: v for k, v in saved_env.items() if k.startswith("$")}
        if captured:
            st.env.update(captured)     # variables of the enclosing function visible to a closure
        args = dict(args or {})
        for p in func.params:
            if p in args:
                st.env[p] = args[p]
            elif p in func.defaults:
                st.env[p] = self.const_expr(func, func.defaults[p])
            elif p == func.vararg:
                st.env[p] = Unk(("param", func.qual, p))
            else:
                if func.is_method and p == func.posparams[0]:
                    st.env[p] = Obj(("self", func.qual), func.cls.qual)
                else:
                    st.env[p] = Unk(("param", func.qual, p))
        fr = Frame(func, depth, parent)
        states = [st]
        if assumptions:
            for f in assumptions(st.env):
                states = [s2 for s1 in states for s2 in assume(f, s1)]
        out = self.block(fr, func.node.body, states)
        for s in out:
            fr.returns.append((s, NONE))
        # restore caller env in returned states
        fr.saved_env = saved_env
        return fr

    def const_expr(self, func, node):
        try:
            return self.wrap(ast.literal_eval(node))
        except Exception:
            return Unk(("default", func.qual, unparse(node)))

    def wrap(self, v, name=None):
        if isinstance(v, bool) or v is None or isinstance(v, (str, float)):
            return Con(v)
        if isinstance(v, int):
            return Num(Lin.const(v))
        if isinstance(v, (tuple, list)) and name is not None and len(v) > 3 and all(isinstance(x, (str, int)) for x in v):
            return Ref("folded", v, name)      # a named module-level table: keep its identity
        if isinstance(v, tuple) and len(v) <= 64:
            return Tup([self.wrap(x) for x in v])
        if isinstance(v, list) and len(v) <= 64:
            return Tup([self.wrap(x) for x in v], "list")
        if isinstance(v, (dict, set, frozenset, tuple, list)):
            return Ref("folded", v, name)
        if isinstance(v, FFunc):
            return Ref("func", v.func)
        if isinstance(v, FClass):
            return Ref("class", v.cls)
        if isinstance(v, FPattern):
            return Ref("folded", v, name)
        return Unk(("const", name or repr(v)))

    # ------------------------------------------------------------------ statements
    def block(self, fr, body, states):
        for st in body:
            if not states:
                return []
            states = self.stmt(fr, st, states)
            if len(states) > 300:
                states = merge_states(states, self.fresh)
            if len(states) > MAX_STATES:
                raise AnalysisError("state explosion in %s at line %d" % (fr.func.qual if fr.func else "?", st.lineno))
        return states

    def stmt(self, fr, st, states):
        m = getattr(self, "s_" + type(st).__name__, None)
        if m is None:
            raise AnalysisError("unsupported statement %s at %s" % (type(st).__name__, fr.func.loc(st)))
        out = []
        for s in states:
            out.extend(m(fr, st, s))
        if len(out) > 8:
            seen = {}
            for s in out:
                seen.setdefault(s.key(), s)
            out = list(seen.values())
        return out

    def s_Pass(self, fr, st, s):
        return [s]

    def s_Global(self, fr, st, s):
        return [s]

    s_Nonlocal = s_Global

    def s_Import(self, fr, st, s):
        return [s]

    s_ImportFrom = s_Import

    def s_Expr(self, fr, st, s):
        return [s2 for s2, _ in self.eval(fr, st.value, s)]

    def s_Assign(self, fr, st, s):
        out = []
        for s2, v in self.eval(fr, st.value, s):
            sts = [s2]
            for t in st.targets:
                sts = [s4 for s3 in sts for s4 in self.assign(fr, t, v, s3)]
            out.extend(sts)
        return out

    def s_AnnAssign(self, fr, st, s):
        if st.value is None:
            return [s]
        out = []
        for s2, v in self.eval(fr, st.value, s):
            out.extend(self.assign(fr, st.target, v, s2))
        return out

    def s_AugAssign(self, fr, st, s):
        load = ast.copy_location(_as_load(st.target), st.target)
        expr = ast.copy_location(ast.BinOp(left=load, op=st.op, right=st.value), st)
        out = []
        for s2, v in self.eval(fr, expr, s):
            if isinstance(st.target, ast.Name):
                out.extend(self.assign(fr, st.target, v, s2))
            else:
                # store into attribute / subscript: heap effect
                self._store_hook(fr, st.target, v, s2)
                s3 = s2.copy()
                s3.epoch += 1
                self._kill_container(fr, st.target, s3)
                out.append(s3)
        return out

    def _store_hook(self, fr, target, value, s):
        if type(self.hooks).on_store is Hooks.on_store:
            return
        for s2, base in self.eval(fr, target.value, s):
            if isinstance(target, ast.Subscript) and not isinstance(target.slice, ast.Slice):
                for s3, idx in self.eval(fr, target.slice, s2):
                    self.hooks.on_store(self, fr, target, base, idx, value, s3)
            elif isinstance(target, ast.Attribute):
                self.hooks.on_store(self, fr, target, base, target.attr, value, s2)

    def _kill_container(self, fr, target, s):
        b = target
        while isinstance(b, (ast.Subscript, ast.Attribute)):
            b = b.value
        if isinstance(b, ast.Name) and b.id in s.env and isinstance(s.env[b.id], (Tup, Str)):
            s.env[b.id] = Unk(self.fresh("mut:" + b.id))

    def assign(self, fr, t, v, s):
        if isinstance(t, ast.Name):
            s2 = s.copy()
            if fr.func is not None and t.id in fr.func.declared_global:
                s2.epoch += 1
                s2.env["$global:" + t.id] = v          # what this path has bound the module variable to (read by rules only)
                return [s2]
            s2.env[t.id] = v
            return [s2]
        if isinstance(t, (ast.Tuple, ast.List)):
            n = len(t.elts)
            if any(isinstance(e, ast.Starred) for e in t.elts):
                s2 = s.copy()
                for e in t.elts:
                    for nm in _names(e):
                        s2.env[nm] = Unk(self.fresh("unpack"))
                return [s2]
            if isinstance(v, Tup):
                if len(v.items) != n:
                    self._raise(fr, t, "ValueError", s)
                    return []
                items = v.items
            elif isinstance(v, Unk):
                items = [Unk(("item", v.term, i)) for i in range(n)]
            elif isinstance(v, Con) and v.value is None:
                self._raise(fr, t, "TypeError", s)
                return []
            else:
                items = [Unk(self.fresh("unpack")) for _ in range(n)]
            sts = [s]
            for e, x in zip(t.elts, items):
                sts = [s3 for s2 in sts for s3 in self.assign(fr, e, x, s2)]
            return sts
        if isinstance(t, (ast.Attribute, ast.Subscript)):
            out = []
            for s2, base in self.eval(fr, t.value, s):
                s3 = s2.copy()
                if isinstance(t, ast.Attribute) and isinstance(base, Obj) and isinstance(t.value, ast.Name) \
                        and fr.func is not None and fr.func.name == "__init__" and t.value.id == fr.func.posparams[0]:
                    base.fields[t.attr] = v
                    s3.env[t.value.id] = base
                else:
                    self._store_hook(fr, t, v, s2)
                    s3.epoch += 1
                    self._kill_container(fr, t, s3)
                out.append(s3)
            return out
        if isinstance(t, ast.Starred):
            return self.assign(fr, t.value, Unk(self.fresh("star")), s)
        raise AnalysisError("unsupported assignment target at %s" % fr.func.loc(t))

    def s_Return(self, fr, st, s):
        if st.value is None:
            fr.returns.append((s, NONE))
            return []
        for s2, v in self.eval(fr, st.value, s):
            fr.returns.append((s2, v))
        return []

    def s_Raise(self, fr, st, s):
        name = "Exception"
        if st.exc is not None:
            e = st.exc.func if isinstance(st.exc, ast.Call) else st.exc
            d = unparse(e)
            name = d.split(".")[-1]
            if isinstance(st.exc, ast.Call):
                for a in st.exc.args:
                    for _ in self.eval(fr, a, s):
                        pass
        self._raise(fr, st, name, s)
        return []

    def _raise(self, fr, node, exc, s):
        if not hasattr(node, "_sa_func") and fr.func is not None:
            try:
                node._sa_func = fr.func
            except Exception:
                pass
        self.hooks.on_raise(self, fr, node, exc, s)
        if fr.trys:
            fr.trys[-1].append((s, node, exc))
        else:
            fr.raises.append((s, node, exc))

    def _check(self, fr, node, failed):
        c = self.checks.setdefault(id(node), [0, 0, node, fr.func])
        c[0] += 1
        if failed:
            c[1] += 1

    def s_Assert(self, fr, st, s):
        out = []
        for s2, v in self.eval(fr, st.test, s):
            f = self.truth(v)
            bad = assume(f_not(f), s2)
            self._check(fr, st, bool(bad))
            for s3 in bad:
                self._raise(fr, st, "AssertionError", s3)
            out.extend(assume(f, s2))
        return out

    def s_If(self, fr, st, s):
        out = []
        for s2, v in self.eval(fr, st.test, s):
            f = self.truth(v)
            t = assume(f, s2)
            e = assume(f_not(f), s2)
            if t:
                out.extend(self.block(fr, st.body, t))
            if e:
                out.extend(self.block(fr, st.orelse, e) if st.orelse else e)
        return out

    def s_Break(self, fr, st, s):
        fr.loops[-1]["breaks"].append(s)
        return []

    def s_Continue(self, fr, st, s):
        fr.loops[-1]["continues"].append(s)
        return []

    def s_Delete(self, fr, st, s):
        s2 = s.copy()
        s2.epoch += 1
        for t in st.targets:
            self._kill_container(fr, t, s2)
        return [s2]

    def s_FunctionDef(self, fr, st, s):
        s2 = s.copy()
        g = None
        if fr.func is not None:
            g = self.db.funcs.get(fr.func.qual + ".<locals>." + st.name)
        if g is not None and g.node is st and not st.decorator_list:
            s2.env[st.name] = Ref("localfunc", g, st.name)
        else:
            s2.env[st.name] = Unk(("localfunc", st.name))
        return [s2]

    def s_With(self, fr, st, s):
        sts = [s]
        for it in st.items:
            nxt = []
            for s1 in sts:
                for s2, v in self.eval(fr, it.context_expr, s1):
                    if it.optional_vars is not None:
                        nxt.extend(self.assign(fr, it.optional_vars, Unk(self.fresh("with")), s2))
                    else:
                        nxt.append(s2)
            sts = nxt
        return self.block(fr, st.body, sts)

    def s_Try(self, fr, st, s):
        fr.trys.append([])
        fr.try_opaque.append(False)
        body_out = self.block(fr, st.body, [s])
        events = fr.trys.pop()
        opaque = fr.try_opaque.pop()
        out = []
        if st.orelse:
            body_out = self.block(fr, st.orelse, body_out)
        out.extend(body_out)
        # havocked entry: an exception from an unmodelled raise point anywhere in the body
        assigned = set()
        for n in ast.walk(ast.Module(body=st.body, type_ignores=[])):
            if isinstance(n, ast.Name) and isinstance(n.ctx, ast.Store):
                assigned.add(n.id)
        hv = s.copy()
        hv.epoch += 1
        for nm in assigned:
            hv.env[nm] = Unk(self.fresh("try:" + nm))
        for h in st.handlers:
            names = self._handler_names(fr, h)
            entries = []
            for (es, node, exc) in events:
                if names is None or self._exc_match(exc, names):
                    entries.append(es)
            if opaque:
                entries.append(hv)
            hs = []
            for es in entries:
                e2 = es.copy()
                if h.name:
                    e2.env[h.name] = Unk(self.fresh("exc"))
                hs.append(e2)
            out.extend(self.block(fr, h.body, hs))
        # events not caught by any handler propagate
        for (es, node, exc) in events:
            caught = False
            for h in st.handlers:
                names = self._handler_names(fr, h)
                if names is None or self._exc_match(exc, names):
                    caught = True
                    break
            if not caught:
                self._raise_propagate(fr, node, exc, es)
        if st.finalbody:
            out = self.block(fr, st.finalbody, out)
        return out

    def _raise_propagate(self, fr, node, exc, s):
        if fr.trys:
            fr.trys[-1].append((s, node, exc))
        else:
            fr.raises.append((s, node, exc))

    def _handler_names(self, fr, h):
        if h.type is None:
            return None
        ts = h.type.elts if isinstance(h.type, ast.Tuple) else [h.type]
        return [unparse(t).split(".")[-1] for t in ts]

    def _exc_match(self, exc, names):
        anc = set(a.split(".")[-1] for a in self.db.exc_ancestors(exc))
        for c in self.db.classes.values():
            if c.name == exc:
                anc |= set(a.split(".")[-1] for a in self.db.exc_ancestors(c))
        anc.add(exc)
        return any(n in anc for n in names)

    # ------------------------------------------------------------------ loops
    def s_While(self, fr, st, s):
        return self._loop(fr, st, s, None)

    # ---- generator inlining -------------------------------------------------------------------------------------
    def _inline_generator(self, fr, target, iter_expr, body):
        """``for T in G(args): BODY`` where G is a generator function of the same module:  the statements of G with every
        ``yield v`` replaced by ``T = v; BODY`` (G's locals renamed apart, its parameters bound first).  The rewriting is
        exact when BODY neither breaks out of / continues the loop nor can an exception of BODY be caught by G, and G has no
        ``return <value>`` / ``yield from``; anything else -> None (the iteration stays opaque)."""
        import copy
        if not (isinstance(iter_expr, ast.Call) and isinstance(iter_expr.func, ast.Name) and fr.func is not None):
            return None
        if any(isinstance(a, ast.Starred) for a in iter_expr.args) or any(k.arg is None for k in iter_expr.keywords):
            return None
        if iter_expr.func.id in getattr(fr.func, "locals", ()):
            return None
        r = self.db.resolve_global(fr.func.module, iter_expr.func.id)
        if not (r and r[0] == "func"):
            return None
        g = r[1]
        if not g.is_generator or g.module is not fr.func.module or g.cls is not None or g.qual in fr.stack_quals() or g is fr.func:
            return None
        if getattr(g.node.args, "vararg", None) or getattr(g.node.args, "kwarg", None) or g.node.args.kwonlyargs:
            return None

        # BODY must not break / continue at its own loop level
        def has_jump(stmts):
            for st_ in stmts:
                if isinstance(st_, (ast.Break, ast.Continue)):
                    return True
                if isinstance(st_, (ast.For, ast.While, ast.FunctionDef, ast.AsyncFunctionDef, ast.ClassDef)):
                    if any(has_jump(getattr(st_, "orelse", []) or []) for _ in (0,)):
                        return True
                    continue
                for fld in ("body", "orelse", "finalbody"):
                    if has_jump(getattr(st_, fld, []) or []):
                        return True
                for h_ in getattr(st_, "handlers", []) or []:
                    if has_jump(h_.body):
                        return True
            return False
        if has_jump(body):
            return None
        gbody = list(g.node.body)
        if gbody and isinstance(gbody[0], ast.Expr) and isinstance(gbody[0].value, ast.Constant) and isinstance(gbody[0].value.value, str):
            gbody = gbody[1:]
        yields = [n for n in own_nodes(g.node) if isinstance(n, (ast.Yield, ast.YieldFrom))]
        if not yields or any(isinstance(n, ast.YieldFrom) or n.value is None for n in yields):
            return None
        if any(isinstance(n, ast.Return) and n.value is not None for n in own_nodes(g.node)):
            return None
        if any(isinstance(n, (ast.FunctionDef, ast.AsyncFunctionDef, ast.Lambda, ast.ClassDef, ast.Global, ast.Nonlocal)) for n in own_nodes(g.node) if n is not g.node):
            return None
        # every yield is an expression statement, not under a try (an exception of BODY must not reach G's handlers)
        ok_yields = set()

        def scan(stmts, in_try):
            for st_ in stmts:
                if isinstance(st_, ast.Expr) and isinstance(st_.value, ast.Yield):
                    if in_try:
                        return False
                    ok_yields.add(id(st_.value))
                    continue
                if isinstance(st_, ast.Return):
                    return False        # an early `return` of G would have to leave the inlined region
                for fld in ("body", "orelse", "finalbody"):
                    sub = getattr(st_, fld, None)
                    if isinstance(sub, list) and sub and isinstance(sub[0], ast.stmt):
                        if not scan(sub, in_try or (isinstance(st_, (ast.Try, ast.With)) and fld == "body")):
                            return False
                for h_ in getattr(st_, "handlers", []) or []:
                    if not scan(h_.body, in_try):
                        return False
            return True
        if not scan(gbody, False) or ok_yields != {id(y) for y in yields}:
            return None
        # bind the arguments
        pos = list(g.posparams)
        bound = {}
        for i_, a in enumerate(iter_expr.args):
            if i_ >= len(pos):
                return None
            bound[pos[i_]] = a
        for k in iter_expr.keywords:
            if k.arg not in pos or k.arg in bound:
                return None
            bound[k.arg] = k.value
        defaults = g.node.args.defaults
        for j, d_ in enumerate(defaults):
            pn = pos[len(pos) - len(defaults) + j]
            bound.setdefault(pn, d_)
        if set(bound) != set(pos):
            return None
        n_ = next(self.counter)
        ren = {nm: "__gen%d_%s" % (n_, nm) for nm in set(g.locals) | set(pos)}

        class Ren(ast.NodeTransformer):
            def visit_Name(self, node):
                if node.id in ren:
                    return ast.copy_location(ast.Name(id=ren[node.id], ctx=node.ctx), node)
                return node

        def subst(stmts):
            out = []
            for st_ in stmts:
                if isinstance(st_, ast.Expr) and isinstance(st_.value, ast.Yield):
                    val = Ren().visit(copy.deepcopy(st_.value.value))
                    asg = ast.copy_location(ast.Assign(targets=[copy.deepcopy(target)], value=val), st_)
                    ast.fix_missing_locations(asg)
                    out.append(asg)
                    out.extend(body)
                    continue
                new = copy.copy(st_)
                for fld, v in ast.iter_fields(st_):
                    if isinstance(v, list) and v and isinstance(v[0], ast.stmt):
                        setattr(new, fld, subst(v))
                    elif isinstance(v, list) and v and isinstance(v[0], ast.ExceptHandler):
                        hs = []
                        for h_ in v:
                            h2 = copy.copy(h_)
                            h2.body = subst(h_.body)
                            if h2.type is not None:
                                h2.type = Ren().visit(copy.deepcopy(h2.type))
                            if h2.name in ren:
                                h2.name = ren[h2.name]
                            hs.append(h2)
                        setattr(new, fld, hs)
                    elif isinstance(v, ast.AST) and not isinstance(v, ast.stmt):
                        setattr(new, fld, Ren().visit(copy.deepcopy(v)))
                    elif isinstance(v, list) and v and isinstance(v[0], ast.AST):
                        setattr(new, fld, [Ren().visit(copy.deepcopy(x)) for x in v])
                new._sa_inlined_from = st_
                out.append(new)
            return out
        prelude = []
        for pn in pos:
            asg = ast.copy_location(ast.Assign(targets=[ast.Name(id=ren[pn], ctx=ast.Store())], value=bound[pn]), iter_expr)
            ast.fix_missing_locations(asg)
            prelude.append(asg)
        return prelude + subst(gbody)

    def s_For(self, fr, st, s):
        if not st.orelse and getattr(self, "inline_generators", True):
            syn = self._inline_generator(fr, st.target, st.iter, st.body)
            if syn is not None:
                for x in syn:
                    if isinstance(x, (ast.For, ast.While)):
                        x._sa_consumer = st
                outs = self.block(fr, syn, [s])
                for s2 in outs:
                    for k in [k for k in s2.env if k.startswith("__gen")]:
                        s2.env.pop(k, None)
                return outs
        out = []
        for s2, it in self.eval(fr, st.iter, s):
            seq = self._concrete_seq(it)
            if seq is not None and len(seq) <= MAX_UNROLL:
                out.extend(self._unroll(fr, st, s2, seq))
            else:
                out.extend(self._loop(fr, st, s2, it))
        return out

    def _concrete_seq(self, it):
        if isinstance(it, Tup):
            return list(it.items)
        if isinstance(it, Ref) and it.kind == "folded" and isinstance(it.target, (tuple, list)) and len(it.target) <= MAX_UNROLL:
            return [self.wrap(x) for x in it.target]
        return None

    def _unroll(self, fr, st, s, seq):
        fr.loops.append({"breaks": [], "continues": []})
        states = [s]
        for item in seq:
            nxt = []
            for s1 in states:
                nxt.extend(self.assign(fr, st.target, item, s1))
            lp = fr.loops[-1]
            lp["continues"] = []
            body_out = self.block(fr, st.body, nxt)
            states = body_out + lp["continues"]
            if not states:
                break
        lp = fr.loops.pop()
        if st.orelse:
            states = self.block(fr, st.orelse, states)
        return states + lp["breaks"]

    def _assigned_names(self, nodes):
        out = set()
        for b in nodes:
            for n in ast.walk(b):
                if isinstance(n, ast.Name) and isinstance(n.ctx, ast.Store):
                    out.add(n.id)
        return out

    def _loop(self, fr, st, s, iterable):
        """havoc + Houdini invariants over the loop-modified numeric variables"""
        modified = sorted(self._assigned_names(st.body) | (self._assigned_names([st.target]) if iterable is not None else set()))
        ghosts = sorted(k for k in s.env if k.startswith("$"))
        if ghosts:
            # closures called in the body may rebind their nonlocals
            for b in st.body:
                for n in ast.walk(b):
                    if isinstance(n, ast.Call) and isinstance(n.func, ast.Name):
                        v = s.env.get(n.func.id)
                        if isinstance(v, Ref) and v.kind == "localfunc":
                            modified = sorted(set(modified) | (v.target.declared_nonlocal & set(s.env)))
            modified = sorted(set(modified) | set(ghosts))
        # candidate invariants: simple bounds that hold on entry
        cands = []
        if ghosts:
            # relational candidates x - y == k between loop-carried numbers (needed for ghost counters)
            nums = [nm for nm in modified if isinstance(s.env.get(nm), Num)]
            for i, a in enumerate(nums):
                for b in nums[i + 1:]:
                    if not (a.startswith("$") or b.startswith("$")):
                        continue
                    # "the difference keeps its entry value" (an expression over symbols the loop does not change)
                    cands.append((a, "rel", (b, s.env[a].lin - s.env[b].lin)))
        for nm in modified:
            v = s.env.get(nm)
            if isinstance(v, Unk) and self._numeric_term(v.term, s):
                v = Num(Lin.var(v.term))     # an unknown that the path already used as a number
            if isinstance(v, Num):
                for k in (0, 1):
                    if s.entails(ge(v.lin, k)):
                        cands.append((nm, ">=", k))
                if s.entails(le(v.lin, 0)):
                    cands.append((nm, "<=", 0))
                cands.append((nm, "num", None))
            elif isinstance(v, Con) and v.value is None:
                pass
        # mutated containers in the body lose their structure
        mutated = set()
        for b in st.body:
            for n in ast.walk(b):
                if isinstance(n, ast.Call) and isinstance(n.func, ast.Attribute) and isinstance(n.func.value, ast.Name):
                    mutated.add(n.func.value.id)
                if isinstance(n, (ast.Subscript, ast.Attribute)) and isinstance(n.ctx, ast.Store):
                    bb = n.value
                    while isinstance(bb, (ast.Subscript, ast.Attribute)):
                        bb = bb.value
                    if isinstance(bb, ast.Name):
                        mutated.add(bb.id)
        for _ in range(8):
            head = s.copy()
            head.epoch += 1
            syms = {}
            for nm in modified:
                t = self.fresh("loop:" + nm)
                syms[nm] = t
                old = s.env.get(nm)
                if any(c[0] == nm and c[1] == "num" for c in cands):
                    head.env[nm] = Num(Lin.var(t))
                elif old is None and not nm.startswith(("$", "__")) and (iterable is None or nm not in self._assigned_names([st.target])):
                    # not bound before the loop: still unbound in the first iteration (a read is a possible UnboundLocalError)
                    head.env[nm] = Unk(("unbound", nm, t))
                else:
                    head.env[nm] = Unk(t)
            for nm in mutated:
                if nm in head.env and isinstance(head.env[nm], (Tup, Str)) and nm not in modified:
                    head.env[nm] = Unk(self.fresh("loopmut:" + nm))
            for (nm, op, k) in cands:
                if op == ">=":
                    head.add_lin(ge(Lin.var(syms[nm]), k))
                elif op == "<=":
                    head.add_lin(le(Lin.var(syms[nm]), k))
                elif op == "rel" and isinstance(head.env.get(nm), Num) and isinstance(head.env.get(k[0]), Num):
                    head.add_lin(eq(Lin.var(syms[nm]) - Lin.var(syms[k[0]]) - k[1], 0))
            head = self.hooks.on_loop_head(self, fr, st, head)
            fr.loops.append({"breaks": [], "continues": []})
            if iterable is None:
                entered, exited = [], []
                for s2, v in self.eval(fr, st.test, head):
                    f = self.truth(v)
                    entered.extend(assume(f, s2))
                    exited.extend(assume(f_not(f), s2))
            else:
                entered = self.assign(fr, st.target, self._elem_of(iterable), head)
                # a client may account for the element taken from the iterable (e.g. a shared iterator being consumed)
                ent2 = []
                for e_ in entered:
                    r_ = self.hooks.on_iter(self, fr, st, iterable, e_)
                    if r_ is False:
                        continue            # the client knows the iterable to be exhausted on this path
                    ent2.append(r_ or e_)
                entered = ent2
                exited = [self.hooks.on_iter(self, fr, st, iterable, head, end=True) or head]
            saved_raises = (list(fr.raises), [list(x) for x in fr.trys], list(fr.returns))
            body_out = self.block(fr, st.body, entered)
            lp = fr.loops.pop()
            back = body_out + lp["continues"]
            # check candidates on every back edge
            bad = []
            for c in cands:
                nm, op, k = c
                for b in back:
                    v = b.env.get(nm)
                    if op == "rel":
                        w = b.env.get(k[0])
                        if not (isinstance(v, Num) and isinstance(w, Num) and b.entails(eq(v.lin - w.lin - k[1], 0))):
                            bad.append(c)
                            break
                        continue
                    if op == "num":
                        if not isinstance(v, Num):
                            bad.append(c)
                            break
                    elif not isinstance(v, Num):
                        bad.append(c)
                        break
                    elif op == ">=" and not b.entails(ge(v.lin, k)):
                        bad.append(c)
                        break
                    elif op == "<=" and not b.entails(le(v.lin, k)):
                        bad.append(c)
                        break
            if not bad:
                self.hooks.on_loop(self, fr, st, syms, entered, back, exited, lp["breaks"])
                out = exited + lp["breaks"]
                if st.orelse:
                    out = self.block(fr, st.orelse, exited) + lp["breaks"]
                if len(out) > 4:
                    out = merge_states(out, self.fresh)
                return out
            # retract effects of this attempt and retry with fewer candidates
            fr.raises[:] = saved_raises[0]
            for cur, old in zip(fr.trys, saved_raises[1]):
                cur[:] = old
            fr.returns[:] = saved_raises[2]
            dropped = set(bad)
            # dropping 'num' for a variable drops its bounds as well
            for c in list(dropped):
                if c[1] == "num":
                    dropped |= {d for d in cands if d[0] == c[0] or (d[1] == "rel" and d[2][0] == c[0])}
            cands = [c for c in cands if c not in dropped]
        raise AnalysisError("loop invariant inference did not stabilise at %s" % fr.func.loc(st))

    def _elem_of(self, it):
        if isinstance(it, Unk):
            return Unk(("elem", it.term, next(self.counter)))
        return Unk(self.fresh("elem"))

    # ------------------------------------------------------------------ expressions
    def eval(self, fr, e, s):
        """-> list of (state, V)"""
        m = getattr(self, "e_" + type(e).__name__, None)
        if m is None:
            return [(s, Unk(self.fresh("expr:" + type(e).__name__)))]
        return m(fr, e, s)

    def eval_seq(self, fr, exprs, s):
        """evaluate expressions left to right -> list of (state, [V])"""
        acc = [(s, [])]
        for e in exprs:
            nxt = []
            for s1, vs in acc:
                for s2, v in self.eval(fr, e, s1):
                    nxt.append((s2, vs + [v]))
            acc = nxt
        return acc

    def e_Constant(self, fr, e, s):
        return [(s, self.wrap(e.value))]

    def e_JoinedStr(self, fr, e, s):
        exprs = [v.value for v in e.values if isinstance(v, ast.FormattedValue)]
        out = []
        for s2, vals in self.eval_seq(fr, exprs, s):
            parts = []
            it = iter(vals)
            ok = True
            for v in e.values:
                if isinstance(v, ast.Constant):
                    if v.value:
                        parts.append(("lit", str(v.value)))
                    continue
                val = next(it)
                spec = None
                if v.format_spec is not None:
                    if len(v.format_spec.values) == 1 and isinstance(v.format_spec.values[0], ast.Constant):
                        spec = v.format_spec.values[0].value
                    else:
                        ok = False
                if v.conversion not in (-1, 115):
                    ok = False
                if not ok:
                    break
                if spec:
                    t = ("fmt", spec, vkey(val))
                    self.origin[t] = ("fmt", spec, val)
                    parts.append(("sym", t))
                elif isinstance(val, Num) and val.lin.is_const() and val.lin.k.denominator == 1:
                    parts.append(("lit", str(int(val.lin.k))))
                elif isinstance(val, Num):
                    t = ("str", (vkey(val),))
                    self.origin[t] = ("str", val)
                    parts.append(("sym", t))
                else:
                    p = self._str_parts(val)
                    if p is None:
                        ok = False
                        break
                    parts.extend(p)
            out.append((s2, self._mk_str(parts) if ok else Unk(self.fresh("fstr"))))
        return out

    @staticmethod
    def _mk_str(parts):
        """a concatenation value; folded to a constant when every part is a literal"""
        parts = tuple(parts)
        if all(p[0] == "lit" for p in parts):
            return Con("".join(p[1] for p in parts))
        return Str(parts)

    def e_Name(self, fr, e, s):
        if e.id in s.env:
            return [(s, s.env[e.id])]
        if e.id in ("True", "False", "None"):
            return [(s, Con({"True": True, "False": False, "None": None}[e.id]))]
        f = fr.func
        if f is not None and e.id in f.locals and e.id not in f.declared_global:
            return [(s, Unk(("unbound", e.id)))]
        return [(s, self.global_value(fr, e.id))]

    def global_value(self, fr, name, module=None):
        module = module or fr.func.module
        r = self.db.resolve_global(module, name)
        if r is None:
            return Unk(("global?", name))
        k = r[0]
        if k == "func":
            return Ref("func", r[1])
        if k == "class":
            return Ref("class", r[1])
        if k == "global":
            if self.stable_global(r[1], r[2]):
                try:
                    v = self.ctx.fold.global_value(r[1], r[2])
                    return self.wrap(v, name="%s.%s" % (r[1], r[2]))
                except FoldError:
                    pass
            return Obj(("global", r[1], r[2]))
        if k == "module":
            return Ref("ext", r[1], r[1])
        if k == "ext":
            return Ref("ext", r[1], r[1])
        if k == "builtin":
            return Ref("ext", "builtins." + r[1], "builtins." + r[1])
        return Unk(("global?", name))

    def stable_global(self, mod, name):
        key = (mod, name)
        if key in self._stable_global:
            return self._stable_global[key]
        pt = self.ctx.pt
        ok = True
        objs = {i for i in pt.v("mod:" + mod, name) if isinstance(i, tuple) and i[0] == "alloc"}
        for r in pt.recs.values():
            if r.scope.startswith("mod:"):
                continue
            if r.op == "rebind-global" and any(t[1:] == (mod, name) for t in r.targets if t[0] == "modvar"):
                ok = False
            if r.op in ("store-sub", "store-attr", "mutcall", "del", "aug") and (r.targets & objs):
                f = self.db.funcs.get(r.scope)
                # builders that are only called at import time do not count
                from rules.C19 import _import_time_only
                if not _import_time_only(self.ctx, r.scope):
                    ok = False
        self._stable_global[key] = ok
        return ok

    def e_Tuple(self, fr, e, s):
        if any(isinstance(x, ast.Starred) for x in e.elts):
            return [(s2, Unk(self.fresh("tuple*"))) for s2, _ in self.eval_seq(fr, [x.value if isinstance(x, ast.Starred) else x for x in e.elts], s)]
        return [(s2, Tup(vs)) for s2, vs in self.eval_seq(fr, e.elts, s)]

    def e_List(self, fr, e, s):
        if any(isinstance(x, ast.Starred) for x in e.elts):
            return [(s2, Unk(self.fresh("list*"))) for s2, _ in self.eval_seq(fr, [x.value if isinstance(x, ast.Starred) else x for x in e.elts], s)]
        return [(s2, Tup(vs, "list")) for s2, vs in self.eval_seq(fr, e.elts, s)]

    def e_Set(self, fr, e, s):
        return [(s2, Unk(self.fresh("set"))) for s2, _ in self.eval_seq(fr, e.elts, s)]

    def e_Dict(self, fr, e, s):
        exprs = [x for x in list(e.keys) + list(e.values) if x is not None]
        if all(isinstance(k, ast.Constant) and isinstance(k.value, str) and k.value.isidentifier() for k in e.keys) and (e.keys or not e.values):
            # {} / {"name": value, ...} with identifier keys: entries known (usable as **kwargs while the name is not mutated)
            names = [k.value for k in e.keys]
            return [(s2, Obj(("kwdict", next(self.counter)), "builtins.dict", dict(zip(names, vs)))) for s2, vs in self.eval_seq(fr, list(e.values), s)]
        return [(s2, Unk(self.fresh("dict"))) for s2, _ in self.eval_seq(fr, exprs, s)]

    def _comp(self, fr, e, s):
        s2 = s.copy()
        for g in e.generators:
            for nm in _names(g.target):
                s2.env.pop(nm, None)
        return [(s, Unk(self.fresh("comp")))]

    e_ListComp = e_SetComp = e_DictComp = e_GeneratorExp = _comp

    def e_Lambda(self, fr, e, s):
        return [(s, Unk(self.fresh("lambda")))]

    def e_Yield(self, fr, e, s):
        if e.value is None:
            return [(s, Unk(self.fresh("sent")))]
        out = []
        for s2, v in self.eval(fr, e.value, s):
            r = self.hooks.on_yield(self, fr, e, v, s2)
            out.append((r if r is not None else s2, Unk(self.fresh("sent"))))
        return out

    def e_YieldFrom(self, fr, e, s):
        return [(s2, Unk(self.fresh("sent"))) for s2, _ in self.eval(fr, e.value, s)]

    def e_IfExp(self, fr, e, s):
        out = []
        for s2, v in self.eval(fr, e.test, s):
            f = self.truth(v)
            for s3 in assume(f, s2):
                out.extend(self.eval(fr, e.body, s3))
            for s3 in assume(f_not(f), s2):
                out.extend(self.eval(fr, e.orelse, s3))
        return out

    def e_BoolOp(self, fr, e, s):
        # short-circuit with path splitting; value = last evaluated operand
        is_and = isinstance(e.op, ast.And)
        results = []
        pending = [(s, None)]
        for i, x in enumerate(e.values):
            nxt = []
            for s1, _ in pending:
                for s2, v in self.eval(fr, x, s1):
                    if i == len(e.values) - 1:
                        results.append((s2, v))
                        continue
                    f = self.truth(v)
                    go = assume(f if is_and else f_not(f), s2)
                    stop = assume(f_not(f) if is_and else f, s2)
                    for s3 in stop:
                        results.append((s3, v))
                    for s3 in go:
                        nxt.append((s3, v))
            pending = nxt
        return results

    def e_UnaryOp(self, fr, e, s):
        out = []
        for s2, v in self.eval(fr, e.operand, s):
            if isinstance(e.op, ast.Not):
                f = f_not(self.truth(v))
                out.append((s2, Con(f) if isinstance(f, bool) else Bool(f)))
            elif isinstance(e.op, ast.USub):
                n = self.num(v, s2)
                out.append((s2, Num(-n.lin) if n is not None else Unk(self.fresh("neg"))))
            else:
                out.append((s2, v if isinstance(e.op, ast.UAdd) else Unk(self.fresh("unary"))))
        return out

    def num(self, v, s=None):
        """coerce to Num if the value is (or must be, for arithmetic to succeed) numeric"""
        if isinstance(v, Num):
            return v
        if isinstance(v, Con) and isinstance(v.value, bool):
            return Num(Lin.const(int(v.value)))
        if isinstance(v, Con) and isinstance(v.value, float) and v.value not in (float("inf"), float("-inf")) \
                and v.value == v.value and v.value == int(v.value):
            return Num(Lin.const(int(v.value)))
        if isinstance(v, Con) and isinstance(v.value, float) and v.value == v.value and abs(v.value) < 1e9:
            from fractions import Fraction
            fq = Fraction(v.value)
            if fq.denominator <= 64:          # 0.5, 1.5, 0.25 ...: exactly representable, arithmetic on them is exact
                return Num(Lin.const(fq))
        if isinstance(v, Unk):
            return Num(Lin.var(v.term))
        return None

    def e_BinOp(self, fr, e, s):
        out = []
        for s2, (a, b) in self.eval_seq(fr, [e.left, e.right], s):
            out.extend(self.binop(fr, e, e.op, a, b, s2))
        return out

    def binop(self, fr, e, op, a, b, s):
        # strings
        if isinstance(op, ast.Add) and (self._is_str(a) or self._is_str(b)):
            pa, pb = self._str_parts(a), self._str_parts(b)
            if pa is not None and pb is not None:
                return [(s, Str(pa + pb))]
            return [(s, Unk(self.fresh("strcat")))]
        if isinstance(op, ast.Mult) and (self._is_str(a) or self._is_str(b)):
            sv, nv = (a, b) if self._is_str(a) else (b, a)
            n = self.num(nv, s)
            if isinstance(sv, Con) and n is not None:
                return [(s, Str((("rep", sv.value, n.lin),)))]
            return [(s, Unk(self.fresh("strrep")))]
        if isinstance(op, ast.Mod) and self._is_str(a):
            return [(s, Unk(self.fresh("strfmt")))]
        if isinstance(op, ast.Add) and isinstance(a, Tup) and isinstance(b, Tup):
            return [(s, Tup(a.items + b.items, a.kind))]
        if isinstance(op, ast.Mult) and isinstance(a, Tup) and isinstance(b, Num) and b.lin.is_const() and 0 <= b.lin.k <= 16:
            return [(s, Tup(a.items * int(b.lin.k), a.kind))]
        if isinstance(op, ast.Add) and (isinstance(a, Tup) or isinstance(b, Tup)) and isinstance(a, (Tup, Unk)) and isinstance(b, (Tup, Unk)):
            # concatenation with an unknown sequence: keep the operands (value-level term)
            t = ("concat", vkey(a), vkey(b))
            self.origin[t] = ("concat", a, b)
            return [(s, Unk(t))]
        if isinstance(a, Tup) or isinstance(b, Tup):
            return [(s, Unk(self.fresh("seqop")))]
        if isinstance(a, Con) and isinstance(a.value, float) or isinstance(b, Con) and isinstance(b.value, float):
            if isinstance(a, Con) and isinstance(b, Con):
                try:
                    return [(s, self.wrap(_pyop(op, a.value, b.value)))]
                except Exception:
                    pass
            exact = all(self.num(x, s) is not None for x in (a, b) if isinstance(x, Con) and isinstance(x.value, float))
            if not exact or not isinstance(op, (ast.Add, ast.Sub, ast.Mult, ast.Mod, ast.FloorDiv)):
                return [(s, Unk(self.fresh("float")))]
        if isinstance(op, ast.Add) and isinstance(a, Unk) and isinstance(b, Unk):
            # type unknown: could be numeric addition or string concatenation; keep the provenance
            t = ("add", vkey(a), vkey(b))
            self.origin[t] = ("add", a, b)
            return [(s, Unk(t))]
        na, nb = self.num(a, s), self.num(b, s)
        if na is None or nb is None:
            if (isinstance(a, Con) and a.value is None) or (isinstance(b, Con) and b.value is None):
                self._raise(fr, e, "TypeError", s)
                return []
            return [(s, Unk(self.fresh("binop")))]
        la, lb = na.lin, nb.lin
        if isinstance(op, ast.Add):
            return [(s, Num(la + lb))]
        if isinstance(op, ast.Sub):
            return [(s, Num(la - lb))]
        if isinstance(op, ast.Mult):
            if la.is_const():
                return [(s, Num(lb.scale(la.k)))]
            if lb.is_const():
                return [(s, Num(la.scale(lb.k)))]
            t = ("mul",) + tuple(sorted([la.key(), lb.key()], key=repr))
            return [(s, Num(Lin.var(t)))]
        if isinstance(op, ast.Pow):
            if la.is_const() and lb.is_const() and 0 <= lb.k <= 64 and la.k.denominator == 1 and lb.k.denominator == 1:
                return [(s, Num(Lin.const(int(la.k) ** int(lb.k))))]
            return [(s, Num(Lin.var(("pow", la.key(), lb.key()))))]
        if isinstance(op, (ast.FloorDiv, ast.Mod)):
            if la.is_const() and lb.is_const() and lb.k != 0 and la.k.denominator == 1 and lb.k.denominator == 1:
                return [(s, Num(Lin.const(_pyop(op, int(la.k), int(lb.k)))))]
            if la.is_const() and lb.is_const() and lb.k != 0:
                return [(s, Num(Lin.const(la.k % lb.k if isinstance(op, ast.Mod) else la.k // lb.k)))]     # exact rationals
            if lb.is_const() and lb.k > 0 and lb.k.denominator == 1:
                c = int(lb.k)
                q = ("div", la.key(), c)
                r = ("mod", la.key(), c)
                s2 = s.copy()
                # a = c*q + r, 0 <= r <= c-1
                s2.add_lin(eq(la, Lin.var(q).scale(c) + Lin.var(r)))
                s2.add_lin(ge(Lin.var(r), 0))
                s2.add_lin(le(Lin.var(r), c - 1))
                return [(s2, Num(Lin.var(q if isinstance(op, ast.FloorDiv) else r)))]
            if lb.is_const() and lb.k == 0:
                self._raise(fr, e, "ZeroDivisionError", s)
                return []
            # possibly zero divisor
            return [(s, Num(Lin.var(self.fresh("divmod"))))]
        if isinstance(op, ast.Div):
            return [(s, Unk(self.fresh("truediv")))]
        return [(s, Unk(self.fresh("binop")))]

    def _expand_format(self, template, args):
        import string
        parts = []
        auto = 0
        try:
            fields = list(string.Formatter().parse(template))
        except ValueError:
            return None
        for lit_, name, spec, conv in fields:
            if lit_:
                parts.append(("lit", lit_))
            if name is None:
                continue
            if conv or (name not in ("",) and not name.isdigit()):
                return None
            idx = auto if name == "" else int(name)
            if name == "":
                auto += 1
            if idx >= len(args):
                return None
            a = args[idx]
            if not spec:
                if isinstance(a, Num) and a.lin.is_const() and a.lin.k.denominator == 1:
                    parts.append(("lit", str(int(a.lin.k))))
                elif isinstance(a, Num):
                    t = ("str", (vkey(a),))
                    self.origin[t] = ("str", a)
                    parts.append(("sym", t))
                else:
                    p = self._str_parts(a)
                    if p is None:
                        return None
                    parts.extend(p)
            else:
                t = ("fmt", spec, vkey(a))
                self.origin[t] = ("fmt", spec, a)
                parts.append(("sym", t))
        return tuple(parts)

    def _is_str(self, v):
        return isinstance(v, Str) or (isinstance(v, Con) and isinstance(v.value, str))

    def _str_parts(self, v):
        if isinstance(v, Str):
            return v.parts
        if isinstance(v, Con) and isinstance(v.value, str):
            return (("lit", v.value),) if v.value else ()
        if isinstance(v, Unk):
            return (("sym", v.term),)
        return None

    # comparisons --------------------------------------------------------------
    def e_Compare(self, fr, e, s):
        out = []
        for s2, vs in self.eval_seq(fr, [e.left] + list(e.comparators), s):
            fs = []
            for op, a, b in zip(e.ops, vs, vs[1:]):
                fs.append(self.compare(op, a, b, s2))
            f = f_and(fs)
            out.append((s2, Con(f) if isinstance(f, bool) else Bool(f)))
        return out

    def compare(self, op, a, b, s):
        if isinstance(op, (ast.Is, ast.IsNot)):
            f = self._is(a, b, s)
            return f if isinstance(op, ast.Is) else f_not(f)
        if isinstance(op, (ast.In, ast.NotIn)):
            f = self._in(a, b)
            return f if isinstance(op, ast.In) else f_not(f)
        if isinstance(op, (ast.Eq, ast.NotEq)):
            f = self._eq(a, b, s)
            return f if isinstance(op, ast.Eq) else f_not(f)
        inf = float("inf")
        if isinstance(b, Con) and b.value == inf and isinstance(a, Num):
            return isinstance(op, (ast.Lt, ast.LtE))
        if isinstance(a, Con) and a.value == inf and isinstance(b, Num):
            return isinstance(op, (ast.Gt, ast.GtE))
        na, nb = self.num(a, s), self.num(b, s)
        if na is None or nb is None:
            if isinstance(a, Con) and isinstance(b, Con):
                try:
                    return bool(_pycmp(op, a.value, b.value))
                except Exception:
                    pass
            return ("atom", ("cmp", type(op).__name__, vkey(a), vkey(b)))
        d = na.lin - nb.lin
        if isinstance(op, ast.Lt):
            c = lt(na.lin, nb.lin)
        elif isinstance(op, ast.LtE):
            c = le(na.lin, nb.lin)
        elif isinstance(op, ast.Gt):
            c = gt(na.lin, nb.lin)
        else:
            c = ge(na.lin, nb.lin)
        if c[0].is_const():
            return c[0].k >= 0
        return ("lin", c[0], c[1])

    def _is(self, a, b, s):
        if isinstance(b, Con) and b.value is None:
            a, b = b, a
        if isinstance(a, Con) and a.value is None:
            if isinstance(b, Con):
                return b.value is None
            if isinstance(b, (Num, Tup, Obj, Str, Ref, Bool)):
                return False
            if isinstance(b, Unk):
                return ("atom", ("isnone", b.term))
        if isinstance(a, Con) and isinstance(b, Con):
            return a.value is b.value if isinstance(a.value, (bool, type(None))) else a.value == b.value
        for x, y in ((a, b), (b, a)):
            # a private sentinel (`_END = object()`, used only as a default of next()/.get() and in identity tests) is
            # identical to nothing but itself: not to a tuple / number / string built elsewhere, not to another object, and
            # not to a value pulled out of an iterator
            if isinstance(x, Obj) and isinstance(x.oid, tuple) and len(x.oid) == 3 and x.oid[0] == "global" and self._private_sentinel(x.oid[1], x.oid[2]):
                if isinstance(y, Obj):
                    return x.oid == y.oid
                if isinstance(y, (Tup, Num, Str, Con, Bool, Ref)):
                    return False
                if isinstance(y, Unk) and isinstance(y.term, tuple) and y.term and y.term[0] in ("next", "elem", "item"):
                    return False
        if isinstance(a, Obj) and isinstance(b, Obj):
            return True if a.oid == b.oid else ("atom", ("same", tuple(sorted([repr(a.oid), repr(b.oid)]))))
        return self._eq(a, b, s)

    def _private_sentinel(self, mod, name):
        key = ("sentinel", mod, name)
        if key not in self._stable_global:
            from .db import is_private_sentinel
            self._stable_global[key] = bool(self.stable_global(mod, name) and is_private_sentinel(self.db, mod, name))
        return self._stable_global[key]

    def _eq(self, a, b, s):
        if isinstance(a, Con) and isinstance(b, Con):
            return a.value == b.value
        for x, y in ((a, b), (b, a)):
            if isinstance(x, Con) and isinstance(x.value, str) and x.value and isinstance(y, Unk):
                o = self.origin.get(y.term)
                if o and o[0] == "slice" and isinstance(o[1], Unk):
                    # base[i:j] == "lit"  implies  len(base) >= len(lit)
                    ln = Lin.var(("len", vkey(o[1]), 0))
                    return ("atomx", ("eq", tuple(sorted([repr(vkey(a)), repr(vkey(b))]))),
                            ((ln - Lin.const(len(x.value)), ">="),))
        if vkey(a) == vkey(b):
            return True
        if isinstance(a, Tup) and isinstance(b, Tup):
            if len(a.items) != len(b.items):
                return False
            parts = []
            for x, y in zip(a.items, b.items):
                # element == None inside a tuple comparison: the same fact as `element is None`
                if isinstance(y, Con) and y.value is None and isinstance(x, Unk):
                    parts.append(("atom", ("isnone", x.term)))
                elif isinstance(x, Con) and x.value is None and isinstance(y, Unk):
                    parts.append(("atom", ("isnone", y.term)))
                else:
                    parts.append(self._eq(x, y, s))
            return f_and(parts)
        if isinstance(a, Num) and isinstance(b, Num):
            d = a.lin - b.lin
            if d.is_const():
                return d.k == 0
            return ("lin", d, "==")
        # Num vs Unk: numeric only when known not None
        for x, y in ((a, b), (b, a)):
            if isinstance(x, Num) and isinstance(y, Unk):
                if s is not None and s.atoms.get(("isnone", y.term)) is False or self._numeric_term(y.term, s):
                    d = x.lin - Lin.var(y.term)
                    return ("lin", d, "==")
                return ("atom", ("eq", tuple(sorted([repr(vkey(a)), repr(vkey(b))]))))
            if isinstance(x, Num) and isinstance(y, Con):
                if y.value is None or isinstance(y.value, str):
                    return False
        if isinstance(a, Con) and a.value is None and isinstance(b, (Num, Tup, Obj, Str)):
            return False
        if isinstance(b, Con) and b.value is None and isinstance(a, (Num, Tup, Obj, Str)):
            return False
        if isinstance(a, Tup) and isinstance(b, Con) or isinstance(b, Tup) and isinstance(a, Con):
            return False
        return ("atom", ("eq", tuple(sorted([repr(vkey(a)), repr(vkey(b))]))))

    def _numeric_term(self, term, s):
        if s is None:
            return False
        for l, _ in s.lin:
            if term in l.c:
                return True
        return False

    def _in(self, a, b):
        if isinstance(b, Ref) and b.kind == "folded" and isinstance(a, Con):
            try:
                return a.value in b.target
            except TypeError:
                pass
        if isinstance(b, Tup) and isinstance(a, Con) and all(isinstance(x, Con) for x in b.items):
            return any(x.value == a.value for x in b.items)
        if isinstance(b, Tup) and isinstance(a, Num) and b.items and all(isinstance(x, Num) for x in b.items) and len(b.items) <= 8:
            return f_or([self._eq(a, x, None) for x in b.items])        # membership in a short tuple of numbers
        if isinstance(b, Con) and isinstance(b.value, str) and isinstance(a, Con) and isinstance(a.value, str):
            return a.value in b.value
        return ("atom", ("in", vkey(a), vkey(b) if not (isinstance(b, Ref) and b.kind == "folded") else ("folded", b.name)))

    def truth(self, v):
        if isinstance(v, Bool):
            return v.f
        if isinstance(v, Con):
            return bool(v.value)
        if isinstance(v, Num):
            if v.lin.is_const():
                return v.lin.k != 0
            return ("not", ("lin", v.lin, "=="))
        if isinstance(v, Tup):
            return len(v.items) > 0
        if isinstance(v, Str):
            if any(p[0] == "lit" and p[1] for p in v.parts):
                return True
            return ("atom", ("truthy", vkey(v)))
        if isinstance(v, Ref):
            if v.kind == "folded":
                try:
                    return len(v.target) > 0
                except TypeError:
                    return True
            return True
        if isinstance(v, Obj):
            c = self.db.classes.get(v.cls) if v.cls else None
            if c is not None and not any(m in c.methods for m in ("__len__", "__bool__")):
                return True
            return ("atom", ("truthy", vkey(v)))
        if isinstance(v, Unk):
            return ("atom", ("truthy", ("unk", v.term)))
        return ("atom", ("truthy", vkey(v)))

    # subscripts / attributes ---------------------------------------------------
    def e_Subscript(self, fr, e, s):
        out = []
        if isinstance(e.slice, ast.Slice):
            parts = [x for x in (e.slice.lower, e.slice.upper, e.slice.step) if x is not None]
            for s2, vs in self.eval_seq(fr, [e.value] + parts, s):
                base = vs[0]
                res = None
                if isinstance(base, (Tup, Con)) and all(isinstance(x, Num) and x.lin.is_const() for x in vs[1:]):
                    idx = iter(int(x.lin.k) for x in vs[1:])
                    lo = next(idx) if e.slice.lower is not None else None
                    hi = next(idx) if e.slice.upper is not None else None
                    stp = next(idx) if e.slice.step is not None else None
                    if isinstance(base, Tup):
                        res = Tup(base.items[lo:hi:stp], base.kind)
                    elif isinstance(base.value, str):
                        res = Con(base.value[lo:hi:stp])
                if res is None:
                    res = Unk(("slice", vkey(base), tuple(vkey(x) for x in vs[1:]), unparse(e.slice), s2.epoch if not isinstance(base, (Con, Unk)) else 0))
                    self.origin[res.term] = ("slice", base, e.slice.lower is not None, e.slice.upper is not None, vs[1:])
                out.append((s2, res))
            return out
        for s2, (base, idx) in self.eval_seq(fr, [e.value, e.slice], s):
            out.extend(self.subscript(fr, e, base, idx, s2))
        return out

    def subscript(self, fr, e, base, idx, s):
        if isinstance(base, Tup):
            if isinstance(idx, Num) and idx.lin.is_const():
                k = int(idx.lin.k)
                if -len(base.items) <= k < len(base.items):
                    return [(s, base.items[k])]
                self._raise(fr, e, "IndexError", s)
                return []
            return [(s, Unk(self.fresh("tupitem")))]
        if isinstance(base, Con) and isinstance(base.value, str) and isinstance(idx, Num) and idx.lin.is_const():
            k = int(idx.lin.k)
            if -len(base.value) <= k < len(base.value):
                return [(s, Con(base.value[k]))]
            self._raise(fr, e, "IndexError", s)
            return []
        if isinstance(base, Ref) and base.kind == "folded" and isinstance(base.target, dict):
            return self.folded_lookup(fr, e, base, idx, None, s)
        if isinstance(base, Ref) and base.kind == "folded" and isinstance(base.target, (tuple, list)):
            tgt = base.target
            if isinstance(idx, Num) and not idx.lin.is_const():
                ok = s.entails(ge(idx.lin, 0)) and s.entails(le(idx.lin, len(tgt) - 1))
                self._check(fr, e, not ok)
            if isinstance(idx, Num) and idx.lin.is_const():
                k = int(idx.lin.k)
                if -len(tgt) <= k < len(tgt):
                    return [(s, self.wrap(tgt[k]))]
                self._raise(fr, e, "IndexError", s)
                return []
            self.origin[("item", base.name, vkey(idx))] = ("folded-item", base, idx)
            return [self._ranged(s, ("item", base.name, vkey(idx)), list(tgt))]
        if isinstance(base, Unk) and isinstance(idx, Num):
            # sequence index in bounds?  0 <= idx < len(base)  or  -len(base) <= idx < 0
            ln = Lin.var(("len", vkey(base), 0))
            ok = (s.entails(ge(idx.lin, 0)) and s.entails(lt(idx.lin, ln))) or \
                 (s.entails(le(idx.lin, -1)) and s.entails(ge(idx.lin + ln, 0)))
            self._check(fr, e, not ok)
        if fr.trys and isinstance(base, (Obj, Unk)):
            # an unmodelled container: the look-up may fail (only tracked where a handler can observe it)
            self._raise(fr, e, "KeyError", s)
            self._raise(fr, e, "IndexError", s)
        if isinstance(base, Unk) and isinstance(idx, Num) and idx.lin.is_const():
            t = ("item", base.term, int(idx.lin.k))
            self.origin.setdefault(t, ("item", base, int(idx.lin.k)))
            return [(s, Unk(t))]
        return [(s, Unk(("index", vkey(base), vkey(idx), s.epoch)))]

    def _ranged(self, s, term, values):
        """unknown element of a folded sequence of values: ranged if all ints, tuple-wise if all tuples"""
        vals = list(values)
        if vals and all(isinstance(v, int) and not isinstance(v, bool) for v in vals):
            s2 = s.copy()
            s2.add_lin(ge(Lin.var(term), min(vals)))
            s2.add_lin(le(Lin.var(term), max(vals)))
            return (s2, Num(Lin.var(term)))
        if vals and all(isinstance(v, tuple) for v in vals) and len({len(v) for v in vals}) == 1:
            n = len(vals[0])
            items = []
            cur = s
            for i in range(n):
                cur, it = self._ranged(cur, ("item", term, i), [v[i] for v in vals])
                items.append(it)
            return (cur, Tup(items))
        if vals and all(v == vals[0] for v in vals) and isinstance(vals[0], (str, type(None), bool)):
            return (s, Con(vals[0]))
        return (s, Unk(term))

    def folded_lookup(self, fr, e, base, key, default, s):
        d = base.target
        if isinstance(key, Con) or (isinstance(key, Num) and key.lin.is_const()):
            kv = key.value if isinstance(key, Con) else int(key.lin.k)
            try:
                if kv in d:
                    return [(s, self.wrap(d[kv]))]
            except TypeError:
                pass
            if default is not None:
                return [(s, default)]
            self._raise(fr, e, "KeyError", s)
            return []
        term = ("lookup", base.name, vkey(key))
        out = []
        inatom = ("atom", ("in", vkey(key), ("folded", base.name)))
        for s1 in assume(inatom, s):
            out.append(self._ranged(s1, term, list(d.values())))
        for s1 in assume(f_not(inatom), s):
            if default is not None:
                out.append((s1, default))
            else:
                self._raise(fr, e, "KeyError", s1)
        return out

    def e_Attribute(self, fr, e, s):
        # static chains: module.attr / Class.attr
        if self._static_chain(fr, e, s):
            r = self.db.resolve_dotted(fr.func.module, e)
            if r is not None:
                if r[0] == "func":
                    return [(s, Ref("func", r[1]))]
                if r[0] == "class":
                    return [(s, Ref("class", r[1]))]
                if r[0] == "global":
                    return [(s, self.global_value(fr, r[2], self.db.modules[r[1]]))]
                if r[0] in ("ext", "module"):
                    return [(s, Ref("ext", r[1], r[1]))]
                if r[0] == "classattr":
                    return [(s, Con(unparse(e)))]   # e.g. an Enum member: compared by identity of its name
                if r[0] == "funcattr":
                    return [(s, Ref("ext", "funcattr." + r[2], "funcattr." + r[2]))]
        out = []
        for s2, base in self.eval(fr, e.value, s):
            out.extend(self.getattr(fr, e, base, e.attr, s2))
        return out

    def _static_chain(self, fr, e, s):
        b = e
        while isinstance(b, ast.Attribute):
            b = b.value
        if not isinstance(b, ast.Name) or b.id in s.env:
            return False
        f = fr.func
        if f is not None and b.id in f.locals and b.id not in f.declared_global:
            return False
        r = self.db.resolve_global(f.module, b.id) if f is not None else None
        return r is not None and r[0] in ("module", "class", "func")

    def getattr(self, fr, e, base, attr, s):
        if isinstance(base, Obj) and attr in base.fields:
            return [(s, base.fields[attr])]
        props = self.ctx.cg.props.get(attr)
        if props:
            getter = props[0]
            if (isinstance(base, Obj) and base.cls in (None, getter.cls.qual)) or isinstance(base, Unk):
                res = self.hooks.on_call(self, fr, e, getter, [base], {}, s)
                if res is not None:
                    return res if isinstance(res, list) else [(s, res)]
                return [(s, Unk(("prop", attr, vkey(base))))]
        if isinstance(base, Con) and base.value is None:
            self._raise(fr, e, "AttributeError", s)
            return []
        if isinstance(base, (Obj, Unk)):
            return [(s, Unk(("attr", vkey(base), attr, s.epoch)))]
        return [(s, Ref("bound", (base, attr), attr))]

    # calls -----------------------------------------------------------------
    def _unroll_comp(self, fr, comp, s, as_truth=False):
        """element values of a comprehension / generator expression whose iterables have a statically known length
        (tuples, constant ranges, enumerate / zip / islice / slices of those), with several `for` clauses and `if`
        filters (an undecided filter splits the state).  -> list of (state, [values]) or None when not unrollable"""

        class _NotConcrete(Exception):
            pass

        def unroll(level, st, acc):
            if level == len(comp.generators):
                return [(s2, acc + [self.truth(v) if as_truth else v]) for s2, v in self.eval(fr, comp.elt, st)]
            gen = comp.generators[level]
            results = []
            for s1, it in self.eval(fr, gen.iter, st):
                seq = self._concrete_seq(it)
                if seq is None or len(seq) > 16:
                    raise _NotConcrete()
                cur = [(s1, acc)]
                for item in seq:
                    nxt = []
                    for s2, a2 in cur:
                        for s3 in self.assign(fr, gen.target, item, s2):
                            passed, skipped = [s3], []
                            for cond in gen.ifs:
                                np_ = []
                                for s4 in passed:
                                    for s5, v in self.eval(fr, cond, s4):
                                        f = self.truth(v)
                                        np_.extend(assume(f, s5))
                                        skipped.extend(assume(f_not(f), s5))
                                passed = np_
                            for s4 in passed:
                                nxt.extend(unroll(level + 1, s4, a2))
                            nxt.extend((s4, a2) for s4 in skipped)
                    cur = nxt
                    if len(cur) > 64:
                        raise _NotConcrete()
                results.extend(cur)
            return results
        try:
            return unroll(0, s, [])
        except _NotConcrete:
            return None

    def _comp_as_loop(self, fr, e, s, meth, result=None):
        """a list / set comprehension over an iterable of unknown length, summarised like the loop
        ``for <target> in <iter>: if <conds>: result.<meth>(<elt>)``: one symbolic iteration; client hooks see the same
        events (on_loop_head, the add/append call, on_loop) as for the statement form.  The result is an opaque container."""
        gen = e.generators[0]
        if getattr(self, "inline_generators", True) and self._inline_generator(fr, gen.target, gen.iter, [ast.Pass()]) is not None:
            # over a generator function of the module: the statement form, so that the generator's loop and this
            # comprehension's filter / element are summarised as one loop (see _inline_generator)
            tmp = "__comp%d" % next(self.counter)
            init = ast.Assign(targets=[ast.Name(id=tmp, ctx=ast.Store())],
                              value=ast.List(elts=[], ctx=ast.Load()) if meth == "append" else ast.Call(func=ast.Name(id="set", ctx=ast.Load()), args=[], keywords=[]))
            add = ast.Expr(value=ast.Call(func=ast.Attribute(value=ast.Name(id=tmp, ctx=ast.Load()), attr=meth, ctx=ast.Load()), args=[e.elt], keywords=[]))
            body = [add]
            if gen.ifs:
                test = gen.ifs[0] if len(gen.ifs) == 1 else ast.BoolOp(op=ast.And(), values=list(gen.ifs))
                body = [ast.If(test=test, body=[add], orelse=[])]
            loop = ast.For(target=gen.target, iter=gen.iter, body=body, orelse=[])
            for x in (init, loop):
                ast.copy_location(x, e)
                ast.fix_missing_locations(x)
            loop._sa_comp = e
            saved0 = {n.id: s.env.get(n.id) for n in ast.walk(gen.target) if isinstance(n, ast.Name)}
            outs0 = []
            for s2 in self.block(fr, [init, loop], [s]):
                v = s2.env.pop(tmp, Unk(self.fresh("comp")))
                for k, old_ in saved0.items():
                    if old_ is None:
                        s2.env.pop(k, None)
                    else:
                        s2.env[k] = old_
                for k in [k for k in s2.env if k.startswith("__gen")]:
                    s2.env.pop(k, None)
                outs0.append((s2, v))
            return outs0
        shim = ast.copy_location(ast.For(target=gen.target, iter=gen.iter, body=[ast.copy_location(ast.Expr(value=e.elt), e)], orelse=[]), e)
        shim._sa_func = getattr(e, "_sa_func", None)
        result = Unk(self.fresh("comp")) if result is None else result
        outs = []
        saved = {n.id: s.env.get(n.id) for n in ast.walk(gen.target) if isinstance(n, ast.Name)}
        for s1, it in self.eval(fr, gen.iter, s):
            head = s1.copy()
            head.epoch += 1
            head = self.hooks.on_loop_head(self, fr, shim, head)
            entered = self.assign(fr, gen.target, self._elem_of(it), head)
            passed, skipped = list(entered), []
            for cond in gen.ifs:
                np_ = []
                for s4 in passed:
                    for s5, v in self.eval(fr, cond, s4):
                        f = self.truth(v)
                        np_.extend(assume(f, s5))
                        skipped.extend(assume(f_not(f), s5))
                passed = np_
            back = []
            for s4 in passed:
                for s5, v in self.eval(fr, e.elt, s4):
                    res = self.hooks.on_call(self, fr, shim, ("method", meth, result), [v], {}, s5)
                    if res is None:
                        back.append(s5)
                    else:
                        back.extend(st_ for st_, _v in (res if isinstance(res, list) else [(s5, res)]))
            back.extend(skipped)
            self.hooks.on_loop(self, fr, shim, {}, entered, back, [head], [])
            after = s1.copy()
            after.epoch += 1
            for k, v in saved.items():
                if v is None:
                    after.env.pop(k, None)
                else:
                    after.env[k] = v
            outs.append((after, result))
        return outs

    def _comp_as_stmts(self, fr, e, s, meth):
        """a comprehension with several `for` clauses over iterables of unknown length: run as the nested statement form
        ``acc = []; for t1 in it1: if c1: for t2 in it2: if c2: acc.append(elt)`` (clients see ordinary loop / call events)"""
        if any(g.is_async for g in e.generators) or not isinstance(e.elt, ast.AST):
            return None
        tmp = "__comp%d" % next(self.counter)
        init = ast.Assign(targets=[ast.Name(id=tmp, ctx=ast.Store())],
                          value=ast.List(elts=[], ctx=ast.Load()) if meth == "append" else ast.Call(func=ast.Name(id="set", ctx=ast.Load()), args=[], keywords=[]))
        inner = [ast.Expr(value=ast.Call(func=ast.Attribute(value=ast.Name(id=tmp, ctx=ast.Load()), attr=meth, ctx=ast.Load()), args=[e.elt], keywords=[]))]
        for g in reversed(e.generators):
            body = inner
            if g.ifs:
                test = g.ifs[0] if len(g.ifs) == 1 else ast.BoolOp(op=ast.And(), values=list(g.ifs))
                body = [ast.If(test=test, body=inner, orelse=[])]
            inner = [ast.For(target=g.target, iter=g.iter, body=body, orelse=[])]
        stmts = [init] + inner
        for x in stmts:
            ast.copy_location(x, e)
            ast.fix_missing_locations(x)
        inner[0]._sa_comp = e
        names = {n.id for g in e.generators for n in ast.walk(g.target) if isinstance(n, ast.Name)}
        saved = {k: s.env.get(k) for k in names}
        outs = []
        for s2 in self.block(fr, stmts, [s]):
            v = s2.env.pop(tmp, Unk(self.fresh("comp")))
            for k, old_ in saved.items():
                if old_ is None:
                    s2.env.pop(k, None)
                else:
                    s2.env[k] = old_
            outs.append((s2, v))
        return outs

    def e_SetComp(self, fr, e, s):
        if len(e.generators) == 1 and not e.generators[0].is_async:
            return self._comp_as_loop(fr, e, s, "add")
        r = self._comp_as_stmts(fr, e, s, "add")
        if r is not None:
            return r
        return [(s, Unk(self.fresh("expr:SetComp")))]

    def e_ListComp(self, fr, e, s):
        if not isinstance(e.elt, ast.AST) or any(g.is_async for g in e.generators):
            return [(s, Unk(self.fresh("expr:ListComp")))]
        saved = {g.target.id: s.env.get(g.target.id) for g in e.generators if isinstance(g.target, ast.Name)}
        accs = self._unroll_comp(fr, e, s)
        if accs is None and len(e.generators) == 1:
            return self._comp_as_loop(fr, e, s, "append")
        if accs is None:
            r = self._comp_as_stmts(fr, e, s, "append")
            if r is not None:
                return r
            return [(s, Unk(self.fresh("expr:ListComp")))]
        out = []
        for s2, vals in accs:
            # comprehension variables do not leak
            for k, v in saved.items():
                if v is None:
                    s2.env.pop(k, None)
                else:
                    s2.env[k] = v
            out.append((s2, Tup(vals, "list")))
        return out

    def e_GeneratorExp(self, fr, e, s):
        """a generator expression over iterables of statically known length is its element sequence (laziness is not
        modelled: the consumers the analysed code uses -- update / extend / join / tuple / sorted -- read it once, whole)"""
        if not isinstance(e.elt, ast.AST) or any(g.is_async for g in e.generators):
            return self._comp(fr, e, s)
        saved = {g.target.id: s.env.get(g.target.id) for g in e.generators if isinstance(g.target, ast.Name)}
        try:
            accs = self._unroll_comp(fr, e, s)
        except AnalysisError:
            accs = None
        if accs is None:
            return self._comp(fr, e, s)
        out = []
        for s2, vals in accs:
            for k, v in saved.items():
                if v is None:
                    s2.env.pop(k, None)
                else:
                    s2.env[k] = v
            out.append((s2, Tup(vals, "list")))
        return out

    def _all_any(self, fr, e, s):
        """all / any / sum over a generator expression or list comprehension: unrolled (see _unroll_comp)"""
        if not (isinstance(e.func, ast.Name) and e.func.id in ("all", "any", "sum") and len(e.args) == 1 and not e.keywords
                and isinstance(e.args[0], (ast.GeneratorExp, ast.ListComp)) and e.func.id not in s.env):
            return None
        kind = e.func.id
        accs = self._unroll_comp(fr, e.args[0], s, as_truth=(kind != "sum"))
        if accs is None:
            return None
        results = []
        for s2, fs in accs:
            if kind == "sum":
                tot = Lin.const(0)
                okn = True
                for v in fs:
                    nv = self.num(v, s2)
                    if nv is None:
                        okn = False
                        break
                    tot = tot + nv.lin
                results.append((s2, Num(tot) if okn else Unk(self.fresh("sum"))))
                continue
            f = f_and(fs) if kind == "all" else f_or(fs)
            results.append((s2, Con(f) if isinstance(f, bool) else Bool(f)))
        return results

    def _bulk_add(self, fr, e, s):
        """``X.update(<elt> for t in it if c)`` / ``X.extend(...)`` over an iterable of unknown length: summarised like
        ``for t in it: if c: X.add(<elt>)`` (one symbolic iteration, the same hook events); None when not of that shape"""
        if not (isinstance(e.func, ast.Attribute) and e.func.attr in ("update", "extend") and len(e.args) == 1 and not e.keywords
                and isinstance(e.args[0], (ast.GeneratorExp, ast.ListComp, ast.SetComp)) and len(e.args[0].generators) == 1
                and not e.args[0].generators[0].is_async and isinstance(e.args[0].elt, ast.AST)):
            return None
        comp = e.args[0]
        try:
            if self._unroll_comp(fr, comp, s) is not None:
                return None           # known length: the ordinary evaluation passes the element tuple
        except AnalysisError:
            pass
        out = []
        for s1, base in self.eval(fr, e.func.value, s):
            for s2, _v in self._comp_as_loop(fr, comp, s1, "add" if e.func.attr == "update" else "append", result=base):
                s2.epoch += 1
                if isinstance(e.func.value, ast.Name) and isinstance(s2.env.get(e.func.value.id), Tup):
                    s2.env[e.func.value.id] = Unk(self.fresh("loopmut:" + e.func.value.id))
                out.append((s2, NONE))
        return out

    def e_Call(self, fr, e, s):
        aa = self._all_any(fr, e, s)
        if aa is not None:
            return aa
        ba = self._bulk_add(fr, e, s)
        if ba is not None:
            return ba
        out = []
        # evaluate callee
        if isinstance(e.func, ast.Attribute) and not self._static_chain(fr, e.func, s):
            pre = [(s2, Ref("bound", (b, e.func.attr), e.func.attr)) for s2, b in self.eval(fr, e.func.value, s)]
        else:
            pre = self.eval(fr, e.func, s)
        for s1, fn in pre:
            argexprs = [a.value if isinstance(a, ast.Starred) else a for a in e.args]
            kwexprs = [k.value for k in e.keywords]
            for s2, vs in self.eval_seq(fr, argexprs + kwexprs, s1):
                args = []
                starred_unknown = False
                for a, v in zip(e.args, vs):
                    if isinstance(a, ast.Starred):
                        if isinstance(v, Tup):
                            args.extend(v.items)
                        else:
                            starred_unknown = True
                    else:
                        args.append(v)
                kwargs = {}
                for k, v in zip(e.keywords, vs[len(e.args):]):
                    if k.arg is None:
                        # **d where d is a dict built from keywords in this function (dict(a=.., b=..) / dict()) and never
                        # changed afterwards: its entries are the keyword arguments
                        if isinstance(v, Obj) and isinstance(v.oid, tuple) and v.oid[:1] == ("kwdict",) and isinstance(k.value, ast.Name) \
                                and not self._name_mutated(fr, k.value.id):
                            kwargs.update(v.fields)
                        else:
                            starred_unknown = True
                    else:
                        kwargs[k.arg] = v
                out.extend(self.call(fr, e, fn, args, kwargs, s2, starred_unknown))
        return out

    def _name_mutated(self, fr, name):
        f = fr.func
        if f is None:
            return True
        for n in own_nodes(f.node):
            if isinstance(n, (ast.Subscript, ast.Attribute)) and isinstance(n.ctx, (ast.Store, ast.Del)) and isinstance(n.value, ast.Name) and n.value.id == name:
                return True
            if isinstance(n, ast.Call) and isinstance(n.func, ast.Attribute) and isinstance(n.func.value, ast.Name) and n.func.value.id == name \
                    and n.func.attr in ("update", "pop", "popitem", "clear", "setdefault", "__setitem__", "__delitem__"):
                return True
        return False

    def call(self, fr, e, fn, args, kwargs, s, starred_unknown=False):
        # bound method
        if isinstance(fn, Ref) and fn.kind == "bound":
            base, attr = fn.target
            return self.call_method(fr, e, base, attr, args, kwargs, s, starred_unknown)
        if isinstance(fn, Ref) and fn.kind == "func":
            return self.call_func(fr, e, fn.target, args, kwargs, s, starred_unknown)
        if isinstance(fn, Ref) and fn.kind == "localfunc":
            return self.call_closure(fr, e, fn.target, args, kwargs, s)
        if isinstance(fn, Ref) and fn.kind == "class":
            return self.call_class(fr, e, fn.target, args, kwargs, s)
        if isinstance(fn, Ref) and fn.kind == "ext":
            return self.call_ext(fr, e, fn.name, args, kwargs, s, starred_unknown)
        if isinstance(fn, Ref) and fn.kind == "partial":
            target, pargs, pkw = fn.target
            kw = dict(pkw)
            kw.update(kwargs)
            return self.call(fr, e, target, list(pargs) + args, kw, s, starred_unknown)
        res = self.hooks.on_call(self, fr, e, ("value", fn), args, kwargs, s)
        if res is not None:
            return res if isinstance(res, list) else [(s, res)]
        self._mark_opaque(fr)
        s2 = s.copy()
        s2.epoch += 1
        return [(s2, Unk(("callres", vkey(fn), tuple(vkey(a) for a in args), s.epoch)))]

    NONRAISING_EXT = {"len", "isinstance", "min", "max", "range", "enumerate", "reversed", "tuple", "list", "str", "repr",
                      "print", "warnings.warn", "bool", "functools.partial", "sorted", "set", "dict", "zip", "any", "all",
                      "id", "abs", "callable", "type", "frozenset"}
    NONRAISING_METH = {"append", "appendleft", "extend", "add", "update", "get", "items", "keys", "values", "format", "join",
                       "lower", "upper", "capitalize", "strip", "startswith", "endswith", "find", "rfind", "count", "isnumeric",
                       "isdigit", "isalpha", "islower", "isupper", "copy", "setdefault", "discard", "clear", "split", "replace",
                       "insert", "sort", "reverse", "groups", "match", "cache_clear"}

    def _mark_opaque(self, fr):
        f = fr
        while f is not None:
            for i in range(len(f.try_opaque)):
                f.try_opaque[i] = True
            f = f.parent

    def is_pure(self, f):
        """no write to objects that exist outside f's own dynamic extent"""
        if f.qual in self._pure:
            return self._pure[f.qual]
        pt = self.ctx.pt
        region = self.ctx.cg.region(f)
        ok = True
        for q in region:
            for r in pt.records(q):
                if r.op == "memo-clear" or r.op == "rebind-global":
                    ok = False
                    break
                for t in r.targets:
                    if not (isinstance(t, tuple) and t[0] == "alloc" and t[1] in region):
                        g = self.db.funcs.get(q)
                        if g is not None and g.name == "__init__" and r.op == "store-attr" and r.detail.startswith(g.posparams[0] + "."):
                            continue
                        ok = False
                        break
        self._pure[f.qual] = ok
        return ok

    def call_func(self, fr, e, f, args, kwargs, s, starred_unknown=False):
        res = self.hooks.on_call(self, fr, e, f, args, kwargs, s)
        if res is not None:
            return res if isinstance(res, list) else [(s, res)]
        can_inline = (not f.is_generator and fr.depth < self.max_depth and f.qual not in fr.stack_quals()
                      and f.qual not in self.opaque_funcs and not starred_unknown
                      and not self.hooks.opaque_call(self, fr, e, f, args, kwargs, s))
        if can_inline:
            bound = self.bind_args(f, args, kwargs)
            if bound is not None:
                sub = self.run_function(f, bound, s, fr.depth + 1, fr)
                out = []
                for rs, rv in sub.returns:
                    rs2 = rs.copy()
                    rs2.env = self._caller_env(s, rs)
                    out.append((rs2, rv))
                for rs, node, exc in sub.raises:
                    rs2 = rs.copy()
                    rs2.env = self._caller_env(s, rs)
                    self._raise_propagate(fr, node, exc, rs2)
                return out
        self._mark_opaque(fr)
        s2 = s.copy()
        if not self.is_pure(f):
            s2.epoch += 1
        term = ("call", f.qual, tuple(vkey(a) for a in args), tuple(sorted((k, vkey(v)) for k, v in kwargs.items())),
                s.epoch if not self.is_pure(f) or any(isinstance(a, Obj) for a in args) else 0)
        if f.is_generator:
            return [(s2, Unk(("gen", f.qual, next(self.counter))))]
        return [(s2, Unk(term))]

    @staticmethod
    def _caller_env(caller_state, callee_state, names=()):
        """environment of the caller after an inlined call: its own variables, the ghosts as the callee left
        them, and (for closures) the enclosing-scope variables the callee could rebind or mutate"""
        env = dict(caller_state.env)
        for k, v in callee_state.env.items():
            if k.startswith("$") or k in names:
                env[k] = v
        return env

    def call_closure(self, fr, e, f, args, kwargs, s):
        """a nested function called from the function that defines it: inlined with the enclosing variables
        visible; nonlocal rebinding and mutation of captured containers flow back to the caller"""
        res = self.hooks.on_call(self, fr, e, f, args, kwargs, s)
        if res is not None:
            return res if isinstance(res, list) else [(s, res)]
        if f.outer is fr.func and not f.is_generator and fr.depth < self.max_depth and f.qual not in fr.stack_quals():
            bound = self.bind_args(f, args, kwargs)
            if bound is not None:
                shared = {k: v for k, v in s.env.items() if k not in f.locals and not k.startswith("$")}
                sub = self.run_function(f, bound, s, fr.depth + 1, fr, captured=shared)
                out = []
                for rs, rv in sub.returns:
                    rs2 = rs.copy()
                    rs2.env = self._caller_env(s, rs, shared)
                    out.append((rs2, rv))
                for rs, node, exc in sub.raises:
                    rs2 = rs.copy()
                    rs2.env = self._caller_env(s, rs, shared)
                    self._raise_propagate(fr, node, exc, rs2)
                return out
        # unknown calling context: the closure may rebind its nonlocals and mutate what it captured
        self._mark_opaque(fr)
        s2 = s.copy()
        s2.epoch += 1
        for k in f.declared_nonlocal:
            if k in s2.env:
                s2.env[k] = Unk(self.fresh("nonlocal:" + k))
        return [(s2, Unk(("callres", f.qual, tuple(vkey(a) for a in args), s.epoch)))]

    def bind_args(self, f, args, kwargs, skip_self=False):
        pos = list(f.posparams)
        if skip_self:
            pos = pos[1:]
        if len(args) > len(pos) and not f.vararg:
            return None
        bound = {}
        for p, a in zip(pos, args):
            bound[p] = a
        if f.vararg:
            bound[f.vararg] = Tup(args[len(pos):])
        for k, v in kwargs.items():
            if k not in f.params:
                return None
            bound[k] = v
        return bound

    def call_class(self, fr, e, c, args, kwargs, s):
        res = self.hooks.on_call(self, fr, e, c, args, kwargs, s)
        if res is not None:
            return res if isinstance(res, list) else [(s, res)]
        oid = ("new", c.qual, getattr(e, "lineno", 0), next(self.counter))
        o = Obj(oid, c.qual, {})
        init = c.methods.get("__init__")
        if init is not None and fr.depth < self.max_depth:
            bound = self.bind_args(init, args, kwargs, skip_self=True)
            if bound is not None:
                bound[init.posparams[0]] = o
                sub = self.run_function(init, bound, s, fr.depth + 1, fr)
                out = []
                for rs, _ in sub.returns:
                    rs2 = rs.copy()
                    rs2.env = self._caller_env(s, rs)
                    out.append((rs2, o))
                for rs, node, exc in sub.raises:
                    self._raise_propagate(fr, node, exc, rs)
                return out
        elif c.is_dataclass:
            names = [n for n, st in c.class_attrs.items() if isinstance(st, ast.AnnAssign)]
            for n, a in zip(names, args):
                o.fields[n] = a
            for k, v in kwargs.items():
                o.fields[k] = v
        return [(s, o)]

    def call_method(self, fr, e, base, attr, args, kwargs, s, starred_unknown=False):
        # package methods
        cands = [m for m in self.db.method_index.get(attr, []) if not m.is_property]
        if cands and isinstance(base, (Obj, Unk)) and not (isinstance(base, Obj) and base.cls and
                                                           all(m.cls.qual != base.cls for m in cands)):
            m = cands[0]
            if isinstance(base, Obj) and base.cls:
                m = [x for x in cands if x.cls.qual == base.cls][0]
            res = self.hooks.on_call(self, fr, e, m, [base] + args, kwargs, s)
            if res is not None:
                return res if isinstance(res, list) else [(s, res)]
            if m.qual in self.inline_methods and fr.depth < self.max_depth and m.qual not in fr.stack_quals():
                bound = self.bind_args(m, args, kwargs, skip_self=not m.is_static)
                if bound is not None:
                    if not m.is_static:
                        bound[m.posparams[0]] = base
                    sub = self.run_function(m, bound, s, fr.depth + 1, fr)
                    out = []
                    for rs, rv in sub.returns:
                        rs2 = rs.copy()
                        rs2.env = self._caller_env(s, rs)
                        out.append((rs2, rv))
                    for rs, node, exc in sub.raises:
                        rs2 = rs.copy()
                        rs2.env = self._caller_env(s, rs)
                        self._raise_propagate(fr, node, exc, rs2)
                    return out
            self._mark_opaque(fr)
            s2 = s.copy()
            pure = self.is_pure(m)
            if not pure:
                s2.epoch += 1
            term = ("mcall", attr, vkey(base), tuple(vkey(a) for a in args),
                    tuple(sorted((k, vkey(v)) for k, v in kwargs.items())), s.epoch)
            return [(s2, Unk(term))]
        # methods of builtin values
        return self.builtin_method(fr, e, base, attr, args, kwargs, s)

    def builtin_method(self, fr, e, base, attr, args, kwargs, s):
        res = self.hooks.on_call(self, fr, e, ("method", attr, base), args, kwargs, s)
        if res is not None:
            return res if isinstance(res, list) else [(s, res)]
        if isinstance(base, Ref) and base.kind == "folded" and isinstance(base.target, FPattern) and \
                attr in ("match", "fullmatch") and len(args) == 1:
            t = ("match", base.name, attr, vkey(args[0]))
            self.origin[t] = ("match", base, attr, args[0])
            return [(s, NONE), (s, Unk(t))]
        if isinstance(base, Unk) and isinstance(base.term, tuple) and base.term[0] == "match" and attr == "groups" and not args:
            import re as _re
            pat = self.origin[base.term][1].target
            n = _re.compile(pat.pattern, pat.flags).groups
            items = []
            for k in range(1, n + 1):
                t = ("group", base.term, k)
                self.origin[t] = ("group", self.origin[base.term], k)
                items.append(Unk(t))
            return [(s, Tup(items))]
        if isinstance(base, Ref) and base.kind == "folded" and isinstance(base.target, dict):
            if attr == "get" and args:
                default = args[1] if len(args) > 1 else NONE
                return self.folded_lookup(fr, e, base, args[0], default, s)
            if attr in ("items", "keys", "values"):
                d = base.target
                if len(d) <= MAX_UNROLL:
                    seq = {"items": [tuple(kv) for kv in d.items()], "keys": list(d.keys()), "values": list(d.values())}[attr]
                    return [(s, self.wrap(tuple(seq)))]
        if isinstance(base, Con) and isinstance(base.value, str):
            if all(isinstance(a, Con) or (isinstance(a, Num) and a.lin.is_const()) for a in args) and not kwargs and \
                    attr in ("format", "lower", "upper", "capitalize", "strip", "startswith", "endswith", "find",
                             "count", "isnumeric", "isdigit", "isalpha", "join", "split", "replace"):
                pa = [a.value if isinstance(a, Con) else int(a.lin.k) for a in args]
                try:
                    return [(s, self.wrap(getattr(base.value, attr)(*pa)))]
                except Exception:
                    pass
        if isinstance(base, Con) and isinstance(base.value, str) and attr == "format" and not kwargs:
            parts = self._expand_format(base.value, args)
            if parts is not None:
                return [(s, self._mk_str(parts))]
        if isinstance(base, Con) and isinstance(base.value, str) and attr == "join" and len(args) == 1 and isinstance(args[0], Tup):
            parts = []
            okj = True
            for i, it in enumerate(args[0].items):
                if i and base.value:
                    parts.append(("lit", base.value))
                p = self._str_parts(it)
                if p is None:
                    okj = False
                    break
                parts.extend(p)
            if okj:
                return [(s, Str(tuple(parts)))]
        if (self._is_str(base) or isinstance(base, Unk)) and attr in ("format", "join", "lower", "upper", "capitalize", "strip",
                                                                     "lstrip", "rstrip", "replace", "title", "zfill"):
            term = ("bmeth", attr, vkey(base), tuple(vkey(a) for a in args), 0, 0)
            self.origin[term] = ("bmeth", attr, base, list(args))
            return [(s, Str((("sym", term),)))]
        if attr == "count" and len(args) == 1 and isinstance(base, (Unk, Str)) and isinstance(args[0], Con):
            t = ("count", vkey(base), vkey(args[0]))
            self.origin[t] = ("count", base, args[0])
            s2 = s.copy()
            s2.add_lin(ge(Lin.var(t), 0))
            return [(s2, Num(Lin.var(t)))]
        if attr in ("find", "rfind", "index", "count"):
            t = self.fresh(attr)
            self.origin[t] = (attr, base, tuple(args))
            s2 = s.copy()
            if attr in ("find", "rfind"):
                s2.add_lin(ge(Lin.var(t), -1))
                # r = s.find(x, k)  =>  r = -1 or r >= k
                if len(args) >= 2:
                    k = self.num(args[1], s)
                    if k is not None:
                        out = []
                        for s3 in assume(("lin", eq(Lin.var(t), -1)[0], "=="), s2):
                            out.append((s3, Num(Lin.var(t))))
                        s4 = s2.copy()
                        s4.add_lin(ge(Lin.var(t), k.lin))
                        out.append((s4, Num(Lin.var(t))))
                        return out
            else:
                s2.add_lin(ge(Lin.var(t), 0))
            return [(s2, Num(Lin.var(t)))]
        mutators = {"append", "appendleft", "extend", "insert", "pop", "popleft", "remove", "clear", "sort", "reverse",
                    "update", "setdefault", "add", "discard", "popitem"}
        # precise model of list growth for a local list of known length (straight-line / unrolled code)
        if isinstance(base, Tup) and base.kind == "list" and isinstance(e, ast.Call) and isinstance(e.func, ast.Attribute) \
                and isinstance(e.func.value, ast.Name) and s.env.get(e.func.value.id) is base and not kwargs:
            nm = e.func.value.id
            new = None
            if attr == "append" and len(args) == 1:
                new = Tup(base.items + (args[0],), "list")
            elif attr == "extend" and len(args) == 1 and isinstance(args[0], Tup):
                new = Tup(base.items + args[0].items, "list")
            elif attr == "insert" and len(args) == 2 and isinstance(args[0], Num) and args[0].lin.is_const() \
                    and 0 <= args[0].lin.k <= len(base.items):
                k = int(args[0].lin.k)
                new = Tup(base.items[:k] + (args[1],) + base.items[k:], "list")
            if new is not None and len(new.items) <= 64:
                s2 = s.copy()
                s2.env[nm] = new
                return [(s2, NONE)]
        if attr not in self.NONRAISING_METH:
            self._mark_opaque(fr)
        s2 = s
        if attr in mutators:
            s2 = s.copy()
            s2.epoch += 1
            # the receiver variable loses its known structure
            if isinstance(e, ast.Call) and isinstance(e.func, ast.Attribute):
                self._kill_container(fr, e.func, s2)
        return [(s2, Unk(("bmeth", attr, vkey(base), tuple(vkey(a) for a in args), s.epoch, next(self.counter) if attr in mutators or attr in ("pop",) else 0)))]

    def call_ext(self, fr, e, name, args, kwargs, s, starred_unknown=False):
        res = self.hooks.on_call(self, fr, e, ("ext", name), args, kwargs, s)
        if res is not None:
            return res if isinstance(res, list) else [(s, res)]
        short = name[9:] if name.startswith("builtins.") else name
        if short not in self.NONRAISING_EXT and short != "next":
            self._mark_opaque(fr)
        if short in ("min", "max") and len(args) >= 2 and not starred_unknown:
            if all(vkey(a) == vkey(args[0]) for a in args[1:]) and not kwargs:
                return [(s, args[0])]         # min/max of equal values
            nums = [self.num(a, s) for a in args]
            if all(n is not None for n in nums):
                out = []
                for i, n in enumerate(nums):
                    sts = [s]
                    for j, m in enumerate(nums):
                        if i == j:
                            continue
                        if short == "min":
                            c = le(n.lin, m.lin) if j > i else lt(n.lin, m.lin)
                        else:
                            c = ge(n.lin, m.lin) if j > i else gt(n.lin, m.lin)
                        sts = [s3 for s2 in sts for s3 in assume(("lin", c[0], c[1]), s2)]
                    for s2 in sts:
                        out.append((s2, Num(n.lin)))
                return out
        if short == "sorted" and len(args) == 1 and not kwargs and isinstance(args[0], Tup) and len(args[0].items) == 2:
            # sorted((a, b)) of two numbers: [a, b] where a <= b, [b, a] otherwise
            na, nb = self.num(args[0].items[0], s), self.num(args[0].items[1], s)
            if na is not None and nb is not None:
                out = []
                c1, c2 = le(na.lin, nb.lin), gt(na.lin, nb.lin)
                for s2 in assume(("lin", c1[0], c1[1]), s):
                    out.append((s2, Tup([Num(na.lin), Num(nb.lin)], "list")))
                for s2 in assume(("lin", c2[0], c2[1]), s):
                    out.append((s2, Tup([Num(nb.lin), Num(na.lin)], "list")))
                if out:
                    return out
        if short == "len" and len(args) == 1:
            a = args[0]
            if isinstance(a, Tup):
                return [(s, Num(Lin.const(len(a.items))))]
            if isinstance(a, Con) and isinstance(a.value, str):
                return [(s, Num(Lin.const(len(a.value))))]
            if isinstance(a, Ref) and a.kind == "folded":
                return [(s, Num(Lin.const(len(a.target))))]
            t = ("len", vkey(a), s.epoch if not isinstance(a, (Unk, Con, Str)) else 0)
            self.origin[t] = ("len", a)
            s2 = s.copy()
            s2.add_lin(ge(Lin.var(t), 0))
            return [(s2, Num(Lin.var(t)))]
        if short in ("int", "abs") and len(args) == 1:
            n = args[0] if isinstance(args[0], Num) else None
            if short == "int" and n is not None:
                if n.lin.is_const() and n.lin.k.denominator != 1:
                    import math
                    return [(s, Num(Lin.const(math.trunc(n.lin.k))))]
                return [(s, n)]
            t = self.fresh(short)
            self.origin[t] = (short, args[0])
            s2 = s.copy()
            if short == "abs":
                s2.add_lin(ge(Lin.var(t), 0))
            return [(s2, Num(Lin.var(t)))]
        if short == "divmod" and len(args) == 2:
            na, nb = self.num(args[0], s), self.num(args[1], s)
            if na is not None and nb is not None and nb.lin.is_const() and nb.lin.k > 0 and nb.lin.k.denominator == 1:
                c = int(nb.lin.k)
                q = ("div", na.lin.key(), c)
                r = ("mod", na.lin.key(), c)
                s2 = s.copy()
                s2.add_lin(eq(na.lin, Lin.var(q).scale(c) + Lin.var(r)))
                s2.add_lin(ge(Lin.var(r), 0))
                s2.add_lin(le(Lin.var(r), c - 1))
                return [(s2, Tup([Num(Lin.var(q)), Num(Lin.var(r))]))]
            return [(s, Tup([Unk(self.fresh("divq")), Unk(self.fresh("divr"))]))]
        if short == "range":
            if all(isinstance(a, Num) and a.lin.is_const() for a in args) and args:
                r = range(*[int(a.lin.k) for a in args])
                if len(r) <= MAX_UNROLL:
                    return [(s, Tup([Num(Lin.const(i)) for i in r]))]
            return [(s, Unk(("range", tuple(vkey(a) for a in args))))]
        if short in ("enumerate", "reversed", "tuple", "list") and args and isinstance(args[0], Ref) and args[0].kind == "folded" \
                and isinstance(args[0].target, (tuple, list)) and len(args[0].target) <= MAX_UNROLL:
            args = [Tup([self.wrap(x) for x in args[0].target])] + list(args[1:])
        if short == "enumerate" and args and isinstance(args[0], Tup):
            start = 0
            if len(args) > 1 or "start" in kwargs:
                sv = args[1] if len(args) > 1 else kwargs["start"]
                start = int(sv.lin.k) if isinstance(sv, Num) and sv.lin.is_const() else None
            if start is not None:
                return [(s, Tup([Tup([Num(Lin.const(i + start)), x]) for i, x in enumerate(args[0].items)]))]
        if short == "itertools.islice" and len(args) == 2 and isinstance(args[1], Num) and args[1].lin.is_const() \
                and 0 <= args[1].lin.k <= 8 and not isinstance(args[0], Tup):
            # up to n items taken with next(): the list of those that were there
            END = Con("$islice-end$")
            states, results = [(s, [])], []
            for _ in range(int(args[1].lin.k)):
                nxt = []
                for st_, items in states:
                    for s2, v in self.call_ext(fr, e, "builtins.next", [args[0], END], {}, st_):
                        if isinstance(v, Con) and v.value == END.value:
                            results.append((s2, items))
                        else:
                            nxt.append((s2, items + [v]))
                states = nxt
            results.extend(states)
            return [(s2, Tup(items, "list")) for s2, items in results]
        if short == "itertools.islice" and len(args) == 2 and isinstance(args[0], Tup) and isinstance(args[1], Num) and args[1].lin.is_const():
            return [(s, Tup(args[0].items[:int(args[1].lin.k)], "list"))]
        if short == "zip" and args and all(isinstance(a, Tup) for a in args) and not kwargs:
            return [(s, Tup([Tup(list(xs)) for xs in zip(*[a.items for a in args])]))]
        if short == "itertools.combinations" and len(args) == 2 and isinstance(args[0], Tup) and isinstance(args[1], Num) \
                and args[1].lin.is_const() and len(args[0].items) <= 6:
            import itertools as _it
            return [(s, Tup([Tup(list(c)) for c in _it.combinations(args[0].items, int(args[1].lin.k))]))]
        if short == "reversed" and args and isinstance(args[0], Tup):
            return [(s, Tup(tuple(reversed(args[0].items))))]
        if short in ("tuple", "list") and args and isinstance(args[0], Tup):
            return [(s, Tup(args[0].items, short))]
        if short in ("tuple", "list") and not args:
            return [(s, Tup((), short))]
        if short == "isinstance" and len(args) == 2:
            a, t = args
            tn = t.name if isinstance(t, Ref) else None
            if isinstance(a, Con) and isinstance(a.value, str) and tn == "builtins.str":
                return [(s, TRUE)]
            if isinstance(a, Num) and tn == "builtins.int":
                return [(s, TRUE)]
            return [(s, Bool(("atom", ("isinstance", vkey(a), repr(tn or vkey(t))))))]
        if short == "float" and args and isinstance(args[0], Con) and args[0].value == "inf":
            t = "+inf"
            return [(s, Con(float("inf")))]
        if short == "functools.partial" and args:
            return [(s, Ref("partial", (args[0], tuple(args[1:]), dict(kwargs))))]
        if short == "next":
            s2 = s.copy()
            s2.epoch += 1
            if len(args) == 1:
                self._raise(fr, e, "StopIteration", s)
            out = [(s2, Unk(("next", vkey(args[0]) if args else None, next(self.counter))))]
            if len(args) == 2:
                s3 = s.copy()
                s3.epoch += 1
                out.append((s3, args[1]))
            return out
        if short in ("str", "repr"):
            t = ("str", tuple(vkey(a) for a in args))
            if len(args) == 1:
                self.origin[t] = ("str", args[0])
            return [(s, Unk(t))]
        if short == "round" and len(args) == 1 and isinstance(args[0], Num) and args[0].lin.is_const():
            # Python's round(): half to even, on the exact rational
            import math
            q = args[0].lin.k
            fl = math.floor(q)
            d = q - fl
            r_ = fl if d < Fraction(1, 2) else (fl + 1 if d > Fraction(1, 2) else (fl if fl % 2 == 0 else fl + 1))
            return [(s, Num(Lin.const(r_)))]
        if short == "dict" and not args and not starred_unknown:
            # dict(a=x, b=y) / dict(): a dict whose entries are known (usable as **kwargs, see e_Call)
            return [(s, Obj(("kwdict", next(self.counter)), "builtins.dict", dict(kwargs)))]
        if short == "itertools.product" and args and not kwargs:
            # the product of sequences of statically known length is its tuple of tuples (row-major, as itertools yields it)
            seqs = []
            for a in args:
                q = self._concrete_seq(a)
                if q is None and isinstance(a, Unk) and isinstance(a.term, tuple) and a.term[:2] == ("ext", "range"):
                    q = None
                seqs.append(q)
            if all(q is not None for q in seqs):
                total = 1
                for q in seqs:
                    total *= len(q)
                if total <= 64:
                    return [(s, Tup([Tup(list(c)) for c in itertools.product(*seqs)], "list"))]
        if short in ("sorted", "set", "dict", "frozenset", "sum", "any", "all", "zip", "map", "filter", "iter",
                     "enumerate", "reversed", "tuple", "list", "min", "max", "collections.deque", "itertools.product",
                     "itertools.chain", "itertools.filterfalse", "bool", "print", "warnings.warn", "ord", "chr",
                     "re.compile", "float", "divmod", "round", "id", "hash", "getattr", "hasattr", "callable", "type"):
            return [(s, Unk(("ext", short, tuple(vkey(a) for a in args), next(self.counter) if short in ("iter",) else 0)))]
        if short in ("ValueError", "KeyError", "IndexError", "Exception", "TypeError", "RuntimeError", "StopIteration",
                     "AssertionError"):
            return [(s, Unk(("exc", short)))]
        s2 = s.copy()
        s2.epoch += 1
        return [(s2, Unk(("ext", short, tuple(vkey(a) for a in args), s.epoch, next(self.counter))))]


def _as_load(t):
    import copy
    t2 = copy.copy(t)
    t2.ctx = ast.Load()
    return t2


def _names(t):
    if isinstance(t, ast.Name):
        yield t.id
    elif isinstance(t, (ast.Tuple, ast.List)):
        for e in t.elts:
            yield from _names(e)
    elif isinstance(t, ast.Starred):
        yield from _names(t.value)


def _pyop(op, a, b):
    if isinstance(op, ast.Add):
        return a + b
    if isinstance(op, ast.Sub):
        return a - b
    if isinstance(op, ast.Mult):
        return a * b
    if isinstance(op, ast.FloorDiv):
        return a // b
    if isinstance(op, ast.Mod):
        return a % b
    if isinstance(op, ast.Div):
        return a / b
    if isinstance(op, ast.Pow):
        return a ** b
    raise ValueError(op)


def _pycmp(op, a, b):
    if isinstance(op, ast.Lt):
        return a < b
    if isinstance(op, ast.LtE):
        return a <= b
    if isinstance(op, ast.Gt):
        return a > b
    if isinstance(op, ast.GtE):
        return a >= b
    raise ValueError(op)
