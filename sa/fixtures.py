"""Engine fixtures (tiny synthetic packages written to a temp dir and analysed)."""
import os
import shutil
import tempfile
import textwrap


def _mk(files):
    d = tempfile.mkdtemp(prefix="safx_")
    os.makedirs(os.path.join(d, "selfies"))
    for rel, src in files.items():
        p = os.path.join(d, "selfies", rel)
        os.makedirs(os.path.dirname(p), exist_ok=True)
        with open(p, "w") as fh:
            fh.write(textwrap.dedent(src))
    return d


def fx_pointsto_alias_and_mutation():
    from .db import DB
    from .cg import CallGraph
    from .pts import PointsTo
    d = _mk({"__init__.py": """
        __all__ = ["get", "put"]
        from .m import get, put
        """, "m.py": """
        T = {"a": 1}
        def get():
            return T
        def put(x):
            T["k"] = x
        """})
    try:
        db = DB(d)
        cg = CallGraph(db)
        pt = PointsTo(db, cg.ty, cg)
        ret = pt.retained()
        r = pt.v("selfies.m.get", "<ret>")
        assert any(i in ret for i in r), "returned global dict must be retained"
        recs = [x for x in pt.records("selfies.m.put") if x.op == "store-sub"]
        assert recs and any(t in ret for t in recs[0].targets), "store into global dict must be seen"
    finally:
        shutil.rmtree(d)


def fx_folder_closed_tables():
    from .db import DB
    from .fold import Folder
    d = _mk({"__init__.py": "__all__ = []\n", "m.py": """
        def build():
            c = dict()
            for L in range(1, 3):
                for b in ["", "="]:
                    c["[{}X{}]".format(b, L)] = (len(b) + 1, L)
            return c
        TAB = build()
        """})
    try:
        fo = Folder(DB(d))
        v = fo.global_value("selfies.m", "TAB")
        assert v == {"[X1]": (1, 1), "[=X1]": (2, 1), "[X2]": (1, 2), "[=X2]": (2, 2)}, v
    finally:
        shutil.rmtree(d)


def fx_ghost_counter_relational_invariant():
    """the interpreter infers `n == $consumed` for a correct consumer loop and loses it for a wrong one"""
    from .core import Ctx
    from .sym import Engine, State, Num
    from .lin import Lin, eq
    from rules.attrib import NextModel, GHOST
    d = _mk({"__init__.py": "__all__ = []\n", "m.py": """
        def good(it, budget):
            n = 0
            while n < budget:
                try:
                    next(it)
                    n += 1
                except StopIteration:
                    break
            return n
        def bad(it, budget):
            n = 0
            while n < budget:
                try:
                    next(it)
                except StopIteration:
                    pass
                n += 1
            return n
        """})
    try:
        ctx = Ctx(d, "quick")

        class H(NextModel):
            def on_call(self, eng, fr, node, callee, args, kwargs, st):
                if self.is_next(callee) and args:
                    return self.model_next(eng, fr, node, args, st)
                return None
        for name, want in (("good", True), ("bad", False)):
            st = State()
            st.env[GHOST] = Num(Lin.const(0))
            fr = Engine(ctx, H()).run_function(ctx.fn("selfies.m." + name), {}, state=st)
            assert fr.returns, name
            ok = all(isinstance(v, Num) and s.entails(eq(v.lin - s.env[GHOST].lin, 0)) for s, v in fr.returns)
            assert ok is want, "%s: returned count == symbols consumed should be %s" % (name, want)
    finally:
        shutil.rmtree(d)


def fx_closure_with_nonlocal_counter():
    """a nested function that rebinds a nonlocal and mutates a captured list is inlined with the shared variables"""
    from .core import Ctx
    from .sym import Engine, Hooks, State, Num, Unk, vkey, NONE
    from .lin import Lin, eq, ge
    d = _mk({"__init__.py": "__all__ = []\n", "m.py": """
        def w(out, toks, off, res):
            pos = off - 1
            def emit(t):
                nonlocal pos
                out.append(t)
                pos += len(t)
            for t in toks:
                emit(t)
                res.append(pos)
        def w_bad(out, toks, off, res):
            pos = off - 1
            def emit(t):
                nonlocal pos
                out.append(t)
                pos += len(t)
            for t in toks:
                emit(t)
                out.append("%")
                res.append(pos)
        """})
    try:
        ctx = Ctx(d, "quick")
        for name, want in (("w", True), ("w_bad", False)):
            f = ctx.fn("selfies.m." + name)
            seen = []

            class H(Hooks):
                def on_call(self, eng, fr, node, callee, args, kwargs, st):
                    if isinstance(callee, tuple) and callee[0] == "method" and callee[1] == "append" and len(args) == 1:
                        if vkey(callee[2]) == ("unk", ("param", f.qual, "out")):
                            s2 = st.copy()
                            s2.epoch += 1
                            a = args[0]
                            if hasattr(a, "value") and isinstance(getattr(a, "value"), str):
                                ln = Lin.const(len(a.value))
                            else:
                                ln = Lin.var(("len", vkey(a), 0))
                                s2.add_lin(ge(ln, 0))
                            s2.env["$len"] = Num(s2.env["$len"].lin + ln)
                            return [(s2, NONE)]
                        if vkey(callee[2]) == ("unk", ("param", f.qual, "res")):
                            seen.append((args[0], st))
                            return [(st, NONE)]
                    return None
            st = State()
            st.env["$len"] = Num(Lin.const(0))
            off = Lin.var(("param", f.qual, "off"))
            Engine(ctx, H()).run_function(f, {"off": Num(off)}, state=st)
            assert seen, name
            ok = all(isinstance(v, Num) and s.entails(eq(v.lin - (s.env["$len"].lin - Lin.const(1) + off), 0)) for v, s in seen)
            assert ok is want, "%s: reported position == characters written - 1 + offset should be %s" % (name, want)
    finally:
        shutil.rmtree(d)


def fx_comprehension_unrolling_on_symbolic_lists():
    """sum over a nested comprehension with a filter, on a list of symbolic integers under a total order"""
    from .core import Ctx
    from .sym import Engine, Hooks, State, Num, Tup
    from .lin import Lin, ge
    d = _mk({"__init__.py": "__all__ = []\n", "m.py": """
        import itertools
        def inv_a(p):
            return sum(1 for i, a in enumerate(p) for b in p[i + 1:] if a > b)
        def inv_b(p):
            return sum(1 for a, b in itertools.combinations(p, 2) if a > b)
        def desc(p):
            return sum(1 for a, b in zip(p, p[1:]) if a > b)
        """})
    try:
        ctx = Ctx(d, "quick")
        xs = [Lin.var(("x", k)) for k in range(3)]
        st = State()
        # x2 < x0 < x1  : permutation with ranks [2, 3, 1] -> 2 inversions, 1 descent
        st.add_lin(ge(xs[0] - xs[2], 1))
        st.add_lin(ge(xs[1] - xs[0], 1))
        want = {"inv_a": 2, "inv_b": 2, "desc": 1}
        for name, w in want.items():
            fr = Engine(ctx, Hooks()).run_function(ctx.fn("selfies.m." + name), {"p": Tup([Num(x) for x in xs], "list")}, state=st)
            vals = {int(v.lin.k) for s, v in fr.returns if isinstance(v, Num) and v.lin.is_const()}
            assert vals == {w}, "%s: expected %d, got %r" % (name, w, [str(v) for _, v in fr.returns])
    finally:
        shutil.rmtree(d)


def fx_set_comprehension_is_summarised_like_a_loop():
    """{f(x) for x in xs if c(x)} over an unknown iterable produces the same hook events as the for/if/add loop"""
    from .core import Ctx
    from .sym import Engine, Hooks
    d = _mk({"__init__.py": "__all__ = []\n", "m.py": """
        def a(table):
            return {k + "!" for k, v in table.items() if v > 0}
        def b(table):
            out = set()
            for k, v in table.items():
                if v > 0:
                    out.add(k + "!")
            return out
        """})
    try:
        ctx = Ctx(d, "quick")
        res = {}
        for name in ("a", "b"):
            adds, loops = [], []

            class H(Hooks):
                def on_call(self, eng, fr, node, callee, args, kwargs, st):
                    if isinstance(callee, tuple) and callee[0] == "method" and callee[1] == "add":
                        adds.append(len(args))
                    return None

                def on_loop(self, eng, fr, node, syms, entered, back, exits, breaks):
                    loops.append((len(entered), len(back)))
            Engine(ctx, H()).run_function(ctx.fn("selfies.m." + name), {})
            res[name] = (len(adds), loops)
        assert res["a"][0] == res["b"][0] == 1 and len(res["a"][1]) == len(res["b"][1]) == 1, res
        assert res["a"][1][0][1] == res["b"][1][0][1] == 2, res      # two paths: added / skipped
    finally:
        shutil.rmtree(d)
