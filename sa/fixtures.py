"""Engine fixtures (tiny synthetic packages written to a temp dir and analysed)."""
import os
import shutil
import tempfile
import textwrap


def _mk(files):
    d = tempfile.mkdtemp(prefix="safx_")
    os.makedirs(os.path.join(d, "selfies"))
    for rel, src in files.items():
        p = os.path.join(d, "selfies", rel)
        os.makedirs(os.path.dirname(p), exist_ok=True)
        with open(p, "w") as fh:
            fh.write(textwrap.dedent(src))
    return d


def fx_pointsto_alias_and_mutation():
    from .db import DB
    from .cg import CallGraph
    from .pts import PointsTo
    d = _mk({"__init__.py": """
        __all__ = ["get", "put"]
        from .m import get, put
        """, "m.py": """
        T = {"a": 1}
        def get():
            return T
        def put(x):
            T["k"] = x
        """})
    try:
        db = DB(d)
        cg = CallGraph(db)
        pt = PointsTo(db, cg.ty, cg)
        ret = pt.retained()
        r = pt.v("selfies.m.get", "<ret>")
        assert any(i in ret for i in r), "returned global dict must be retained"
        recs = [x for x in pt.records("selfies.m.put") if x.op == "store-sub"]
        assert recs and any(t in ret for t in recs[0].targets), "store into global dict must be seen"
    finally:
        shutil.rmtree(d)


def fx_folder_closed_tables():
    from .db import DB
    from .fold import Folder
    d = _mk({"__init__.py": "__all__ = []\n", "m.py": """
        def build():
            c = dict()
            for L in range(1, 3):
                for b in ["", "="]:
                    c["[{}X{}]".format(b, L)] = (len(b) + 1, L)
            return c
        TAB = build()
        """})
    try:
        fo = Folder(DB(d))
        v = fo.global_value("selfies.m", "TAB")
        assert v == {"[X1]": (1, 1), "[=X1]": (2, 1), "[X2]": (1, 2), "[=X2]": (2, 2)}, v
    finally:
        shutil.rmtree(d)
