"""Engine fixtures (tiny synthetic packages written to a temp dir and analysed)."""
import os
import shutil
import tempfile
import textwrap


def _mk(files):
    d = tempfile.mkdtemp(prefix="safx_")
    os.makedirs(os.path.join(d, "selfies"))
    for rel, src in files.items():
        p = os.path.join(d, "selfies", rel)
        os.makedirs(os.path.dirname(p), exist_ok=True)
        with open(p, "w") as fh:
            fh.write(textwrap.dedent(src))
    return d


def fx_pointsto_alias_and_mutation():
    from .db import DB
    from .cg import CallGraph
    from .pts import PointsTo
    d = _mk({"__init__.py": """
        __all__ = ["get", "put"]
        from .m import get, put
        """, "m.py": """
        T = {"a": 1}
        def get():
            return T
        def put(x):
            T["k"] = x
        """})
    try:
        db = DB(d)
        cg = CallGraph(db)
        pt = PointsTo(db, cg.ty, cg)
        ret = pt.retained()
        r = pt.v("selfies.m.get", "<ret>")
        assert any(i in ret for i in r), "returned global dict must be retained"
        recs = [x for x in pt.records("selfies.m.put") if x.op == "store-sub"]
        assert recs and any(t in ret for t in recs[0].targets), "store into global dict must be seen"
    finally:
        shutil.rmtree(d)


def fx_folder_closed_tables():
    from .db import DB
    from .fold import Folder
    d = _mk({"__init__.py": "__all__ = []\n", "m.py": """
        def build():
            c = dict()
            for L in range(1, 3):
                for b in ["", "="]:
                    c["[{}X{}]".format(b, L)] = (len(b) + 1, L)
            return c
        TAB = build()
        """})
    try:
        fo = Folder(DB(d))
        v = fo.global_value("selfies.m", "TAB")
        assert v == {"[X1]": (1, 1), "[=X1]": (2, 1), "[X2]": (1, 2), "[=X2]": (2, 2)}, v
    finally:
        shutil.rmtree(d)


def fx_ghost_counter_relational_invariant():
    """the interpreter infers `n == $consumed` for a correct consumer loop and loses it for a wrong one"""
    from .core import Ctx
    from .sym import Engine, State, Num
    from .lin import Lin, eq
    from rules.attrib import NextModel, GHOST
    d = _mk({"__init__.py": "__all__ = []\n", "m.py": """
        def good(it, budget):
            n = 0
            while n < budget:
                try:
                    next(it)
                    n += 1
                except StopIteration:
                    break
            return n
        def bad(it, budget):
            n = 0
            while n < budget:
                try:
                    next(it)
                except StopIteration:
                    pass
                n += 1
            return n
        """})
    try:
        ctx = Ctx(d, "quick")

        class H(NextModel):
            def on_call(self, eng, fr, node, callee, args, kwargs, st):
                if self.is_next(callee) and args:
                    return self.model_next(eng, fr, node, args, st)
                return None
        for name, want in (("good", True), ("bad", False)):
            st = State()
            st.env[GHOST] = Num(Lin.const(0))
            fr = Engine(ctx, H()).run_function(ctx.fn("selfies.m." + name), {}, state=st)
            assert fr.returns, name
            ok = all(isinstance(v, Num) and s.entails(eq(v.lin - s.env[GHOST].lin, 0)) for s, v in fr.returns)
            assert ok is want, "%s: returned count == symbols consumed should be %s" % (name, want)
    finally:
        shutil.rmtree(d)


def fx_closure_with_nonlocal_counter():
    """a nested function that rebinds a nonlocal and mutates a captured list is inlined with the shared variables"""
    from .core import Ctx
    from .sym import Engine, Hooks, State, Num, Unk, vkey, NONE
    from .lin import Lin, eq, ge
    d = _mk({"__init__.py": "__all__ = []\n", "m.py": """
        def w(out, toks, off, res):
            pos = off - 1
            def emit(t):
                nonlocal pos
                out.append(t)
                pos += len(t)
            for t in toks:
                emit(t)
                res.append(pos)
        def w_bad(out, toks, off, res):
            pos = off - 1
            def emit(t):
                nonlocal pos
                out.append(t)
                pos += len(t)
            for t in toks:
                emit(t)
                out.append("%")
                res.append(pos)
        """})
    try:
        ctx = Ctx(d, "quick")
        for name, want in (("w", True), ("w_bad", False)):
            f = ctx.fn("selfies.m." + name)
            seen = []

            class H(Hooks):
                def on_call(self, eng, fr, node, callee, args, kwargs, st):
                    if isinstance(callee, tuple) and callee[0] == "method" and callee[1] == "append" and len(args) == 1:
                        if vkey(callee[2]) == ("unk", ("param", f.qual, "out")):
                            s2 = st.copy()
                            s2.epoch += 1
                            a = args[0]
                            if hasattr(a, "value") and isinstance(getattr(a, "value"), str):
                                ln = Lin.const(len(a.value))
                            else:
                                ln = Lin.var(("len", vkey(a), 0))
                                s2.add_lin(ge(ln, 0))
                            s2.env["$len"] = Num(s2.env["$len"].lin + ln)
                            return [(s2, NONE)]
                        if vkey(callee[2]) == ("unk", ("param", f.qual, "res")):
                            seen.append((args[0], st))
                            return [(st, NONE)]
                    return None
            st = State()
            st.env["$len"] = Num(Lin.const(0))
            off = Lin.var(("param", f.qual, "off"))
            Engine(ctx, H()).run_function(f, {"off": Num(off)}, state=st)
            assert seen, name
            ok = all(isinstance(v, Num) and s.entails(eq(v.lin - (s.env["$len"].lin - Lin.const(1) + off), 0)) for v, s in seen)
            assert ok is want, "%s: reported position == characters written - 1 + offset should be %s" % (name, want)
    finally:
        shutil.rmtree(d)
