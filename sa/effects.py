"""E4 (part 2): effect summaries derived from the points-to results."""
import ast

from .db import own_nodes, unparse
from .pts import IMM, UNK

WRITE_OPS = ("store-sub", "store-attr", "mutcall", "del", "aug", "rebind-global")


class Effects:
    def __init__(self, ctx):
        self.ctx = ctx
        self.pt = ctx.pt
        self.cg = ctx.cg
        self.db = ctx.db
        self.retained = self.pt.retained()
        self._region = {}

    def region(self, f, consts=None):
        key = (f.qual, frozenset((consts or {}).items()))
        if key not in self._region:
            self._region[key] = self.cg.region(f, consts)
        return self._region[key]

    # ------------------------------------------------------------------
    def is_shared_target(self, t):
        """a record target denoting state that outlives a call"""
        if isinstance(t, tuple) and t[0] in ("modvar", "classattr", "memo"):
            return True
        return t in self.retained

    def direct_writes(self, scope, include_memo_clear=False):
        out = []
        for r in self.pt.records(scope):
            if r.op == "memo-clear":
                if include_memo_clear:
                    out.append(r)
                continue
            if r.op in WRITE_OPS and any(self.is_shared_target(t) for t in r.targets):
                out.append(r)
        return out

    def writes(self, f, consts=None, include_memo_clear=False):
        out = []
        for q in self.region(f, consts):
            out.extend(self.direct_writes(q, include_memo_clear))
        return out

    def has_write_effect(self, f):
        return bool(self.writes(f))

    def module_var_reads(self, f, consts=None):
        """(module, name) pairs of module-level variables whose value is loaded in the region"""
        out = {}
        for q, ctxs in self.region(f, consts).items():
            g = self.db.funcs[q]
            for cs in ctxs:
                for n in _live_name_loads(self, g, cs):
                    out.setdefault(n[0], []).append((g, n[1]))
        return out

    def touched_retained(self, f, consts=None):
        out = set()
        for q in self.region(f, consts):
            out |= {i for i in self.pt.touch.get(q, ()) if i in self.retained}
        return out

    def explicit_raises(self, f):
        return [n for n in own_nodes(f.node) if isinstance(n, ast.Raise)]

    def may_raise(self, f):
        """does the region of f contain an explicit raise / assert (no handler reasoning)"""
        for q in self.region(f):
            g = self.db.funcs[q]
            for n in own_nodes(g.node):
                if isinstance(n, (ast.Raise, ast.Assert)):
                    return True
        return False

    def table_vars(self):
        """module variables rebound (via `global`) by the public constraint setter"""
        setter = self.ctx.api("set_semantic_constraints")
        out = set()
        for r in self.pt.records(setter.qual):
            if r.op == "rebind-global":
                for t in r.targets:
                    out.add((t[1], t[2]))
        return setter, out

    def table_objects(self):
        setter, tv = self.table_vars()
        objs = set()
        for m, n in tv:
            objs |= {i for i in self.pt.v("mod:" + m, n) if isinstance(i, tuple)}
        return objs

    def lru_funcs(self):
        return [f for f in self.db.funcs.values() if f.is_lru]

    def reads_var(self, f, var, consts=None):
        """does the region of f load module variable var=(module,name) (under flag constants)"""
        return var in self.module_var_reads(f, consts)


def _live_name_loads(eff, g, consts):
    """module-level variable loads in the live (non-pruned) part of g: [((mod,name), node)]"""
    from .cg import live_nodes
    out = []
    for n in live_nodes(g.node, consts or {}):
        if isinstance(n, ast.Name) and isinstance(n.ctx, ast.Load):
            if n.id in g.locals and n.id not in g.declared_global:
                continue
            r = eff.db.resolve_global(g.module, n.id)
            if r and r[0] == "global":
                out.append(((r[1], r[2]), n))
        elif isinstance(n, ast.Attribute) and isinstance(n.ctx, ast.Load):
            r = eff.db.resolve_dotted(g.module, n) if _static(n, g) else None
            if r and r[0] == "global":
                out.append(((r[1], r[2]), n))
    return out


def _static(e, g):
    b = e
    while isinstance(b, ast.Attribute):
        b = b.value
    return isinstance(b, ast.Name) and not (b.id in g.locals and b.id not in g.declared_global)
