"""Small positive fixtures for the engines: each must hold on every run (anti-vacuity for rules
whose expected match count on the real tree is zero)."""


def run():
    failures = []
    from . import fixtures
    for name, fn in sorted(vars(fixtures).items()):
        if name.startswith("fx_") and callable(fn):
            try:
                fn()
            except Exception as e:  # noqa
                failures.append("%s: %s: %s" % (name, type(e).__name__, e))
    if failures:
        print("SELFTEST FAILED\n" + "\n".join(failures))
        return 1
    print("selftest ok")
    return 0
