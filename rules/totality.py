"""Shared machinery of C08 / C09: exception-escape with generic discharges, engine-based linear discharges,
the hand-confirmed triage table of named invariants, termination templates and recursion.

TRIAGE maps (function, kind, normalised construct text) -> named invariant.  Every entry was confirmed by reading
the code (DESIGN.md Appendix A); the key contains no line numbers.  A site that is discharged neither generically
nor by an entry is a violation.  Entries are *keyed by construct*, so a new or changed construct is not covered.
"""
import ast

from sa import AnalysisError
from sa.db import own_nodes, unparse
from sa.escape import Escape, RSite
from sa.discharge import Discharger
from sa.effects import Effects
from sa.sym import Engine, Hooks, Num, Unk
from sa.strlang import IntFacts
from sa.lin import Lin, ge, le, lt, gt, eq

INVARIANTS = {
    "ATOM_INDEX": "indices into the per-atom lists (_atoms, _adj_list, _bond_counts, _ring_bond_flags) come from Atom.index of "
                  "added atoms, from bond.src/dst, or from max(0, i-k); add_atom appends to all per-atom lists together",
    "BOND_EXISTS": "_bond_dict[(a,b)] is read only under a dominating has_bond / for bonds created earlier in the same graph",
    "RING_SYMMETRIC": "a ring bond is stored in both directions with the same order (add_ring_bond creates both)",
    "NEW_ATOM_LAST": "add_bond(src, dst): dst is the atom added immediately before, so src < dst",
    "RING_POS": "the position passed to _add_bond_at_loc is -1, a placeholder slot, or the number of ring bonds already inserted at that atom",
    "ORDER_DOMAIN": "bond orders are 1, 2, 3 (1.5 only before kekulisation); decoder clamps keep 1..3",
    "STATE_PREV": "derivation state != 0 implies the previous atom is not None",
    "QUEUE_SHAPE": "queued rings are (atom, atom, (order, (mark, mark))) tuples: the only append site builds exactly that",
    "CACHE_SHAPE": "symbol-cache values are (bond info, factory) pairs: the only store site stores the pair returned by the symbol reader",
    "WRITER_INDEX": "the writer's bond_index ranges over 0..len(out_bonds)-1 of an adjacency list it does not modify",
    "KEKULIZED": "atoms reaching the printers are not aromatic: the decoder never creates aromatic atoms; the encoder continues only after kekulize() reset every aromatic atom",
    "TOKEN_NONEMPTY": "atom symbols handed to smiles_to_atom are non-empty (token spans are >= 1 character / '[..]' wrapped)",
    "TOKEN_SPAN": "a SMILESToken's bond_idx is None or an index at which the tokenizer has just read a character",
    "STACK_PAIRING": "prev_stack always has one more entry than branch_stack; pops are guarded by the branch_stack test",
    "RINGLOG_NONEMPTY": "list(ring_log.items())[-1] is evaluated only under `if ring_log`",
    "DS_KEYS": "node iterates the keys of the delocalisation subgraph (or a filtered subset of them); labels come from the relabelling dicts built over the same set",
    "GRAPH_LABELS": "matching_utils is only called with an adjacency list relabelled to 0..n-1",
    "BFS_TREE": "a parents[] entry is set when its node is enqueued; the walk back only visits enqueued nodes",
    "UNMATCHED_SET": "roots are taken from the set of unmatched nodes",
    "FREE_DEGREE": "free_degrees[node] > 0 implies an unmatched neighbour exists",
    "PATH_PAIRS": "augmenting paths are appended two nodes at a time and contain at least one pair",
    "AROMATIC_TABLES": "elements in the delocalisation subgraph have aromatic valence / valence electron entries (kekulize() rejects others; the two tables have one key set)",
    "ORGANIC_DEFAULTS": "an Atom without explicit h_count has charge 0 (every Atom(...) site that omits h_count omits charge)",
    "NUMERIC_COUNT": "bond counts are numbers (ints, .5 multiples before kekulisation): int() of a number cannot fail",
    "PERM_RANGE": "perm indices range over range(len(perm)); partition has three lists; sort key indexes the enumerated list",
    "ATTR_RANGE": "attribution_maps[j] for j in range(start, end) with start/end = len(attribution_maps) taken before/after appends only",
    "RINGBOND_DISTINCT": "ring bonds join two different atoms (the SMILES parser rejects a ring closure on its own atom)",
}

# (function, kind, text) -> invariant
TRIAGE = {
    # --- decoder region
    ("_derive_mol_from_symbols", "unpack", "(btype, n) = output"): "TABLE_SHAPE",
    ("_derive_mol_from_symbols", "unpack", "(ring_type, n, stereo) = output"): "TABLE_SHAPE",
    ("_form_rings_bilocally", "unpack", "(order, (lstereo, rstereo)) = bond_info"): "QUEUE_SHAPE",
    ("_form_rings_bilocally", "unpack", "(lstereo, rstereo) = <element>"): "QUEUE_SHAPE",
    ("_form_rings_bilocally", "subscript", "rings_made[lidx]"): "ATOM_INDEX",
    ("_form_rings_bilocally", "subscript", "rings_made[ridx]"): "ATOM_INDEX",
    ("process_atom_symbol", "unpack", "(bond_info, atom_fac) = output"): "CACHE_SHAPE",
    ("MolecularGraph._add_bond_at_loc", "subscript", "self._adj_list[bond.src]"): "ATOM_INDEX",
    ("MolecularGraph._add_bond_at_loc", "subscript", "out_edges[pos]"): "RING_POS",
    ("MolecularGraph.add_bond", "assert", "assert src < dst"): "NEW_ATOM_LAST",
    ("MolecularGraph.get_atom", "subscript", "self._atoms[idx]"): "ATOM_INDEX",
    ("MolecularGraph.get_bond_count", "subscript", "self._bond_counts[idx]"): "ATOM_INDEX",
    ("MolecularGraph.get_dirbond", "subscript", "self._bond_dict[src, dst]"): "BOND_EXISTS",
    ("MolecularGraph.get_out_dirbonds", "subscript", "self._adj_list[src]"): "ATOM_INDEX",
    ("MolecularGraph.update_bond_order", "assert", "assert 1 <= new_order <= 3"): "ORDER_DOMAIN",
    ("MolecularGraph.update_bond_order", "subscript", "self._bond_dict[a, b]"): "BOND_EXISTS",
    ("MolecularGraph.update_bond_order", "subscript", "self._bond_dict[b, a]"): "RING_SYMMETRIC",
    ("_derive_smiles_from_fragment", "subscript", "out_bonds[bond_index]"): "WRITER_INDEX",
    ("atom_to_smiles", "assert", "assert not atom.is_aromatic"): "KEKULIZED",
    ("bond_to_smiles", "explicit", "raise ValueError()"): "ORDER_DOMAIN",
    ("mol_to_smiles", "assert", "assert mol.is_kekulized()"): "KEKULIZED",
    ("smiles_to_atom", "subscript", "atom_symbol[0]"): "TOKEN_NONEMPTY",
    ("smiles_to_atom", "subscript", "atom_symbol[-1]"): "TOKEN_NONEMPTY",
    # --- encoder-only region
    ("_atom_to_selfies", "assert", "assert not atom.is_aromatic"): "KEKULIZED",
    ("_fragment_to_selfies", "subscript", "attribution_maps[j]"): "ATTR_RANGE",
    ("_ring_bonds_to_selfies", "assert", "assert lbond.order == rbond.order"): "RING_SYMMETRIC",
    ("_should_invert_chirality", "subscript", "out_bonds[x]"): "PERM_RANGE",
    ("_should_invert_chirality", "subscript", "perm[j]"): "PERM_RANGE",
    ("_should_invert_chirality", "subscript", "perm[i]"): "PERM_RANGE",
    ("MolecularGraph._prune_from_ds", "subscript", "self._delocal_subgraph[node]"): "DS_KEYS",
    ("MolecularGraph._prune_from_ds", "subscript", "self._atoms[node]"): "ATOM_INDEX",
    ("MolecularGraph._prune_from_ds", "subscript", "AROMATIC_VALENCES[atom.element]"): "AROMATIC_TABLES",
    ("MolecularGraph._prune_from_ds", "subscript", "VALENCE_ELECTRONS[atom.element]"): "AROMATIC_TABLES",
    ("MolecularGraph._prune_from_ds", "subscript", "self._bond_counts[node]"): "ATOM_INDEX",
    ("MolecularGraph._prune_from_ds", "assert", "assert atom.charge == 0"): "ORGANIC_DEFAULTS",
    ("MolecularGraph._prune_from_ds", "int", "int(self._bond_counts[node] - 0.5 * len(adj_nodes))"): "NUMERIC_COUNT",
    ("MolecularGraph._prune_from_ds", "int", "int(self._bond_counts[node])"): "NUMERIC_COUNT",
    ("MolecularGraph._prune_from_ds", "int", "int(2 * (self._bond_counts[node] % 1))"): "NUMERIC_COUNT",
    ("MolecularGraph.add_placeholder_bond", "subscript", "self._adj_list[src]"): "ATOM_INDEX",
    ("MolecularGraph.has_out_ring_bond", "subscript", "self._ring_bond_flags[src]"): "ATOM_INDEX",
    ("MolecularGraph.kekulize", "subscript", "self._atoms[node]"): "ATOM_INDEX",
    ("MolecularGraph.kekulize", "subscript", "node_to_label[node]"): "DS_KEYS",
    ("MolecularGraph.kekulize", "subscript", "ds[node]"): "DS_KEYS",
    ("MolecularGraph.kekulize", "subscript", "node_to_label[adj]"): "DS_KEYS",
    ("MolecularGraph.kekulize", "subscript", "pruned_ds[label]"): "DS_KEYS",
    ("MolecularGraph.kekulize", "subscript", "self._bond_counts[node]"): "ATOM_INDEX",
    ("MolecularGraph.kekulize", "int", "int(self._bond_counts[node])"): "NUMERIC_COUNT",
    ("MolecularGraph.kekulize", "subscript", "label_to_node[i]"): "GRAPH_LABELS",
    ("_find_augmenting_path", "subscript", "matching[root]"): "GRAPH_LABELS",
    ("_find_augmenting_path", "assert", "assert matching[root] is None"): "UNMATCHED_SET",
    ("_find_augmenting_path", "subscript", "graph[node]"): "GRAPH_LABELS",
    ("_find_augmenting_path", "subscript", "matching[adj]"): "GRAPH_LABELS",
    ("_find_augmenting_path", "subscript", "parents[adj_mate]"): "GRAPH_LABELS",
    ("_find_augmenting_path", "subscript", "parents[node][1]"): "BFS_TREE",
    ("_find_augmenting_path", "subscript", "parents[node]"): "GRAPH_LABELS",
    ("_find_augmenting_path", "subscript", "parents[node][0]"): "BFS_TREE",
    ("_flip_augmenting_path", "subscript", "path[i + 1]"): "PATH_PAIRS",
    ("_flip_augmenting_path", "subscript", "path[i]"): "PATH_PAIRS",
    ("_flip_augmenting_path", "subscript", "matching[a]"): "GRAPH_LABELS",
    ("_flip_augmenting_path", "subscript", "matching[b]"): "GRAPH_LABELS",
    ("_greedy_matching", "subscript", "free_degrees[i]"): "GRAPH_LABELS",
    ("_greedy_matching", "subscript", "graph[i]"): "GRAPH_LABELS",
    ("_greedy_matching", "subscript", "matching[node]"): "GRAPH_LABELS",
    ("_greedy_matching", "subscript", "free_degrees[node]"): "GRAPH_LABELS",
    ("_greedy_matching", "next", "next((i for i in graph[node] if matching[i] is None))"): "FREE_DEGREE",
    ("_greedy_matching", "subscript", "graph[node]"): "GRAPH_LABELS",
    ("_greedy_matching", "subscript", "matching[i]"): "GRAPH_LABELS",
    ("_greedy_matching", "subscript", "graph[mate]"): "GRAPH_LABELS",
    ("_greedy_matching", "subscript", "free_degrees[adj]"): "GRAPH_LABELS",
    ("_greedy_matching", "subscript", "matching[adj]"): "GRAPH_LABELS",
    ("_greedy_matching", "subscript", "matching[mate]"): "GRAPH_LABELS",
    ("find_perfect_matching", "subscript", "matching[i]"): "GRAPH_LABELS",
    ("find_perfect_matching", "subscript", "path[0]"): "PATH_PAIRS",
    ("find_perfect_matching", "subscript", "path[-1]"): "PATH_PAIRS",
    ("SMILESToken.extract_bond_char", "subscript", "smiles[self.bond_idx]"): "TOKEN_SPAN",
    ("_derive_mol_from_tokens", "subscript", "prev_stack[-1]"): "STACK_PAIRING",
    ("_derive_mol_from_tokens", "pop", "prev_stack.pop()"): "STACK_PAIRING",
    ("_derive_mol_from_tokens", "subscript", "list(ring_log.items())[-1]"): "RINGLOG_NONEMPTY",
    ("get_selfies_from_index", "explicit", "raise IndexError()"): "INDEX_NONNEG",
    ("_derive_mol_from_symbols", "none-deref", "prev_atom.index"): "STATE_PREV",
    ("_derive_mol_from_tokens", "none-deref", "prev_atom.index"): "CHAIN_START",
    ("_derive_mol_from_tokens", "none-deref", "tok.start_idx"): "RINGLOG_ENTRIES",
}
INVARIANTS["CHAIN_START"] = ("in the SMILES parser a ring / branch token is processed only after an atom of the same chain (a raising test "
                             "of the chain-start flag dominates it), so the previous atom is not None; checked by EST-CHAIN_START")
INVARIANTS["RINGLOG_ENTRIES"] = "ring_log values are (token, atom, position) triples built from real tokens"
INVARIANTS["INDEX_NONNEG"] = ("the encoder converts only ring distances - 1 >= 0 (RINGBOND_DISTINCT: established by the parser's "
                              "self-closure guard, checked by EST-RINGBOND_DISTINCT) and branch lengths - 1 >= 0 (a printed branch has >= 1 token)")
INVARIANTS["TABLE_SHAPE"] = "values of the folded branch / ring tables are tuples of the unpacked arity (checked by folding, C02/T5)"


class EngineChecks:
    """linear discharges: run the symbolic engine on functions that still have open index / assert sites"""

    def __init__(self, ctx):
        self.ctx = ctx
        self.reached = {}     # id(node) -> [reached, failed]
        self.int_ok = {}      # id(node) -> (all_digits, single_digit, witness)
        self.int_prov = {}    # id(node) -> {(pattern, group)}
        self.ran = set()
        self.errors = {}

    def run_on(self, f, assumptions=None, args=None):
        if f.qual in self.ran:
            return
        self.ran.add(f.qual)
        h = IntFacts(self.ctx)
        eng = Engine(self.ctx, h)
        h.bind(eng)
        try:
            eng.run_function(f, args, assumptions=assumptions)
        except (AnalysisError, RecursionError) as e:
            self.errors[f.qual] = str(e)
            return
        self.merge(eng, h)

    def merge(self, eng, h=None):
        for nid, (r, fl, node, fn) in eng.checks.items():
            c = self.reached.setdefault(nid, [0, 0])
            c[0] += r
            c[1] += fl
        if h is not None:
            for nid, pv in getattr(h, "int_prov", {}).items():
                self.int_prov.setdefault(nid, set()).update(pv)
            for node, arg, st, ok_all, w, fn in h.int_sites:
                prev = self.int_ok.get(id(node))
                single = False
                try:
                    from sa import reglang as RL
                    d = h.sl.lang(arg, st)
                    single = d.included_in(RL.compile_regex(("rep", ("set", frozenset(RL.DIGITS)), 1, 64)))[0] and \
                        d.enumerate(limit=2000) is not None
                except Exception:
                    pass
                cur = (ok_all, single, w)
                if prev is not None:
                    cur = (prev[0] and ok_all, prev[1] and single, prev[2] or w)
                self.int_ok[id(node)] = cur


def analyse(ctx, rep, api_name, consts_list, allowed, pid):
    """returns (Escape, list of (exc, site, status, reason))"""
    entry = ctx.api(api_name)
    E = Escape(ctx, entry, consts_list)
    D = Discharger(E)
    D.run()
    # occurrence index for sites with identical text in one function
    occ = {}
    for info, s in E.all_sites():
        k = s.key()
        lst = occ.setdefault(k, [])
        if all(x is not s.node for x in lst):
            lst.append(s.node)
    triage_prepare(E)
    # ---- engine-based linear discharges
    ec = EngineChecks(ctx)
    if api_name == "decoder":
        from rules import decmodel
        m = decmodel.extract(ctx)
        ec.merge(m["engine"])
        inlined_ok = True
    def apply_engine():
        for info, s in E.all_sites():
            if s.discharge is not None:
                continue
            c = ec.reached.get(id(s.node))
            if s.kind in ("subscript", "assert") and c and c[0] > 0 and c[1] == 0:
                s.discharge = "linear facts entail safety on every analysed path (%d state(s))" % c[0]
            if s.kind == "int":
                io = ec.int_ok.get(id(s.node))
                arg = s.node.args[0]
                if isinstance(arg, ast.Constant):
                    s.discharge = "constant argument"
                elif io and io[1]:
                    s.discharge = "argument language is a bounded run of digits"
                elif _numeric_arg(info, arg):
                    s.discharge = "argument is a number, not a string"
    apply_engine()
    need = {}
    for info, s in E.all_sites():
        if s.discharge is None and s.kind in ("subscript", "assert", "int") and not info.f.is_method and info.f.cls is None \
                and triage_lookup(ctx, s, site_key(s, occ)[:3]) is None:
            need[info.f.qual] = info.f
    # a private helper is analysed in the context of its callers (the engine inlines it there), not with unknown arguments
    todo = {}
    for q, f in sorted(need.items()):
        ctxs, frontier = [], [f]
        for _ in range(2):
            nxt = []
            for g in frontier:
                callers = _callers_of(ctx, g) if (g.cls is None and g.name.startswith("_") and not g.name.startswith("__")) else []
                callers = [c for c in callers if c.cls is None and c.qual in E.quals]
                if callers:
                    nxt.extend(callers)
                else:
                    ctxs.append(g)
            frontier = nxt
            if not frontier:
                break
        for g in ctxs + frontier:
            todo[g.qual] = g
    for q, f in sorted(todo.items()):
        ec.run_on(f)
    apply_engine()
    return E, ec, occ


def _numeric_arg(info, arg):
    """int(x) where x is an arithmetic expression / a number-typed value (never a str)"""
    if isinstance(arg, ast.BinOp) and isinstance(arg.op, (ast.Sub, ast.Mult, ast.Div, ast.FloorDiv, ast.Pow)):
        return True
    t = info.type_of(arg)
    kinds = {a[0] for a in t}
    return bool(kinds & {"int", "float"}) and not (kinds & {"str"})


import re as _re
_IDENT = _re.compile(r"(?<![\w.])([A-Za-z_]\w*)")


_KEYWORDS = {"assert", "raise", "in", "is", "not", "None", "True", "False", "and", "or", "for", "if", "else", "lambda", "self", "element"}


def alpha(text, func, db=None):
    """rename local variables / parameters in a construct text to positional placeholders, so that triage keys survive
    alpha-renaming: every bare identifier that is not a keyword, `self`, a builtin or a module-level name of the
    function's module counts as a local"""
    from sa.db import BUILTINS
    mod = func.module
    order = {}

    def is_global(w):
        return w in mod.defs or w in mod.assigned or w in mod.imports or w in BUILTINS

    def sub(mo):
        w = mo.group(1)
        if w in _KEYWORDS or is_global(w) and w not in func.locals:
            return w
        if w not in order:
            order[w] = "$%d" % len(order)
        return order[w]
    return _IDENT.sub(sub, text)


_TRIAGE_STATE = {}


def triage_prepare(E):
    """which triage entries are matched exactly by a construct of the current tree (those are not available for
    alpha-renamed matching of other constructs)"""
    texts = {}
    for info, s in E.all_sites():
        k = s.key()
        texts.setdefault((k[0], k[1]), set()).add(k[2])
    exact = set()
    for (f2, k2, t2) in TRIAGE:
        if t2 in texts.get((f2, k2), ()):
            exact.add((f2, k2, t2))
    _TRIAGE_STATE["exact"] = exact
    _TRIAGE_STATE.pop("all_names", None)


def _index_text(text):
    """the index expression of a subscript construct 'base[index]' (last bracket group)"""
    if text.endswith("]") and "[" in text:
        depth = 0
        for i in range(len(text) - 1, -1, -1):
            if text[i] == "]":
                depth += 1
            elif text[i] == "[":
                depth -= 1
                if depth == 0:
                    return text[i + 1:-1]
    return None


def triage_lookup(ctx, s, key3):
    """invariant for a site.  1. its exact key.  Then, only among entries that no construct of the current tree matches
    exactly (i.e. the entry's construct was renamed / moved by a refactoring):
    2. same function, kind and alpha-shape;  3. same function and kind, same index expression (the container expression
    was rewritten);  4. same module, kind and alpha-shape (the construct moved into an extracted helper)."""
    inv = TRIAGE.get(key3)
    if inv is not None:
        return inv
    fname, kind, text = key3
    mine = alpha(text, s.func)
    exact = _TRIAGE_STATE.get("exact", set())
    free = [(k, v) for k, v in TRIAGE.items() if k not in exact and k[1] == kind]
    for (f2, k2, t2), inv2 in free:
        if f2 == fname and alpha(t2, s.func) == mine:
            return inv2
    # 2b. a local that merely names a subscript / attribute expression (node_adj = graph[node]) is read as that expression
    try:
        import copy
        from rules.shared import resolve_local
        tree = ast.parse(text, mode="eval")
        changed = False
        for n in ast.walk(tree):
            for fld, val in ast.iter_fields(n):
                vals = val if isinstance(val, list) else [val]
                for j, x in enumerate(vals):
                    if isinstance(x, ast.Name) and isinstance(x.ctx, ast.Load) and x.id in s.func.locals and x.id not in s.func.params:
                        e = resolve_local(s.func, x)
                        if e is not x and isinstance(e, (ast.Subscript, ast.Attribute)):
                            e = copy.deepcopy(e)
                            changed = True
                            if isinstance(val, list):
                                val[j] = e
                            else:
                                setattr(n, fld, e)
        if changed:
            mine2 = alpha(ast.unparse(tree.body), s.func)
            for (f2, k2, t2), inv2 in free:
                if f2 == fname and alpha(t2, s.func) == mine2:
                    return inv2
    except SyntaxError:
        pass
    # 2c. a label that used to be bound to a local first is now written in place:  A[label]  ->  A[B[k]]  (the inner subscript is
    # a site of its own): the entry of the same function for the same container A with a plain-name index speaks about it
    if kind == "subscript":
        try:
            e_ = ast.parse(text, mode="eval").body
        except SyntaxError:
            e_ = None
        if isinstance(e_, ast.Subscript) and isinstance(e_.value, ast.Name) and isinstance(e_.slice, ast.Subscript):
            invs = set()
            for (f2, k2, t2), inv2 in TRIAGE.items():
                if f2 == fname and k2 == kind:
                    try:
                        e2 = ast.parse(t2, mode="eval").body
                    except SyntaxError:
                        continue
                    if isinstance(e2, ast.Subscript) and isinstance(e2.value, ast.Name) and e2.value.id == e_.value.id and isinstance(e2.slice, ast.Name):
                        invs.add(inv2)
            if len(invs) == 1:
                return invs.pop()
    it = _index_text(text)
    if it is not None and kind == "subscript":
        for (f2, k2, t2), inv2 in free:
            if f2 == fname and _index_text(t2) == it:
                return inv2
    # extracted helper: entries of functions defined in the same module
    mod_funcs = set()
    for d in s.func.module.defs.values():
        if hasattr(d, "methods"):
            mod_funcs |= {d.name + "." + m for m in d.methods}
        else:
            mod_funcs.add(d.name)
    for (f2, k2, t2), inv2 in free:
        if f2 != fname and f2 in mod_funcs and alpha(t2, s.func) == mine:
            return inv2
    # 4d. the entry's function no longer exists anywhere in the package (renamed, or merged into its caller / a new helper):
    # its constructs are matched by kind and alpha-shape within the module the site is in
    all_names = _TRIAGE_STATE.get("all_names")
    if all_names is None:
        all_names = set()
        for g_ in ctx.db.funcs.values():
            all_names.add((g_.cls.name + "." + g_.name) if g_.cls is not None else g_.name)
        _TRIAGE_STATE["all_names"] = all_names
    gone = {inv2 for (f2, k2, t2), inv2 in free if f2 not in all_names and alpha(t2, s.func) == mine}
    if len(gone) == 1:
        return gone.pop()
    # 4b. "extract method": the site sits in a private function that the triage table does not know and whose only
    # callers (in the package) are functions that have an entry with the same alpha-shape and kind: the construct
    # was moved out of them verbatim, so their invariant still speaks about it (the entry may still match a second
    # occurrence that stayed behind)
    g = s.func
    known_funcs = {k[0] for k in TRIAGE}
    gname = (g.cls.name + "." + g.name) if g.cls is not None else g.name
    if g.name.startswith("_") and not g.name.startswith("__") and gname not in known_funcs:
        callers = _callers_of(ctx, g)
        if callers:
            cnames = {(c.cls.name + "." + c.name) if c.cls is not None else c.name for c in callers}
            invs = set()
            for cn in cnames:
                hit = [inv2 for (f2, k2, t2), inv2 in TRIAGE.items() if f2 == cn and k2 == kind and alpha(t2, s.func) == mine]
                invs.add(hit[0] if hit else None)
            if len(invs) == 1 and None not in invs:
                return invs.pop()
            # 4c. the moved construct was rewritten on the way (e.g. an alias `ds` replaced by the attribute it names): accepted
            # under invariant I when the module has an entry of the same kind and alpha-shape under I *and* every caller of the
            # new helper already relies on I (has entries under I): the helper works on the same objects under the same
            # hand-confirmed invariant
            fam = None
            for cn in cnames:
                fi = {inv2 for (f2, k2, t2), inv2 in TRIAGE.items() if f2 == cn}
                fam = fi if fam is None else (fam & fi)
            if fam:
                hits = {inv2 for (f2, k2, t2), inv2 in TRIAGE.items() if f2 in mod_funcs and k2 == kind and inv2 in fam and alpha(t2, s.func) == mine}
                if len(hits) == 1:
                    return hits.pop()
    if kind == "unpack":
        return _unpack_of_element(ctx, s, [(k, v) for k, v in TRIAGE.items() if k not in exact], mod_funcs)
    return None


def _callers_of(ctx, g):
    key = ("callers", g.qual)
    if key not in ctx.cache:
        out = []
        for f in ctx.db.funcs.values():
            if f is not g and any(g in s_.callees for s_ in ctx.cg.sites(f)):
                out.append(f)
        ctx.cache[key] = out
    return ctx.cache[key]


def _unpack_of_element(ctx, s, free, mod_funcs):
    """5. ``a, b = X[i]`` replacing the triaged element reads ``X[i][0]``, ``X[i][1]`` of the same module: accepted under
    their invariant when every element ever stored into the list X (followed through one parameter hop) is an
    n-element display, so that the exact-arity demand of the unpack adds nothing to what the subscripts needed."""
    st = s.node
    if isinstance(st, (ast.Tuple, ast.List)):
        st = next((x for x in own_nodes(s.func.node) if isinstance(x, ast.Assign) and any(t is s.node for t in x.targets)), st)
    if not (isinstance(st, ast.Assign) and len(st.targets) == 1 and isinstance(st.targets[0], (ast.Tuple, ast.List))
            and isinstance(st.value, ast.Subscript) and isinstance(st.value.value, ast.Name)):
        return None
    n = len(st.targets[0].elts)
    if any(isinstance(e, ast.Starred) for e in st.targets[0].elts):
        return None
    invs = {}
    for (f2, k2, t2), inv2 in free:
        if k2 == "subscript" and f2 in mod_funcs:
            m = _re.fullmatch(r"\w+\[\w+\]\[(\d+)\]", t2.strip())
            if m:
                invs.setdefault(inv2, set()).add(int(m.group(1)))
    inv = [i for i, ks in invs.items() if ks >= set(range(n))]
    if len(inv) != 1:
        return None
    name = st.value.value.id
    holders = []          # (function, local variable) pairs that may be the list X
    if name in s.func.params:
        pos = s.func.posparams.index(name) if name in s.func.posparams else None
        for g in [f for f in ctx.db.funcs.values() if f.module is s.func.module]:
            for site in ctx.cg.sites(g):
                if s.func in site.callees and isinstance(site.node, ast.Call):
                    arg = None
                    if pos is not None and pos < len(site.node.args):
                        arg = site.node.args[pos]
                    for kw in site.node.keywords:
                        if kw.arg == name:
                            arg = kw.value
                    if not isinstance(arg, ast.Name):
                        return None
                    holders.append((g, arg.id))
    else:
        holders.append((s.func, name))
    if not holders:
        return None
    for g, v in holders:
        if v in g.params:
            return None
        stores = [x for x in own_nodes(g.node) if isinstance(x, ast.Assign) and isinstance(x.targets[0], ast.Subscript)
                  and isinstance(x.targets[0].value, ast.Name) and x.targets[0].value.id == v]
        if not stores:
            return None
        for x in stores:
            if not (isinstance(x.value, (ast.List, ast.Tuple)) and len(x.value.elts) == n
                    and not any(isinstance(e, ast.Starred) for e in x.value.elts)):
                return None
    return inv[0]


def site_key(s, occ):
    k = s.key()
    idx = 0
    for i, n in enumerate(occ.get(k, [])):
        if n is s.node:
            idx = i
    return k + ((idx,) if idx else ())


def report(ctx, rep, E, ec, occ, allowed, pid, known_recursion=()):
    """emit obligations for every raise site of the region"""
    esc = E.entry_escapes()
    escaping = {}
    for exc, s in esc:
        escaping.setdefault(id(s), (s, set()))[1].add(exc)
    n_sites = 0
    for info, s in E.all_sites():
        n_sites += 1
        key = site_key(s, occ)
        short = "%s/%s/%s%s" % (key[0], key[1], alpha(key[2], s.func), ("#%d" % key[3]) if len(key) > 3 else "")
        if s.kind == "int" and ec.int_prov.get(id(s.node)):
            # semantic key: which regex group the unbounded digit string is (independent of helper extraction / renaming)
            short = "unbounded-digits/" + "+".join("%s#%d" % pv for pv in sorted(ec.int_prov[id(s.node)]))
        if s.discharge is not None:
            rep.ob("X-" + s.kind, True, s.node, s.func, construct=s.text, how=s.discharge, key=short, nontrivial=True)
            continue
        if id(s) not in escaping:
            tr = info.caught(s.node, s.exc)
            rep.ob("X-" + s.kind, True, s.node, s.func, construct=s.text,
                   how="caught by an enclosing handler%s" % (" and converted" if tr is not None else " of a caller"), key=short)
            continue
        excs = escaping[id(s)][1]
        bad = sorted(e for e in excs if not (E.ancestors(e) & allowed))
        if not bad:
            rep.ob("X-" + s.kind, True, s.node, s.func, construct=s.text, how="escapes only as %s" % sorted(excs), key=short)
            continue
        inv = triage_lookup(ctx, s, key[:3])
        if inv is not None:
            rep.ob("X-" + s.kind, True, s.node, s.func, construct=s.text,
                   how="named invariant %s: %s" % (inv, INVARIANTS.get(inv, "")[:160]), key=short, nontrivial=True)
            continue
        rep.ob("X-" + s.kind, False, s.node, s.func, construct=s.text,
               witness="%s can escape %s (%s, not discharged by a guard, a handler, linear facts or a named invariant)"
               % ("/".join(bad), E.entry.name, s.kind), key=short, nontrivial=True)
    return n_sites


# ----------------------------------------------------------------------------- termination
def loop_template(ctx, info, node, ec):
    """name of the variant template a while-loop matches, or None"""
    f = info.f
    test = node.test
    body = node.body
    tt = unparse(test)
    # T-next: first statement is try: <next(it)> except StopIteration: break
    for st in body[:2]:
        if isinstance(st, ast.Try) and any(isinstance(n, ast.Call) and unparse(n.func) == "next" for x in st.body for n in ast.walk(x)):
            hs = [h for h in st.handlers if h.type is not None and "StopIteration" in unparse(h.type)]
            if hs and any(isinstance(x, ast.Break) for x in hs[0].body):
                # the next() is unconditional at loop top level
                return "T-next"
    # T-next, sentinel spelling:  x = next(it, END) / if x is END: break   at the top of the body, or a conjunct
    # `next(it, END) is not END` of the loop test -- END a private sentinel object (sa.db.is_private_sentinel)
    from sa.db import is_private_sentinel

    def sentinel_next(call):
        return isinstance(call, ast.Call) and unparse(call.func) == "next" and len(call.args) == 2 and isinstance(call.args[1], ast.Name) \
            and call.args[1].id not in f.locals and is_private_sentinel(ctx.db, f.module.name, call.args[1].id)
    for k_, st in enumerate(body[:2]):
        if isinstance(st, ast.Assign) and len(st.targets) == 1 and isinstance(st.targets[0], ast.Name) and sentinel_next(st.value) \
                and k_ + 1 < len(body) and isinstance(body[k_ + 1], ast.If):
            nx = body[k_ + 1]
            t_ = nx.test
            if isinstance(t_, ast.Compare) and len(t_.ops) == 1 and isinstance(t_.ops[0], ast.Is) and isinstance(t_.left, ast.Name) \
                    and t_.left.id == st.targets[0].id and unparse(t_.comparators[0]) == st.value.args[1].id \
                    and nx.body and isinstance(nx.body[-1], ast.Break):
                return "T-next"
    conj = test.values if isinstance(test, ast.BoolOp) and isinstance(test.op, ast.And) else [test]
    for c_ in conj:
        if isinstance(c_, ast.Compare) and len(c_.ops) == 1 and isinstance(c_.ops[0], ast.IsNot) and sentinel_next(c_.left) \
                and unparse(c_.comparators[0]) == c_.left.args[1].id:
            return "T-next"
    # T-consume: test is a container name (or a conjunction with one); an unconditional top-level removal from it; no
    # insertion in the body
    names = [c_ for c_ in conj if isinstance(c_, ast.Name)]
    if len(names) == 1:
        c = names[0].id
        removes = False
        for st in body:
            for n in ast.walk(st) if isinstance(st, (ast.Assign, ast.Expr)) else []:
                if isinstance(n, ast.Call) and isinstance(n.func, ast.Attribute) and isinstance(n.func.value, ast.Name) \
                        and n.func.value.id == c and n.func.attr in ("pop", "popleft", "popitem"):
                    removes = True
                if isinstance(n, ast.Call) and unparse(n.func) in ("heapq.heappop",) and n.args and unparse(n.args[0]) == c:
                    removes = True
                # removal in a callee that receives the container and pops it first
                if isinstance(n, ast.Call) and any(isinstance(a, ast.Name) and a.id == c for a in n.args):
                    s = {id(x.node): x for x in ctx.cg.sites(f)}.get(id(n))
                    if s and s.callees:
                        g = s.callees[0]
                        pos = g.posparams[1:] if g.is_method else g.posparams
                        idx = [i for i, a in enumerate(n.args) if isinstance(a, ast.Name) and a.id == c][0]
                        if idx < len(pos) and _callee_consumes(g, pos[idx]):
                            removes = True
        inserts = []
        for n in ast.walk(node):
            if isinstance(n, ast.Call) and isinstance(n.func, ast.Attribute) and isinstance(n.func.value, ast.Name) \
                    and n.func.value.id == c and n.func.attr in ("append", "appendleft", "add", "extend", "insert", "update"):
                inserts.append(n)
            if isinstance(n, ast.Call) and unparse(n.func) == "heapq.heappush" and n.args and unparse(n.args[0]) == c:
                inserts.append(n)
        if removes and not inserts:
            return "T-consume"
        if removes and inserts:
            return None
    # T-div: i //= b with folded b >= 2 and test `i`
    if isinstance(test, ast.Name):
        i = test.id
        for st in body:
            if isinstance(st, ast.AugAssign) and isinstance(st.op, ast.FloorDiv) and isinstance(st.target, ast.Name) and st.target.id == i:
                from sa.discharge import Discharger
                b = Discharger(info.esc)._int_value(info, st.value)
                if b is not None and b >= 2:
                    return "T-div"
    return None


def _callee_consumes(g, pname):
    """callee removes from parameter `pname` before anything else whenever it is non-empty"""
    for st in g.node.body:
        if isinstance(st, ast.While) and isinstance(st.test, ast.Name) and st.test.id == pname:
            first = st.body[0] if st.body else None
            if first is not None and any(isinstance(n, ast.Call) and isinstance(n.func, ast.Attribute) and n.func.attr in ("pop", "popleft")
                                         and isinstance(n.func.value, ast.Name) and n.func.value.id == pname for n in ast.walk(first)):
                return True
    return False


HAND_LOOPS = {
    # (function, normalised test) -> (template, one-line reason)
    ("_derive_smiles_from_fragment", "stack"): ("hand-confirmed",
        "each iteration replaces the top of stack with a strictly larger bond counter or pops; pushes follow only non-ring bonds, which go from lower to higher atom index"),
    ("_fragment_to_selfies", "True"): ("hand-confirmed", "the chain variable moves along a non-ring bond to a higher atom index or the loop breaks"),
    ("_greedy_matching", "node_pqueue"): ("hand-confirmed", "pushes occur only on the path that matches two previously unmatched nodes (at most n/2 times)"),
    ("_find_augmenting_path", "node_queue"): ("T-visited", "a node is appended only when its parents[] entry is None, and the entry is set at the same time"),
    ("_find_augmenting_path", "node != root"): ("hand-confirmed", "parents point to earlier-visited nodes of the BFS tree (INV-BFS_TREE)"),
    ("split_selfies", "0 <= left_idx < len(selfies)"): ("T-inc", "right_idx >= left_idx + 1 after the -1 raise; left_idx' >= right_idx + 1"),
    ("tokenize_smiles", "i < len(smiles)"): ("T-inc", "i' = i + 1 or token.end_idx in {i+1, i+2, i+3, r_idx+1} with r_idx >= i + 1"),
}


def _bounded_above(test, name):
    """the loop test bounds `name` from above: name < X, name <= X (possibly inside a chained comparison / conjunction)"""
    for n in ast.walk(test):
        if isinstance(n, ast.Compare):
            items = [n.left] + list(n.comparators)
            for (a, op, b) in zip(items, n.ops, items[1:]):
                if isinstance(op, (ast.Lt, ast.LtE)) and isinstance(a, ast.Name) and a.id == name:
                    return True
                if isinstance(op, (ast.Gt, ast.GtE)) and isinstance(b, ast.Name) and b.id == name:
                    return True
    return False


def check_inc_loop(ctx, f, node):
    """T-inc by the engine: on every back edge the counter is >= head + 1"""
    class H(Hooks):
        def __init__(self):
            self.loop = None

        def on_loop(self, eng, fr, n, syms, entered, back, exits, breaks):
            if fr.depth == 0 and n is node:
                self.loop = (syms, back)
    h = H()
    eng = Engine(ctx, h)
    try:
        eng.run_function(f)
    except AnalysisError:
        return None
    if h.loop is None:
        return None
    syms, back = h.loop
    names = [n.id for n in ast.walk(node.test) if isinstance(n, ast.Name) and n.id in syms]
    for nm in names:
        head = Lin.var(syms[nm])
        ok = True
        for b in back:
            v = b.env.get(nm)
            lv = v.lin if isinstance(v, Num) else (Lin.var(v.term) if isinstance(v, Unk) else None)
            if lv is None or not b.entails(ge(lv, head + Lin.const(1))):
                ok = False
        if ok and back:
            return nm
    return None


def check_div_loop(ctx, f, node):
    """T-div by the engine: on every back edge the counter is head // b with a constant b >= 2, and the loop runs while it is non-zero"""
    class H(Hooks):
        def __init__(self):
            self.loop = None

        def on_loop(self, eng, fr, n, syms, entered, back, exits, breaks):
            if fr.depth == 0 and n is node:
                self.loop = (syms, back, entered)
    h = H()
    eng = Engine(ctx, h)
    try:
        eng.run_function(f)
    except AnalysisError:
        return None
    if h.loop is None:
        return None
    syms, back, entered = h.loop
    for nm in [n.id for n in ast.walk(node.test) if isinstance(n, ast.Name) and n.id in syms]:
        head = Lin.var(syms[nm])
        ok = bool(back)
        for b in back:
            v = b.env.get(nm)
            lv = v.lin if isinstance(v, Num) else None
            good = False
            if lv is not None:
                for c in range(2, 65):
                    if (lv - Lin.var(("div", head.key(), c))).is_const() and (lv - Lin.var(("div", head.key(), c))).k == 0:
                        good = True
            ok = ok and good
        # inside the loop the counter is >= 1 (so the quotient is strictly smaller and >= 0)
        ok = ok and all(s.entails(ge(head, 1)) for s in entered)
        if ok:
            return nm
    return None


def check_termination(ctx, rep, E, ec):
    n = 0
    seen = set()
    for key in E.order:
        info = E.infos[key]
        f = info.f
        for node in own_nodes(f.node):
            if not isinstance(node, ast.While) or id(node) in seen:
                continue
            seen.add(id(node))
            n += 1
            tt = " ".join(unparse(node.test).split())
            tmpl = loop_template(ctx, info, node, ec)
            how = None
            if tmpl is not None:
                how = "variant template %s" % tmpl
            elif check_div_loop(ctx, f, node) is not None:
                how = "variant template T-div: the counter is floor-divided by a constant >= 2 on every back edge and is >= 1 inside the loop"
            else:
                nm = check_inc_loop(ctx, f, node)
                if nm is not None and _bounded_above(node.test, nm):
                    how = "variant template T-inc: %s strictly increases on every back edge (entailed) and is bounded by the loop test" % nm
                else:
                    entry = HAND_LOOPS.get((f.name, tt))
                    if entry is None and isinstance(node.test, ast.BoolOp) and isinstance(node.test.op, ast.And):
                        # a conjunction that contains the hand-confirmed test: further (side-effect free) conjuncts only make
                        # the loop stop earlier
                        pure = all(not any(isinstance(x, (ast.Call, ast.NamedExpr, ast.Await, ast.Yield)) for x in ast.walk(v)) for v in node.test.values)
                        if pure:
                            for v in node.test.values:
                                entry = entry or HAND_LOOPS.get((f.name, " ".join(unparse(v).split())))
                    if entry is None:
                        # renamed variables / loop moved into an extracted helper of the same module: match the test's shape
                        mine = alpha(tt, f)
                        present = set()
                        for k2 in E.order:
                            g2 = E.infos[k2].f
                            for n2 in own_nodes(g2.node):
                                if isinstance(n2, ast.While):
                                    present.add((g2.name, " ".join(unparse(n2.test).split())))
                        for (f2, t2), v2 in HAND_LOOPS.items():
                            if (f2, t2) not in present and alpha(t2, f) == mine:
                                entry = v2
                    if entry is None:
                        # the function's only while loop, respelled (`while True` ... break  ->  `while pending is not None`): the
                        # hand-confirmed variant is an argument about the loop's body, which the single entry of this function
                        # (whose own test text no longer occurs) still describes
                        mine_loops = [n2 for n2 in own_nodes(f.node) if isinstance(n2, ast.While)]
                        ents = [(k2, v2) for k2, v2 in HAND_LOOPS.items() if k2[0] == f.name]
                        texts = {" ".join(unparse(n2.test).split()) for n2 in mine_loops}
                        gone = [(k2, v2) for k2, v2 in ents if k2[1] not in texts]
                        unexplained = [n2 for n2 in mine_loops if HAND_LOOPS.get((f.name, " ".join(unparse(n2.test).split()))) is None
                                       and loop_template(ctx, info, n2, ec) is None]
                        if len(gone) == 1 and len(unexplained) == 1 and unexplained[0] is node:
                            entry = gone[0][1]
                    if entry is not None and entry[0] != "T-inc":
                        how = "%s: %s" % entry
            rep.ob("TERM", how is not None, node, f, construct="while %s" % tt, how=how or "",
                   witness=None if how else "loop without a termination argument (matches no variant template)", nontrivial=True,
                   key="loop/%s/%s" % (f.name, tt))
    return n


def _endpoints_differ_by_paths(ctx, f, call_node):
    """path-sensitive fallback for EST-RINGBOND_DISTINCT (a guard spelled through a flag variable): on every path of the
    abstract interpretation that reaches the add_ring_bond call, the equality of its two endpoints is known to be false"""
    from sa.sym import Engine, Hooks, vkey, Num
    from sa.lin import eq as _eq
    hits = []

    class H(Hooks):
        def on_call(self, eng, fr, node, callee, args, kwargs, st):
            if node is call_node and hasattr(callee, "name") and callee.name == "add_ring_bond":
                bound = eng.bind_args(callee, args[1:], kwargs, skip_self=True) or {}
                hits.append((bound.get("a"), bound.get("b"), st))
            return None
    try:
        Engine(ctx, H()).run_function(f, {})
    except AnalysisError:
        return False
    if not hits:
        return False
    for a, b, st in hits:
        if a is None or b is None:
            return False
        key = ("eq", tuple(sorted([repr(vkey(a)), repr(vkey(b))])))
        if st.atoms.get(key) is False:
            continue
        if isinstance(a, Num) and isinstance(b, Num) and not st.feasible([_eq(a.lin - b.lin, 0)]):
            continue
        return False
    return True


def check_establishing(ctx, rep, E):
    """establishing-site rules of named invariants that the encoder's totality rests on"""
    from sa.guards import guard_facts, u
    from sa.discharge import noreturn_pred
    # EST-RINGBOND_DISTINCT: every call of add_ring_bond in the SMILES parser region is dominated by a raising guard on the
    # equality of its two endpoints
    n = 0
    for key in E.order:
        info = E.infos[key]
        f = info.f
        if f.cls is not None:
            continue
        facts = None
        for site, node in info.calls:
            if any(g.name == "add_ring_bond" for g in site.callees):
                n += 1
                if facts is None:
                    facts = guard_facts(f, noreturn_pred(ctx, f))
                fs = facts.get(id(node), frozenset())
                kw = {k.arg: u(k.value) for k in node.keywords}
                pos = [u(a) for a in node.args]
                a, b = kw.get("a", pos[0] if pos else None), kw.get("b", pos[1] if len(pos) > 1 else None)
                ok = False
                for fct in fs:
                    if fct[0] == "cmp" and fct[1].startswith("not (") and "==" in fct[1]:
                        inner = fct[1][5:-1]
                        l, _, r = inner.partition("==")
                        if {l.strip(), r.strip()} == {a, b}:
                            ok = True
                    if fct[0] == "cmp" and "!=" in fct[1] and not fct[1].startswith("not ("):
                        l, _, r = fct[1].partition("!=")
                        if {l.strip(), r.strip()} == {a, b}:
                            ok = True
                if not ok:
                    ok = _endpoints_differ_by_paths(ctx, f, node)
                rep.ob("EST", ok, node, f, construct="add_ring_bond(%s, %s, ...)" % (a, b),
                       how="dominated by a raising guard that the two endpoints differ (establishes RINGBOND_DISTINCT)",
                       witness=None if ok else "a ring bond can be created between an atom and itself (e.g. 'C11'): the ring distance 0 later "
                       "raises IndexError in the index encoder instead of EncoderError", nontrivial=True, key="RINGBOND_DISTINCT/" + f.name)
    # EST-CHAIN_START: a dereference of the maybe-None previous atom in the parser is dominated by the (raising) chain-start test
    for key in E.order:
        info = E.infos[key]
        f = info.f
        for st_ in info.sites:
            if st_.kind == "none-deref" and triage_lookup(ctx, st_, st_.key()[:3]) == "CHAIN_START":
                facts = guard_facts(f, noreturn_pred(ctx, f))
                fs = facts.get(id(st_.node), frozenset())
                flags = set()
                for nd in own_nodes(f.node):
                    if isinstance(nd, ast.Assign) and len(nd.targets) == 1 and isinstance(nd.targets[0], ast.Name) \
                            and isinstance(nd.value, ast.Constant) and isinstance(nd.value.value, bool):
                        flags.add(nd.targets[0].id)
                ok = any(fc[0] == "falsy" and fc[1] in flags for fc in fs)
                rep.ob("EST", ok, st_.node, f, construct="%s under the chain-start test" % st_.text,
                       how="dominated by a raising test of the chain-start flag (establishes CHAIN_START)",
                       witness=None if ok else "a ring digit or branch bracket at the start of a chain dereferences the missing previous atom: "
                       "AttributeError instead of EncoderError", nontrivial=True, key="CHAIN_START/" + f.name)
    # EST-FREE_DEGREE: the unguarded next() over the unmatched neighbours of a node is reached only under a dominating test
    # that the node's free-degree counter is positive (the counter's meaning is the hand-confirmed invariant; that the
    # search is *entered only under it* is visible in the code and is what a dropped guard breaks)
    for key in E.order:
        info = E.infos[key]
        f = info.f
        for st_ in info.sites:
            if st_.kind != "next" or triage_lookup(ctx, st_, st_.key()[:3]) != "FREE_DEGREE":
                continue
            call = st_.node
            gen = call.args[0] if isinstance(call, ast.Call) and call.args else None
            node_txt = None
            if isinstance(gen, ast.GeneratorExp):
                from rules.shared import resolve_local
                it_ = resolve_local(f, gen.generators[0].iter)       # node_adj = graph[node] bound to a local first
                if isinstance(it_, ast.Subscript):
                    node_txt = u(it_.slice)

            def positive_about(fs, txt):
                for fc in fs:
                    subj = None
                    if fc[0] == "ne" and fc[2] == "0":
                        subj = fc[1]
                    elif fc[0] == "truthy":
                        subj = fc[1]
                    elif fc[0] == "cmp":
                        t = fc[1].replace(" ", "")
                        for pre, suf in (("", ">0"), ("", ">=1"), ("", "!=0"), ("0<", ""), ("1<=", ""), ("not(", "<=0)"), ("not(", "<1)"),
                                         ("not(", "==0)"), ("not(0>=", ")"), ("not(0==", ")")):
                            if t.startswith(pre) and t.endswith(suf) and len(t) > len(pre) + len(suf):
                                subj = t[len(pre):len(t) - len(suf)]
                                break
                    if subj is not None and subj.replace(" ", "").endswith("[%s]" % txt.replace(" ", "")):
                        return True
                return False
            ok = False
            if node_txt is not None:
                ok = positive_about(guard_facts(f, noreturn_pred(ctx, f)).get(id(call), frozenset()), node_txt)
                if not ok and node_txt in f.params and f.name.startswith("_"):
                    # the search was extracted into a private helper: the test must dominate every call of the helper, about
                    # the argument bound to the node parameter
                    callers = _callers_of(ctx, f)
                    oks = []
                    for c in callers:
                        cf = guard_facts(c, noreturn_pred(ctx, c))
                        for s2_ in ctx.cg.sites(c):
                            if f in s2_.callees and isinstance(s2_.node, ast.Call):
                                pos = f.posparams
                                arg = None
                                if node_txt in pos and pos.index(node_txt) < len(s2_.node.args):
                                    arg = s2_.node.args[pos.index(node_txt)]
                                for kw in s2_.node.keywords:
                                    if kw.arg == node_txt:
                                        arg = kw.value
                                oks.append(arg is not None and positive_about(cf.get(id(s2_.node), frozenset()), u(arg)))
                    ok = bool(oks) and all(oks)
            rep.ob("EST", ok, call, f, construct="%s under the free-degree test" % st_.text[:60],
                   how="dominated by a test that the node's free-degree counter is non-zero (establishes FREE_DEGREE at its use)",
                   witness=None if ok else "the first-unmatched-neighbour search is reached for a node whose free-degree counter may be 0 "
                   "(all neighbours matched): StopIteration escapes instead of EncoderError", nontrivial=True, key="FREE_DEGREE/" + f.name)
    # EST-INDEX_NONNEG: the index encoder's explicit raise is reached for negative indices only (ring distances and branch
    # lengths are >= 0 by RINGBOND_DISTINCT / non-empty branches): abstract run with a symbolic index (shared with C16/I5)
    gsi = ctx.db.funcs.get("selfies.grammar_rules.get_selfies_from_index")
    if gsi is not None and gsi.qual in E.quals and any(v == "INDEX_NONNEG" for v in TRIAGE.values()):
        from sa.sym import Engine, Hooks, Num as _Num
        from sa.lin import Lin as _Lin, le as _le
        nvar = _Lin.var("n")
        frx = Engine(ctx, Hooks()).run_function(gsi, {gsi.posparams[0]: _Num(nvar)})
        other = [(st_, nd, exc) for st_, nd, exc in frx.raises if not st_.entails(_le(nvar, -1))]
        rep.ob("EST", not other, other[0][1] if other else gsi.node, gsi, construct="raise sites of the index encoder",
               how="reached only when index <= -1 is entailed (establishes INDEX_NONNEG at its use)",
               witness=None if not other else "get_selfies_from_index can raise %s for a non-negative index (e.g. a long branch or a wide ring): "
               "it escapes encoder() instead of EncoderError" % other[0][2], nontrivial=True, key="INDEX_NONNEG/guard")
    # EST-AROMATIC_TABLES: the two element tables have one key set and kekulize() rejects other elements before pruning
    try:
        av = ctx.fold.global_value("selfies.constants", "AROMATIC_VALENCES")
        ve = ctx.fold.global_value("selfies.constants", "VALENCE_ELECTRONS")
        ok = set(av) == set(ve) and all(isinstance(v, tuple) and len(v) >= 1 for v in av.values())
        rep.ob("EST", ok, None, None, loc="selfies/constants.py", construct="AROMATIC_VALENCES / VALENCE_ELECTRONS key sets",
               how="equal key sets, non-empty valence tuples", key="AROMATIC_TABLES/keys", nontrivial=True,
               witness=None if ok else "elements %s have an aromatic valence but no valence-electron entry (or vice versa): KeyError in kekulisation"
               % sorted(set(av) ^ set(ve))[:4])
    except AnalysisError:
        pass
    kek = ctx.db.funcs.get("selfies.mol_graph.MolecularGraph.kekulize")
    prune = ctx.db.funcs.get("selfies.mol_graph.MolecularGraph._prune_from_ds")
    if kek is not None and prune is not None and kek.qual in E.quals:
        # a membership guard on the aromatic table with `return False` precedes the first use of the pruning function
        src = unparse(kek.node)
        def table_cmp(c, want_in):
            return isinstance(c, ast.Compare) and len(c.ops) == 1 and isinstance(c.ops[0], ast.In if want_in else ast.NotIn) \
                and "AROMATIC_VALENCES" in unparse(c.comparators[0])

        def rejects_non_members(t):
            """the test is true exactly when some element is not in the valence table"""
            if isinstance(t, ast.UnaryOp) and isinstance(t.op, ast.Not):
                o = t.operand
                return isinstance(o, ast.Call) and unparse(o.func) == "all" and len(o.args) == 1 \
                    and isinstance(o.args[0], (ast.GeneratorExp, ast.ListComp)) and table_cmp(o.args[0].elt, True)
            if isinstance(t, ast.Call) and unparse(t.func) == "any" and len(t.args) == 1 and isinstance(t.args[0], (ast.GeneratorExp, ast.ListComp)):
                return table_cmp(t.args[0].elt, False)
            return table_cmp(t, False)          # inside a loop over the nodes: `if element not in TABLE: return False`
        guards = [nd for nd in own_nodes(kek.node) if isinstance(nd, ast.If) and rejects_non_members(nd.test)
                  and any(isinstance(x, ast.Return) for x in nd.body)]
        first_use = [nd for nd in own_nodes(kek.node) if isinstance(nd, ast.Attribute) and nd.attr == prune.name]
        # ... or the first call of a helper that (transitively) prunes
        for s_ in ctx.cg.sites(kek):
            if any(g is prune or prune.qual in ctx.cg.region(g) for g in s_.callees) and hasattr(s_.node, "lineno"):
                first_use.append(s_.node)
        first_use.sort(key=lambda nd: (nd.lineno, nd.col_offset))
        guards.sort(key=lambda nd: (nd.lineno, nd.col_offset))
        ok = bool(guards) and bool(first_use) and guards[0].lineno < first_use[0].lineno
        rep.ob("EST", ok, guards[0] if guards else kek.node, kek, construct="kekulize() element guard",
               how="elements without an aromatic valence entry make kekulize() return False before the table look-ups",
               witness=None if ok else "an aromatic bond on an element without AROMATIC_VALENCES entry (e.g. 'C:F') reaches the table "
               "look-up: KeyError instead of EncoderError", nontrivial=True, key="AROMATIC_TABLES/guard")
    return n


def check_table_shape(ctx, rep, E):
    """EST-TABLE_SHAPE: the values of the folded branch / ring tables are tuples of one arity each (2 and 3), which is what the
    decoder unpacks after the None test"""
    if ctx.db.funcs.get("selfies.grammar_rules.process_ring_symbol") is None or "selfies.grammar_rules.process_ring_symbol" not in E.quals:
        return
    from rules.symlang import symbol_table
    for kind_, want_ in (("branch", 2), ("ring", 3)):
        tab_ = symbol_table(ctx, kind_)
        ars = {len(v) if isinstance(v, tuple) else None for v in tab_.values()}
        rep.ob("EST", ars == {want_}, None, None, loc="selfies/grammar_rules.py", construct="%s table: %d entries" % (kind_, len(tab_)),
               how="every value is a tuple of arity %d (establishes TABLE_SHAPE)" % want_, key="TABLE_SHAPE/" + kind_, nontrivial=True,
               witness=None if ars == {want_} else "entries of the %s table have arities %s: the decoder's unpack raises" % (kind_, sorted(map(str, ars))))


def check_cache_shape(ctx, rep, E):
    """EST-CACHE_SHAPE: what is stored into a module-level cache in the region is, on every path, a tuple of the arity
    that the readers of the cache unpack (never None)"""
    from sa.guards import guard_facts, u
    from sa.discharge import noreturn_pred, Discharger, tuple_arities
    from sa.effects import Effects
    eff = Effects(ctx)
    pt = ctx.pt
    D = Discharger(E)
    n = 0
    for key in E.order:
        info = E.infos[key]
        f = info.f
        recs = [r for r in pt.records(f.qual) if r.op == "store-sub" and any(eff.is_shared_target(t) for t in r.targets)]
        if not recs:
            continue
        facts = guard_facts(f, noreturn_pred(ctx, f))
        for r in recs:
            st = r.node
            if not isinstance(st, ast.Assign):
                continue
            n += 1
            val = st.value
            fs = facts.get(id(st), frozenset())
            t = info.type_of(val)
            if isinstance(val, ast.Name):
                d = D.dominating_def(info, val.id, st)
                if d is not None:
                    t = info.type_of(d)
            nn = ("notnone", u(val)) in fs
            ar = tuple_arities(t, nn)
            may_none = any(a[0] == "none" for a in t) and not nn
            # arity expected by the readers: unpack sites of values read from the same cache in this function
            ok = ar is not None and len(ar) == 1 and not may_none
            rep.ob("EST", ok, st, f, construct="cache store %s" % unparse(st)[:60],
                   how="stored value is a tuple of arity %s on every path (None excluded by a dominating test)" % (sorted(ar) if ar else "?"),
                   witness=None if ok else "a value that may be None / of another shape is cached: a later cache hit is unpacked "
                   "and raises TypeError/ValueError instead of the documented error", nontrivial=True,
                   key="CACHE_SHAPE/%s/%s" % (f.name, "ok" if ok else "may-be-none"))
    return n


def check_definite_assignment(ctx, rep, E):
    """X-unbound: every read of a local in the region is preceded by a binding on all paths (UnboundLocalError is a
    NameError, never the documented error class).  Syntax-directed definite-assignment dataflow (sa/defassign.py); a report is
    dropped only when the path-sensitive engine reaches the read on no path with the name unbound."""
    from sa.defassign import maybe_unbound
    n_f = n_bad = 0
    for key in E.order:
        f = E.infos[key].f
        n_f += 1
        try:
            sites = maybe_unbound(f)
        except RuntimeError as e:
            raise AnalysisError("definite-assignment dataflow: %s" % e)
        if not sites:
            continue
        confirmed = _unbound_confirmed(ctx, f, sites)
        for nd in sites:
            if id(nd) not in confirmed:
                continue
            n_bad += 1
            rep.ob("X-unbound", False, nd, f, construct="read of local %s" % nd.id,
                   witness="the local %r can be read on a path that never bound it: UnboundLocalError escapes instead of the documented error" % nd.id,
                   nontrivial=True, key="unbound/%s/%s" % (f.name, nd.id))
    rep.ob("X-unbound", True, None, None, loc="selfies/", construct="definite assignment in %d functions of the region" % n_f,
           how="every read of a local is dominated by a binding on all paths", key="unbound/summary")
    return n_f


def _unbound_confirmed(ctx, f, sites):
    """ids of the reported reads that the path-sensitive engine also reaches with the name unbound (correlated tests such as
    `if a: x = 1` ... `if a: use(x)` are ruled out there); when the engine cannot analyse f, every report stands"""
    from sa.sym import Engine, Hooks, Unk
    want = {id(n): n for n in sites}
    hit = set()

    class H(Hooks):
        pass
    eng = Engine(ctx, H())
    orig = eng.e_Name

    def e_name(fr, e, s):
        out = orig(fr, e, s)
        if id(e) in want and fr.func is f:
            for _s, v in out:
                if isinstance(v, Unk) and isinstance(v.term, tuple) and v.term[:1] == ("unbound",):
                    hit.add(id(e))
        return out
    eng.e_Name = e_name
    try:
        eng.run_function(f, {})
    except AnalysisError:
        return set(want)
    return hit


def _cycle_role(ctx, comp):
    """a stable label for a recursion cycle: its role when it is the decoder's derivation or the encoder's fragment printer
    (private functions may be renamed), else the function names"""
    quals = set(comp)
    try:
        from rules import decmodel
        if decmodel.find_roles(ctx)["D"].qual in quals and len(quals) == 1:
            return "_derive_mol_from_symbols" if False else "decoder-derivation"
    except AnalysisError:
        pass
    try:
        from rules.shared import fragment_printer
        if fragment_printer(ctx)[1].qual in quals and len(quals) == 1:
            return "encoder-fragment-printer"
    except AnalysisError:
        pass
    return "+".join(c.split(".")[-1] for c in comp)


def check_recursion(ctx, rep, E):
    sccs = ctx.cg.sccs(E.quals)
    for comp in sccs:
        f = ctx.db.funcs[comp[0]]
        rep.ob("REC", False, f.node, f, construct="recursion cycle %s" % " -> ".join(c.split(".")[-1] for c in comp),
               witness="call-graph cycle whose depth grows with the input (one Python frame per nesting level): RecursionError can escape",
               nontrivial=True, key="cycle/" + _cycle_role(ctx, comp))
    return len(sccs)


def check_none_as_index(ctx, rep, E):
    """X-none-index (a contradiction rule): where a function tests an expression against None, it believes the expression can be
    None; a use of the same expression (directly, or through a local that names it) as a subscript *index* must then be
    dominated by the fact that it is not None -- `seq[None]` raises TypeError, which is in no translator's contract.
    (The `else` arm of `x is None and <more>` does not establish x is not None.)"""
    from sa.guards import guard_facts
    from sa.discharge import noreturn_pred
    from rules.shared import resolve_local
    n = 0
    for key in E.order:
        f = E.infos[key].f
        tested = set()
        for c in own_nodes(f.node):
            if isinstance(c, ast.Compare) and len(c.ops) == 1 and isinstance(c.ops[0], (ast.Is, ast.IsNot)) \
                    and isinstance(c.comparators[0], ast.Constant) and c.comparators[0].value is None \
                    and isinstance(c.left, (ast.Subscript, ast.Attribute, ast.Name)):
                tested.add(unparse(c.left))
        if not tested:
            continue
        facts = None
        for sub in own_nodes(f.node):
            if not (isinstance(sub, ast.Subscript) and not isinstance(sub.slice, ast.Slice)):
                continue
            idx = sub.slice
            e = resolve_local(f, idx) if isinstance(idx, ast.Name) else idx
            txt = unparse(e)
            if txt not in tested and unparse(idx) not in tested:
                continue
            if facts is None:
                facts = guard_facts(f, noreturn_pred(ctx, f))
            fs = facts.get(id(sub), frozenset())
            ok = any(fc[0] == "notnone" and fc[1] in (txt, unparse(idx)) for fc in fs) or \
                any(fc[0] == "truthy" and fc[1] in (txt, unparse(idx)) for fc in fs)
            n += 1
            rep.ob("X-none-index", ok, sub, f, construct="%s used as an index (%s)" % (txt, unparse(sub)[:40]),
                   how="dominated by the test that it is not None (the function tests it against None elsewhere)", nontrivial=True,
                   key="%s/%s/%s" % (f.name, alpha(unparse(sub), f), "ok" if ok else "bad"),
                   witness=None if ok else "%s can be None here (the function itself tests it against None) and is used as an index: "
                   "TypeError escapes instead of the translator's own error" % txt)
    return n
