"""Symbol-spelling languages (E6 clients) shared by C10, C07, C18, C04, C14.

  dec_atom(ctx)        language of atom symbols the decoder accepts: its atom pattern with the element group
                       restricted to ELEMENTS (capture unambiguity is checked)
  enc_atom_inner(ctx)  language of atom_to_smiles(atom, brackets=False) over the atoms the SMILES reader can produce
  enc_atom_tokens(ctx) language of the atom tokens the encoder prints
  enc_ring_prefixes / enc_branch_prefixes, table key sets
"""
import ast

from sa import AnalysisError
from sa.db import unparse, own_nodes
from sa.lin import Lin, ge, le
from sa.sym import Engine, Hooks, Num, Con, Tup, Obj, Unk, Str, Ref, vkey, assume
from sa.strlang import StrLang, IntFacts, Unsupported
from sa import reglang as RL

GR = "selfies.grammar_rules"
SU = "selfies.utils.smiles_utils"


def _cached(ctx, key, fn):
    if key not in ctx.cache:
        ctx.cache[key] = fn()
    return ctx.cache[key]


def atom_parser(ctx):
    """the un-cached reader of atom symbols, by role: the module-level function of grammar_rules that process_atom_symbol
    calls and that matches a compiled module-level pattern (its name is free to change)"""
    key = ("atom_parser",)
    if key not in ctx.cache:
        pas = ctx.fn(GR + ".process_atom_symbol")
        cands = []
        for s_ in ctx.cg.sites(pas):
            for g in s_.callees:
                if g.module is pas.module and g.cls is None and g is not pas and g not in cands:
                    cands.append(g)
        rx = [g for g in cands if any(isinstance(n, ast.Call) and isinstance(n.func, ast.Attribute) and n.func.attr in ("match", "fullmatch", "search")
                                      for n in own_nodes(g.node))]
        pick = rx if len(rx) == 1 else (cands if len(cands) == 1 else [])
        if len(pick) != 1:
            raise AnalysisError("the un-cached atom-symbol reader called by process_atom_symbol was not identified (%d candidate(s))" % len(cands))
        ctx.cache[key] = pick[0]
    return ctx.cache[key]


def symbol_table(ctx, kind):
    """the folded branch / ring symbol table of the decoder, by role: the module-level dict that process_<kind>_symbol (a
    public name of grammar_rules) looks its argument up in -- whatever the table is called"""
    key = ("symbol_table", kind)
    if key not in ctx.cache:
        f = ctx.fn(GR + ".process_%s_symbol" % kind)
        names = []
        for n in own_nodes(f.node):
            nm = None
            if isinstance(n, ast.Subscript) and isinstance(n.value, ast.Name) and isinstance(n.ctx, ast.Load):
                nm = n.value.id
            elif isinstance(n, ast.Call) and isinstance(n.func, ast.Attribute) and n.func.attr == "get" and isinstance(n.func.value, ast.Name):
                nm = n.func.value.id
            elif isinstance(n, ast.Compare) and len(n.ops) == 1 and isinstance(n.ops[0], (ast.In, ast.NotIn)) and isinstance(n.comparators[0], ast.Name):
                nm = n.comparators[0].id
            if nm is not None and nm not in f.locals and nm not in names:
                names.append(nm)
        tabs = []
        for nm in names:
            r = ctx.db.resolve_global(f.module, nm)
            if r and r[0] == "global":
                try:
                    v = ctx.fold.global_value(r[1], r[2])
                except Exception:
                    continue
                if isinstance(v, dict) and v:
                    tabs.append(v)
        if len(tabs) != 1:
            raise AnalysisError("the symbol table read by process_%s_symbol was not identified (%d candidate(s))" % (kind, len(tabs)))
        ctx.cache[key] = tabs[0]
    return ctx.cache[key]


def atom_pattern_name(ctx):
    """(module name, global name) of the compiled pattern the atom-symbol reader matches"""
    f = atom_parser(ctx)
    for n in own_nodes(f.node):
        if isinstance(n, ast.Call) and isinstance(n.func, ast.Attribute) and n.func.attr in ("match", "fullmatch", "search") \
                and isinstance(n.func.value, (ast.Name, ast.Attribute)):
            r = ctx.db.resolve_dotted(f.module, n.func.value)
            if r and r[0] == "global":
                return r[1], r[2]
    raise AnalysisError("the pattern matched by the atom-symbol reader is not a module-level constant")


def elements(ctx):
    return set(ctx.fold.global_value("selfies.constants", "ELEMENTS"))


def dec_atom(ctx):
    def build():
        pat = ctx.fold.global_value(*atom_pattern_name(ctx))
        r, groups, tree = RL.parse_pattern(pat.pattern)
        # which group is checked against ELEMENTS: engine run of the un-cached symbol processor
        NC = atom_parser(ctx)
        h = IntFacts(ctx)
        eng = Engine(ctx, h)
        h.bind(eng)
        fr = eng.run_function(NC, {NC.posparams[0]: Unk(("selfies-symbol",))})
        elem_groups = set()
        ok_returns = 0
        for st, v in fr.returns:
            if isinstance(v, Con) and v.value is None:
                continue
            ok_returns += 1
            for k, val in st.atoms.items():
                if k[0] == "in" and val is True and k[2] == ("folded", "selfies.constants.ELEMENTS"):
                    vk = k[1]
                    if vk[0] == "unk" and isinstance(vk[1], tuple) and vk[1][0] == "group":
                        elem_groups.add(vk[1][2])
        if not ok_returns:
            raise AnalysisError("decoder atom processor has no accepting path")
        if len(elem_groups) != 1:
            raise AnalysisError("cannot identify the element group of the decoder's atom pattern (%s)" % sorted(elem_groups))
        eg = elem_groups.pop()
        # capture unambiguity: characters that can extend the element group vs. first characters of what follows
        amb = capture_ambiguity(tree, eg)
        E = elements(ctx)
        r2 = RL.from_sre(tree, {}, {eg: ("alt", [("lit", e) for e in sorted(E)])})
        d = RL.compile_regex(r2)
        # the organic shortcut accepts only members of ORGANIC_SUBSET, which must be elements
        org = set(ctx.fold.global_value("selfies.constants", "ORGANIC_SUBSET"))
        return dict(dfa=d, raw=RL.compile_regex(r), groups=groups, tree=tree, elem_group=eg, ambiguity=amb,
                    organic_ok=org <= E, frame=fr, hooks=h, eng=eng)
    return _cached(ctx, "dec_atom", build)


def capture_ambiguity(tree, gnum):
    """None if the group assignment of group `gnum` is unambiguous: no character that can extend the group
    can also start what follows it"""
    import re._constants as src
    items = list(tree)
    idx = None
    for i, (op, av) in enumerate(items):
        if op is src.SUBPATTERN and av[0] == gnum:
            idx = i
    if idx is None:
        return "group not at top level"
    g = RL.compile_regex(RL.from_sre(items[idx][1][3]))
    rest = RL.compile_regex(RL.from_sre(items[idx + 1:]))
    # symbols that can follow a complete group word inside the group
    ext = set()
    first_rest = set()
    n = len(g.trans)
    # live states of g
    live = _live(g)
    # states reachable after reading an accepted word: accept states; their outgoing live symbols extend
    for s in g.accept:
        for k, t in enumerate(g.trans[s]):
            if t in live:
                ext.add(RL.ALPHABET[k])
    lr = _live(rest)
    for k, t in enumerate(rest.trans[0]):
        if t in lr:
            first_rest.add(RL.ALPHABET[k])
    both = ext & first_rest
    return None if not both else "characters %s can either extend the group or start the remainder" % sorted(both)[:5]


def _live(d):
    n = len(d.trans)
    rev = [set() for _ in range(n)]
    for s in range(n):
        for t in d.trans[s]:
            rev[t].add(s)
    live = set(d.accept)
    work = list(live)
    while work:
        s = work.pop()
        for p in rev[s]:
            if p not in live:
                live.add(p)
                work.append(p)
    return live


def _sig(sl, st, obj, skip=("is_aromatic", "index")):
    out = []
    for f, v in sorted(obj.fields.items()):
        if f in skip:
            continue
        if isinstance(v, Con):
            out.append((f, "con", repr(v.value)))
        elif isinstance(v, Num):
            l = v.lin
            if l.is_const():
                out.append((f, "num", int(l.k)))
            else:
                out.append((f, "numsym", st.entails(ge(l, 0)), st.entails(ge(l, 1)), st.entails(le(l, -1)),
                            st.entails(le(l, 0)), st.entails(le(l, 9)) and st.entails(ge(l, -9)),
                            not assume(("lin", l, "=="), st)))
        else:
            try:
                d = sl.lang(v, st)
                out.append((f, "str", len(d.trans), d.witness(), tuple(sorted(d.accept))))
            except Unsupported as e:
                out.append((f, "unk", str(e)))
    return tuple(out)


def reader_atoms(ctx):
    """abstract atoms the SMILES atom reader can return: list of (state, Obj) with distinct signatures"""
    def build():
        reader = ctx.fn(SU + ".smiles_to_atom")
        h = IntFacts(ctx)
        eng = Engine(ctx, h)
        h.bind(eng)
        fr = eng.run_function(reader, {reader.posparams[0]: Unk(("smiles-atom",))})
        sigs = {}
        n = 0
        for st, v in fr.returns:
            if not isinstance(v, Obj):
                continue
            n += 1
            sigs.setdefault(_sig(h.sl, st, v), (st, v))
        if not sigs:
            raise AnalysisError("SMILES atom reader has no successful path")
        return dict(eng=eng, hooks=h, atoms=list(sigs.values()), n_paths=n, frame=fr)
    return _cached(ctx, "reader_atoms", build)


def printed_language(ctx, eng, sl, atoms, brackets):
    pr = ctx.fn(SU + ".atom_to_smiles")
    total = None
    samples = []
    for st, v in atoms:
        v = Obj(v.oid, v.cls, dict(v.fields))
        v.fields["is_aromatic"] = Con(False)     # printers run after kekulisation / on decoder-made atoms
        sub = eng.run_function(pr, {pr.posparams[0]: v, "brackets": Con(brackets)}, state=st)
        for st2, val in sub.returns:
            d = sl.lang(val, st2)
            if len(samples) < 12:
                w = d.witness()
                if w is not None and w not in samples:
                    samples.append(w)
            total = d if total is None else total.union(d)
    if total is None:
        raise AnalysisError("atom printer has no return path")
    return total, samples


def enc_atom_inner(ctx):
    def build():
        ra = reader_atoms(ctx)
        d, samples = printed_language(ctx, ra["eng"], ra["hooks"].sl, ra["atoms"], False)
        return dict(dfa=d, samples=samples, n_atoms=len(ra["atoms"]))
    return _cached(ctx, "enc_atom_inner", build)


def bond_prefix_language(ctx):
    """language of the bond character the encoder puts in front of an atom (through its token printer)"""
    def build():
        from rules.shared import atom_token_printer
        tok = atom_token_printer(ctx)
        a2s = ctx.fn(SU + ".atom_to_smiles")

        class H(IntFacts):
            def on_call(self, eng, fr, node, callee, args, kwargs, st):
                if callee is a2s:
                    return Unk(("inner",))
                return IntFacts.on_call(self, eng, fr, node, callee, args, kwargs, st)
        h = H(ctx)
        eng = Engine(ctx, h)
        h.bind(eng)
        atom = Obj(("atom",), "selfies.mol_graph.Atom", {"is_aromatic": Con(False)})
        total = None
        templates = set()
        for bond in (Con(None), Obj(("bond",), "selfies.mol_graph.DirectedBond")):
            sub = eng.run_function(tok, {tok.posparams[0]: bond, tok.posparams[1]: atom})
            for st, val in sub.returns:
                if not isinstance(val, Str):
                    raise AnalysisError("atom token printer does not return a formatted string")
                parts = list(val.parts)
                # expected shape: "[" + bond part(s) + inner + "]"
                idx = [i for i, p in enumerate(parts) if p == ("sym", ("inner",))]
                if len(idx) != 1 or parts[0] != ("lit", "[") or parts[-1] != ("lit", "]"):
                    raise AnalysisError("atom token is not '[' + bond + atom + ']' (%r)" % (parts,))
                templates.add((len(parts[1:idx[0]]), len(parts[idx[0] + 1:-1])))
                if parts[idx[0] + 1:-1]:
                    raise AnalysisError("unexpected text after the atom in the atom token")
                d = h.sl.lang(Str(tuple(parts[1:idx[0]])), st) if parts[1:idx[0]] else RL.lit("")
                total = d if total is None else total.union(d)
        return total
    return _cached(ctx, "bond_prefix", build)


def enc_atom_tokens(ctx):
    def build():
        inner = enc_atom_inner(ctx)
        bp = bond_prefix_language(ctx)
        d = RL.cat(("lit", "["), bp, inner["dfa"], ("lit", "]"))
        return dict(dfa=d, inner=inner, bond=bp)
    return _cached(ctx, "enc_atom_tokens", build)


def canonical_atom(ctx):
    """the standard spelling of an atom symbol: [bond? isotope? ELEMENT chirality? (H digit)? charge?] with canonical numerals"""
    E = elements(ctx)
    nat = ("alt", [("lit", "0"), ("cat", [("set", frozenset("123456789")), ("rep", ("set", frozenset("0123456789")), 0, None)])])
    pos = ("cat", [("set", frozenset("123456789")), ("rep", ("set", frozenset("0123456789")), 0, None)])
    r = ("cat", [("lit", "["), ("rep", ("set", frozenset("=#/\\")), 0, 1), ("rep", nat, 0, 1),
                 ("alt", [("lit", e) for e in sorted(E)]), ("rep", ("lit", "@"), 0, 2),
                 ("rep", ("cat", [("lit", "H"), ("set", frozenset("0123456789"))]), 0, 1),
                 ("rep", ("cat", [("set", frozenset("+-")), pos]), 0, 1), ("lit", "]")])
    return RL.compile_regex(r)


def stereo_domain(ctx):
    """named field invariant STEREO_DOMAIN: the non-None values DirectedBond.stereo can hold are the stereo
    components smiles_to_bond can return (folded over every bond character) and the marks of the ring table"""
    def build():
        fo = ctx.fold
        f = ctx.fn(SU + ".smiles_to_bond")
        chars = list(fo.global_value(SU, "SMILES_BOND_ORDERS")) + [None, ""]
        vals = set()
        for c in chars:
            v = fo.call_function(f, [c], {})
            if isinstance(v, tuple) and len(v) == 2 and v[1] is not None:
                vals.add(v[1])
        for e in symbol_table(ctx, "ring").values():
            for m in e[2]:
                if m is not None:
                    vals.add(m)
        if not all(isinstance(x, str) for x in vals):
            raise AnalysisError("non-string stereo mark")
        return vals
    return _cached(ctx, "stereo_domain", build)


def check_reader_keeps_groups(ctx, rep, RULE):
    """The decoder's atom-symbol reader drops nothing that is written: on every successful path, each capture group of the
    atom pattern that is known to be non-empty on that path feeds (through int(), slicing, sign arithmetic ...) one of the
    arguments the atom is built from.  (A shortcut taken on a *falsy parsed value* -- isotope 0, "H0" -- instead of on an
    empty group loses a written field: the decoded SMILES re-encodes to a different symbol.)"""
    from sa.sym import Ref, Tup, Num, Con
    f = atom_parser(ctx)
    h = IntFacts(ctx)
    eng = Engine(ctx, h)
    h.bind(eng)
    fr = eng.run_function(f, {f.posparams[0]: Unk(("atom-symbol",))})

    def groups_in(x, out, depth=0):
        """capture-group terms ('group', match term, index) reachable from a value / term, following provenance"""
        if depth > 12:
            return
        if isinstance(x, Num):
            for t in x.lin.terms():
                groups_in(t, out, depth + 1)
            return
        if isinstance(x, Unk):
            groups_in(x.term, out, depth + 1)
            return
        if isinstance(x, (Con, Ref)) or x is None:
            return
        if isinstance(x, str):
            o = eng.origin.get(x)          # fresh terms (int#k, ...) carry their provenance in the origin registry
            if o is not None:
                for y in o[1:]:
                    groups_in(y, out, depth + 1)
            return
        if isinstance(x, tuple):
            if len(x) >= 3 and x[0] == "group":
                out.add(x)
                return
            o = eng.origin.get(x)
            if o is not None:
                for y in o[1:]:
                    groups_in(y, out, depth + 1)
            for y in x:
                if isinstance(y, tuple):
                    groups_in(y, out, depth + 1)
            return
        if hasattr(x, "items") and not isinstance(x, dict):
            for y in x.items:
                groups_in(y, out, depth + 1)
        if hasattr(x, "parts"):
            for p in x.parts:
                if p[0] == "sym":
                    groups_in(p[1], out, depth + 1)
    n_ok = 0
    bad = {}
    for st, v in fr.returns:
        if not (isinstance(v, Tup) and len(v.items) == 2 and isinstance(v.items[1], Ref) and v.items[1].kind == "partial"):
            continue
        tgt, pargs, pkw = v.items[1].target
        used = set()
        for a in list(pargs) + list(pkw.values()) + [v.items[0]]:
            groups_in(a, used)
        # groups known to be non-empty on this path
        nonempty = set()
        for k, val in st.atoms.items():
            if k[0] == "eq" and val is False and repr(vkey(Con(""))) in k[1]:
                other = [x for x in k[1] if x != repr(vkey(Con("")))]
                for t in list(eng.origin) + []:
                    pass
                nonempty.add(other[0])
            elif k[0] == "truthy" and val is True and isinstance(k[1], tuple) and k[1][0] == "unk" and isinstance(k[1][1], tuple) and k[1][1][0] == "group":
                nonempty.add(repr(k[1]))
        dropped = [g for g in nonempty if "'group'" in g and not any(repr(("unk", u_)) == g for u_ in used)]
        if dropped:
            bad.setdefault(tuple(sorted(dropped)), st)
        else:
            n_ok += 1
    w = None
    if bad:
        g0 = next(iter(bad))[0]
        import re as _re
        m = _re.search(r", (\d+)\)\)$", g0)
        w = "on some path capture group %s of the atom pattern is non-empty but none of the atom's fields is computed from it: a written " \
            "isotope / H count / charge / chirality mark is silently dropped" % (m.group(1) if m else g0[-30:])
    if not n_ok and not bad:
        raise AnalysisError("atom-symbol reader has no successful path with a partial atom constructor")
    rep.ob(RULE, not bad, f.node, f, construct="%d successful paths of the atom-symbol reader" % (n_ok + len(bad)),
           how="every capture group known non-empty on a path feeds a field of the atom built on that path", witness=w, nontrivial=True,
           key="reader-keeps-groups")


def check_parsed_numerals(ctx, rep, RULE):
    """A number that is written is the number that is read.  Both atom readers (the SMILES atom reader and the decoder's
    atom-symbol reader) parse decimal groups with int(); on every successful path on which the digits of a capture group
    were parsed, the field that group feeds is, up to sign, exactly the parsed number -- not a default substituted because
    the parsed value happened to be falsy ('H0' read as one hydrogen, isotope 0 read as absent).

    The group -> field correspondence is taken from the reader itself (the paths on which the field is a parsed number)."""
    from sa.sym import Ref, Tup, Num
    from sa.lin import Lin, eq
    readers = [("SMILES atom reader", ctx.fn(SU + ".smiles_to_atom")), ("atom-symbol reader", atom_parser(ctx))]
    for label, f in readers:
        h = IntFacts(ctx)
        eng = Engine(ctx, h)
        h.bind(eng)
        fr = eng.run_function(f, {f.posparams[0]: Unk((label,))})
        paths = []
        for st, v in fr.returns:
            fields = None
            if isinstance(v, Obj):
                fields = dict(v.fields)
            elif isinstance(v, Tup) and len(v.items) == 2 and isinstance(v.items[1], Ref) and v.items[1].kind == "partial":
                fields = dict(v.items[1].target[2])
            if fields is not None:
                paths.append((st, fields))
        if not paths:
            raise AnalysisError("%s has no successful path" % label)

        def prov(t):
            o = eng.origin.get(t)
            if o is None or o[0] != "int":
                return None
            return h.provenance(eng, o[1])
        # which field does a group feed?
        feeds = {}
        for st, fields in paths:
            for nm, val in fields.items():
                if isinstance(val, Num):
                    for t in val.lin.terms():
                        g = prov(t)
                        if g is not None:
                            feeds.setdefault(g, set()).add(nm)
        bad = None
        n = 0
        for st, fields in paths:
            on_path = set()
            for con in st.lin:
                for t in con[0].terms():
                    if prov(t) is not None:
                        on_path.add(t)
            for val in fields.values():
                if isinstance(val, Num):
                    on_path |= {t for t in val.lin.terms() if prov(t) is not None}
            for t in sorted(on_path, key=str):
                g = prov(t)
                n += 1
                targets = feeds.get(g, set())
                ok = bool(targets)
                for nm in targets:
                    val = fields.get(nm)
                    if not (isinstance(val, Num) and (st.entails(eq(val.lin - Lin.var(t), 0)) or st.entails(eq(val.lin + Lin.var(t), 0)))):
                        ok = False
                        if bad is None:
                            bad = "on a path of the %s the digits of capture group %s are parsed but the field %r they feed is %s, not " \
                                  "the parsed number (a written value, e.g. 0, is replaced by a default)" % (label, g[1], nm, str(val)[:40])
                if not targets and bad is None:
                    bad = "the digits of capture group %s are parsed by the %s but feed no field" % (g[1], label)
        if not feeds:
            raise AnalysisError("%s parses no decimal group" % label)
        rep.ob(RULE, bad is None, f.node, f, construct="%s: %d parsed numerals on %d successful paths, groups %s"
               % (label, n, len(paths), sorted("%s->%s" % (g[1], "/".join(sorted(v))) for g, v in feeds.items())),
               how="field == +/- int(digits) entailed on every path where the digits are parsed", witness=bad, nontrivial=True,
               key="parsed-numeral/" + label.replace(" ", "-"))


def check_printer_keeps_fields(ctx, rep, RULE):
    """A number that is held is the number that is written.  The atom printer is run with one numeric field (isotope, hydrogen
    count, charge) symbolic and the others at their defaults; on every path on which the output contains no text computed from
    the field, the path condition must pin the field to a value the SMILES atom reader assigns when nothing is written for it
    (its default: no isotope -> None, no H -> 0, no charge -> 0).  `if atom.isotope:` in place of `is not None` leaves a path
    "isotope == 0, nothing printed" although the reader's default is None: [0C] is written as [C] and gains hydrogens."""
    from sa.sym import State
    from sa.lin import Lin, ge, eq
    P = ctx.fn(SU + ".atom_to_smiles")
    ra = reader_atoms(ctx)
    defaults = {}
    for st, a in ra["atoms"]:
        for nm, v in a.fields.items():
            if isinstance(v, Con):
                defaults.setdefault(nm, set()).add(v.value)
            elif isinstance(v, Num) and v.lin.is_const():
                defaults.setdefault(nm, set()).add(int(v.lin.k))
    numeric = [nm for nm in ("isotope", "h_count", "charge") if nm in defaults]
    if len(numeric) < 3:
        raise AnalysisError("numeric fields of the atoms the SMILES reader builds not identified (%s)" % sorted(defaults))
    bad = None
    n_paths = 0
    for nm in numeric:
        for br in (True, False):
            h = IntFacts(ctx)
            eng = Engine(ctx, h)
            h.bind(eng)
            x = Lin.var(("field", nm))
            st0 = State()
            if nm != "charge":
                st0.add_lin(ge(x, 0))
            fields = {"element": Con("C"), "is_aromatic": Con(False), "isotope": Con(None), "chirality": Con(None),
                      "h_count": Num(Lin.const(0)), "charge": Num(Lin.const(0)), "index": Con(None)}
            fields[nm] = Num(x)
            a = Obj(("atom", nm), "selfies.mol_graph.Atom", fields)
            fr = eng.run_function(P, {P.posparams[0]: a, "brackets": Con(br)}, state=st0)
            if not fr.returns:
                raise AnalysisError("atom printer has no return path for a symbolic %s" % nm)
            for st, v in fr.returns:
                n_paths += 1
                if repr(("field", nm)) in repr(v):
                    continue
                ds = [d for d in defaults[nm] if isinstance(d, int) and not isinstance(d, bool) and st.entails(eq(x - d, 0))]
                if not ds and bad is None:
                    vals = [d for d in range(0, 4) if st.entails(eq(x - d, 0))]
                    bad = "the atom printer writes nothing for %s on a path where it is %s, but the SMILES atom reader reads a missing %s as %s: " \
                          "the written atom is read back with a different %s" % (nm, vals[0] if vals else "not fixed", nm,
                                                                                  sorted(map(repr, defaults[nm])), nm)
    rep.ob(RULE, bad is None, P.node, P, construct="atom printer, %d paths over symbolic isotope / H count / charge" % n_paths,
           how="a field is omitted only where it equals the reader's default for an unwritten field", witness=bad, nontrivial=True,
           key="printer-keeps-fields")
