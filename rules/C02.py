"""C02 — the decoder implements the published derivation grammar (clause level).

T0     every fragment's derivation starts in the grammar's start state X0 with no previous atom
T1–T4  per-path summaries of one iteration of the derivation loop (symbolic engine) are compared
       with the grammar's transition for atom / branch / ring / [epsilon] symbols
T5     folded branch / ring tables equal the specification tables
T6     ring target and branch budget expressions (max(0, m-(Q+1)), Q+1; L index symbols read)
T8     a rejected symbol (processor returns None) reaches DecoderError before its result is used
T9     the ring queue: one allocation per decoder call, append-only, passed unchanged, consumed by one
       plain iteration in the second pass
T10    index code (see C16)
T11    symbol-budget accounting: the count a derivation returns equals the symbols it consumed (C17 TI1/TI2 shared)
Not decided: symbol-budget accounting of nested branches, ignored tail, written neighbour order.
"""
import ast

from sa import AnalysisError
from sa.db import unparse, own_nodes
from sa.lin import Lin, ge, le, eq
from sa.sym import Num, Con, Tup, Obj, Unk, vkey
from rules import decmodel
from rules.decmodel import num_of
from spec import tables as SPEC

REGISTER = True
META = {
    "explanation": "The derivation loop of the decoder is summarised per path by a path-sensitive abstract "
                   "interpretation with linear facts (symbol processors and the index reader are modelled by their "
                   "checked postconditions). Each path summary (events: atom added, bond order, ring queued, branch "
                   "recursion arguments, index symbols read; grammar state at loop head and back edge) is compared "
                   "with the transition of docs/source/derivation.rst (as amended by CHANGELOG v2.0.0) using "
                   "Fourier-Motzkin entailment. Tables are folded from their closed initialisers and compared with the "
                   "specification tables.",
    "trusted_base": ["spec/tables.py (written from derivation.rst, CHANGELOG v2.0.0, property statement)",
                     "Fourier-Motzkin entailment over the rationals with integer tightening",
                     "postconditions of the symbol processors (checked separately: T5, C01/V7)"],
    "assumptions": ["grammar state is an int >= 0 at loop entry (checked at every call site: V0/V3)"],
    "level_text": "Static comparison of the extracted transition behaviour of every path of the derivation loop with the "
                  "published grammar; tables by constant folding. Decides the rule tables and state transitions for all "
                  "inputs and tables (symbolic in state, capacity, symbol), the start state, the consumed-symbol accounting of "
                  "nested derivations (ghost counter) and the slot bookkeeping of the ring pass; not the full neighbour order.",
    "level_note": "Clause-level: start state, transitions, tables, ring/branch parameters, rejection, ring-queue discipline and slot pairing, symbol-budget accounting. Known finding "
                  "F10 ([eps] accepted as [epsilon]). Trusted: spec tables, FM entailment, builtin effect table.",
    "technique": "path-sensitive abstract interpretation with linear facts (Fourier-Motzkin) + constant folding of tables vs spec",
}


def equals_one_of(it, lin, cands):
    return any(it.ent(eq(lin, c)) for c in cands)


def is_min(it, lin, cands):
    """lin == min(cands) entailed in this path state"""
    return all(it.ent(le(lin, c)) for c in cands) and equals_one_of(it, lin, cands)


def reads_L(it, ev, L):
    """the index reader is asked for exactly L symbols (some numeric argument is entailed equal to L)"""
    for k, v in ev.data["args"].items():
        if isinstance(v, Num) and it.ent(eq(v.lin, L)):
            return True
    return False


def check_atom(rep, m, it, rule="T1"):
    D = m["roles"]["D"]
    d = it.proc.data
    beta, cap = Lin.var(d["beta"]), Lin.var(d["cap"])
    A = d["atom"]
    i = it.i
    adds = it.events("add_atom")
    bonds = it.events("add_bond")
    problems = []
    zero = it.ent(eq(i, 0))
    pos = it.ent(ge(i, 1))
    if not zero and not pos:
        problems.append("transition not determined by the case distinction state = 0 / state > 0")
    elif zero:
        if bonds:
            problems.append("a bond is added although the derivation state is 0 (new fragment root expected)")
        if len(adds) != 1 or vkey(adds[0].data["args"].get("atom")) != vkey(A):
            problems.append("state 0: exactly the new atom must be added")
        else:
            mr = adds[0].data["args"].get("mark_root")
            if not (isinstance(mr, Con) and mr.value is True):
                problems.append("state 0: the new atom must be marked as fragment root")
        if it.is_back:
            nl = num_of(it.new)
            if nl is None or not it.ent(eq(nl, cap)):
                problems.append("state 0: next state must be the capacity of the new atom (got %r)" % (it.new,))
        elif not it.ent(eq(cap, 0)):
            problems.append("state 0: derivation stops although the new atom has capacity left")
    else:
        if bonds:
            b = bonds[0].data["args"]
            mu = num_of(b.get("order"))
            if len(bonds) != 1 or mu is None:
                problems.append("more than one bond / non-numeric order")
            else:
                if not is_min(it, mu, [beta, i, cap]):
                    problems.append("bond order is not min(requested, state, capacity)")
                if len(adds) != 1 or vkey(adds[0].data["args"].get("atom")) != vkey(A):
                    problems.append("the new atom must be added exactly once before its bond")
                else:
                    mr = adds[0].data["args"].get("mark_root")
                    if isinstance(mr, Con) and mr.value is True:
                        problems.append("bonded atom marked as a fragment root")
                src, dst = b.get("src"), b.get("dst")
                if not (isinstance(dst, Unk) and dst.term[:3] == ("attr", vkey(A), "index")):
                    problems.append("bond destination is not the new atom")
                if not (isinstance(src, Unk) and src.term[:3] == ("attr", it.prev_head_key, "index")):
                    problems.append("bond source is not the previous atom")
                if it.is_back:
                    nl = num_of(it.new)
                    if nl is None or not it.ent(eq(nl, cap - mu)):
                        problems.append("next state must be capacity - bond order (got %r)" % (it.new,))
                elif not it.ent(eq(cap - mu, 0)):
                    problems.append("derivation stops although capacity - bond order > 0")
        else:
            if adds:
                problems.append("state > 0: atom added without a bond to the previous atom")
            if it.is_back:
                problems.append("state > 0 and no bond possible: derivation must stop")
            elif not it.ent(eq(cap, 0)):
                problems.append("state > 0: symbol skipped although min(requested, state, capacity) > 0")
    if it.is_back:
        if vkey(it.prev_new) != vkey(A):
            problems.append("previous-atom variable is not re-bound to the new atom")
    rep.ob(rule, not problems, it.where(), D, construct=it.describe(),
           how="atom transition equals (mu, next) = (min(beta, i, alpha) if i>0 else 0, alpha - mu or stop)",
           witness="; ".join(problems) or None, nontrivial=True,
           key="atom/" + ("ok" if not problems else "+".join(sorted(set(p[:40] for p in problems)))))


def check_branch(rep, m, it, rule="T2"):
    R = m["roles"]
    D = R["D"]
    d = it.proc.data
    bt, L = Lin.var(d["type"]), Lin.var(d["L"])
    i = it.i
    reads = it.events("read-index")
    recs = it.events("recurse")
    problems = []
    low = it.ent(le(i, 1))
    high = it.ent(ge(i, 2))
    if not low and not high:
        problems.append("transition not determined by the case distinction state <= 1 / state >= 2")
    elif low:
        if reads or recs:
            problems.append("branch symbol in state <= 1 must be skipped without reading index symbols")
        if not it.is_back:
            problems.append("branch symbol in state <= 1 must not stop the derivation")
        else:
            nl = num_of(it.new)
            if nl is None or not it.ent(eq(nl, i)):
                problems.append("state must be unchanged (got %r)" % (it.new,))
    else:
        if len(reads) != 1 or len(recs) != 1:
            problems.append("expected exactly one index read and one recursive derivation (got %d, %d)" % (len(reads), len(recs)))
        else:
            if it.tags.index(reads[0]) > it.tags.index(recs[0]):
                problems.append("index symbols must be read before the branch is derived")
            if not reads_L(it, reads[0], L):
                problems.append("number of index symbols read is not the symbol's L")
            Q = Lin.var(reads[0].data["Q"])
            a = recs[0].data["args"]
            binit = num_of(a.get(R["budget"]))
            if binit is None or not is_min(it, binit, [i - Lin.const(1), bt]):
                problems.append("branch initial state is not min(state - 1, type)")
            root = a.get(R["root"])
            if root is None or vkey(root) != it.prev_head_key:
                problems.append("branch is not rooted at the previous atom")
            md = [num_of(v) for k, v in a.items() if k not in (R["budget"],) and num_of(v) is not None
                  and isinstance(v, Num) and (Q.terms() & v.lin.terms())]
            if len(md) != 1 or not it.ent(eq(md[0], Q + Lin.const(1))):
                problems.append("branch symbol budget is not Q + 1")
            for role in ("queue", "graph"):
                v = a.get(R[role])
                if not (isinstance(v, Unk) and v.term == ("param", D.qual, R[role])):
                    problems.append("%s is not passed unchanged to the branch derivation" % role)
            if not it.is_back:
                problems.append("branch symbol must not stop the derivation")
            elif binit is not None:
                nl = num_of(it.new)
                if nl is None or not it.ent(eq(nl, i - binit)):
                    problems.append("next state must be state - branch initial state (got %r)" % (it.new,))
    if it.is_back and vkey(it.prev_new) != it.prev_head_key:
        problems.append("previous atom changed by a branch symbol")
    rep.ob(rule, not problems, it.where(), D, construct=it.describe(),
           how="branch transition: i<=1 skip; else n=min(i-1,M), read L index symbols, derive Q+1 symbols in state n, continue in i-n",
           witness="; ".join(problems) or None, nontrivial=True,
           key="branch/" + ("ok" if not problems else "+".join(sorted(set(p[:40] for p in problems)))))


def check_ring(rep, m, it, rule="T3"):
    R = m["roles"]
    D = R["D"]
    d = it.proc.data
    rt, L = Lin.var(d["type"]), Lin.var(d["L"])
    i = it.i
    reads = it.events("read-index")
    qs = it.events("queue")
    problems = []
    zero = it.ent(eq(i, 0))
    pos = it.ent(ge(i, 1))
    if not zero and not pos:
        problems.append("transition not determined by the case distinction state = 0 / state > 0")
    elif zero:
        if reads or qs:
            problems.append("ring symbol in state 0 must be skipped without reading index symbols")
        if not it.is_back:
            problems.append("ring symbol in state 0 must not stop the derivation")
        else:
            nl = num_of(it.new)
            if nl is None or not it.ent(eq(nl, i)):
                problems.append("state must be unchanged")
    else:
        if len(reads) != 1 or len(qs) != 1:
            problems.append("expected exactly one index read and one queued ring (got %d, %d)" % (len(reads), len(qs)))
        else:
            if not reads_L(it, reads[0], L):
                problems.append("number of index symbols read is not the symbol's L")
            Q = Lin.var(reads[0].data["Q"])
            val = qs[0].data["value"]
            if qs[0].data["op"] != "append":
                problems.append("ring is not appended at the end of the queue")
            order = None
            if not (isinstance(val, Tup) and len(val.items) == 3 and isinstance(val.items[2], Tup) and len(val.items[2].items) == 2):
                problems.append("queued ring is not (left atom, right atom, (order, stereo))")
            else:
                latom, ratom, info = val.items
                order = num_of(info.items[0])
                if order is None or not is_min(it, order, [rt, i]):
                    problems.append("ring order is not min(type, state)")
                if vkey(info.items[1]) != vkey(Unk(d["stereo"])):
                    problems.append("queued stereo marks are not those of the ring symbol")
                if vkey(ratom) != it.prev_head_key:
                    problems.append("right end of the ring is not the previous atom")
                ok_target = False
                gets = [e for e in it.events("get_atom") if isinstance(latom, Unk) and latom.term == e.data["ret"]]
                if gets:
                    lidx = num_of(gets[0].data["idx"])
                    if lidx is not None:
                        for it_idx in decmodel.idx_terms(it.st, lidx, it.prev_head_key):
                            e = Lin.var(it_idx) - Q - Lin.const(1)
                            if (it.ent(eq(lidx, 0)) and it.ent(le(e, 0))) or (it.ent(eq(lidx, e)) and it.ent(ge(e, 0))):
                                ok_target = True
                if not ok_target:
                    problems.append("ring target is not atom max(0, index(previous) - (Q + 1))")
            if order is not None:
                if it.is_back:
                    nl = num_of(it.new)
                    if nl is None or not it.ent(eq(nl, i - order)):
                        problems.append("next state must be state - ring order")
                elif not it.ent(eq(i - order, 0)):
                    problems.append("derivation stops although state - ring order > 0")
    if it.is_back and vkey(it.prev_new) != it.prev_head_key:
        problems.append("previous atom changed by a ring symbol")
    rep.ob(rule, not problems, it.where(), D, construct=it.describe(),
           how="ring transition: i=0 skip; else order=min(type,i), read L, target max(0,m-(Q+1)), next=i-order or stop",
           witness="; ".join(problems) or None, nontrivial=True,
           key="ring/" + ("ok" if not problems else "+".join(sorted(set(p[:40] for p in problems)))))


def check_other(rep, m, it, rule="T4"):
    D = m["roles"]["D"]
    i = it.i
    problems = []
    extra = [e for e in it.tags if e.kind not in ("next", "get_atom")]
    if extra:
        problems.append("unexpected effects (%s) for a symbol that is neither atom, branch nor ring" % ", ".join(e.kind for e in extra))
    zero = it.ent(eq(i, 0))
    pos = it.ent(ge(i, 1))
    if zero:
        if not it.is_back:
            problems.append("[epsilon] in state 0 must not stop the derivation")
        else:
            nl = num_of(it.new)
            if nl is None or not it.ent(eq(nl, 0)):
                problems.append("[epsilon] in state 0 must leave state 0")
    elif pos:
        if it.is_back:
            problems.append("[epsilon] in a state > 0 must stop the derivation")
    else:
        problems.append("[epsilon] transition not determined by state = 0 / state > 0")
    if it.is_back and vkey(it.prev_new) != it.prev_head_key:
        problems.append("previous atom changed by [epsilon]")
    rep.ob(rule, not problems, it.where(), D, construct=it.describe(),
           how="[epsilon]: 0 -> 0, i>0 -> stop", witness="; ".join(problems) or None, nontrivial=True,
           key="eps/" + ("ok" if not problems else "+".join(sorted(set(p[:40] for p in problems)))))


def check_validated_dispatch(rep, m, its, RULE="T8"):
    """every symbol of ring / branch shape is validated on every path: a path that consumes a symbol without calling a
    symbol processor must carry the negation of the dispatch tests under which the ring and branch processors are called
    (otherwise a malformed or legacy symbol of that shape is silently accepted in some grammar state)"""
    D = m["roles"]["D"]

    def guards(kind):
        common = None
        for it in its:
            if it.kind != kind or it.proc is None:
                continue
            mine = {k for k, v in it.st.atoms.items() if v is True and "next" in repr(k) and k[0] in ("eq", "in")}
            common = mine if common is None else (common & mine)
        return common or set()
    g_ring, g_branch = guards("ring"), guards("branch")
    if not g_ring or not g_branch:
        raise AnalysisError("dispatch tests of the ring / branch cases not identified in the derivation loop")
    bad = []
    n = 0
    for it in its:
        if it.kind != "other":
            continue
        n += 1
        for what, gs in (("ring", g_ring), ("branch", g_branch)):
            if not any(it.st.atoms.get(g) is False for g in gs):
                bad.append((it, what))
    w = None
    if bad:
        it, what = bad[0]
        w = "a symbol that passes the %s dispatch test is consumed without being validated by its processor on the path [%s]: " \
            "malformed / legacy symbols of that shape are accepted in that grammar state" % (what, ", ".join(e.kind for e in it.tags))
    rep.ob(RULE, not bad, bad[0][0].where() if bad else D.node, D, construct="%d path(s) that consume a symbol without a processor call" % n,
           how="each excludes the ring and branch dispatch tests", witness=w, nontrivial=True, key="validated-dispatch")


def run(ctx, rep):
    m = decmodel.extract(ctx)
    R = m["roles"]
    D = R["D"]
    its = decmodel.iterations(m)
    check_validated_dispatch(rep, m, its, "T8")
    ts = R.get("top_state", 0)
    rep.ob("T0", ts == 0, R["top_call"], ctx.api("decoder"), construct="top-level derivation call",
           how="every fragment's derivation starts in state X0 (constant 0) with no previous atom",
           witness=None if ts == 0 else "the derivation starts in state %r, not in the grammar's start state X0" % (ts,),
           key="start-state", nontrivial=True)
    kinds = {}
    for it in its:
        kinds[it.kind] = kinds.get(it.kind, 0) + 1
        if it.proc is not None and it.proc.data.get("result") is None:
            rep.ob("T8", False, it.where(), D, construct=it.describe(),
                   witness="a symbol rejected by its processor (None) does not lead to DecoderError on this path",
                   nontrivial=True)
            continue
        if it.kind == "atom":
            check_atom(rep, m, it)
        elif it.kind == "branch":
            check_branch(rep, m, it)
        elif it.kind == "ring":
            check_ring(rep, m, it)
        elif it.kind == "other":
            check_other(rep, m, it)
        else:  # end of input
            ok = not it.is_back and not it.tags
            rep.ob("T4", ok, it.where(), D, construct="end of symbols: " + it.describe(),
                   how="derivation stops when the symbols are exhausted",
                   witness=None if ok else "unexpected path without a symbol read", key="end-of-input")
    for k in ("atom", "branch", "ring", "other"):
        if not kinds.get(k):
            raise AnalysisError("no %s-symbol path found in the derivation loop (anchor lost)" % k)
    rep.floor("T1", 6)
    rep.floor("T2", 2)
    rep.floor("T3", 3)
    rep.floor("T4", 2)
    # T8: each processor's None result reaches DecoderError
    fr = m["frame"]
    for kind in ("P-atom", "P-branch", "P-ring"):
        hits = [(st, n, exc) for st, n, exc in fr.raises
                if any(e.kind == kind and e.data.get("result") is None for e in st.tags)]
        excs = {exc for _, _, exc in hits}
        ok = bool(hits) and excs == {"DecoderError"}
        rep.ob("T8", ok, hits[0][1] if hits else D.node, D, construct="%s returns None" % kind,
               how="rejected symbol reaches DecoderError before its result is used",
               witness=None if ok else "rejected symbol leads to %s" % (sorted(excs) or "no exception"),
               key="reject/" + kind, nontrivial=True)
    # totality of the transition: no other exception on any path of the derivation function
    seen = set()
    for st, node, exc in fr.raises:
        if exc in ("DecoderError",):
            continue
        k = (exc, getattr(node, "lineno", 0))
        if k in seen:
            continue
        seen.add(k)
        rep.ob("T4", False, node, D, construct="%s: %s" % (exc, unparse(node)[:80]),
               witness="the derivation can raise %s in a reachable grammar state (transition undefined there); path: [%s]"
               % (exc, ", ".join(e.kind for e in st.tags)), nontrivial=True)
    # what the decoder accepts for a symbol is a function of the symbol and the table in force, not of earlier tables
    from rules.shared import check_history_independence
    check_history_independence(ctx, rep, "T8")
    # T9b: where the second pass puts a ring bond among an atom's bonds ("written neighbour order")
    from rules.shared import check_ring_slot_pairing
    check_ring_slot_pairing(ctx, rep, "T9")
    # T11: "a branch derives Q + 1 symbols": the count a (nested) derivation returns to its caller is the number of symbols it
    # took from the shared iterator -- index symbols and inner branches included -- so the enclosing branch's budget is
    # charged exactly (the ghost-counter rules TI1 / TI2 of C17, shared)
    from sa.core import Report
    from rules import attrib
    from rules.shared import import_obligations
    sub = Report("C02")
    roles17 = attrib.attrib_roles(ctx, dict(decmodel.find_roles(ctx)))
    summ17 = attrib.reader_summary(ctx, sub, roles17["index_reader"], "TI1")
    attrib.check_derivation(ctx, sub, roles17, summ17, "TI2", "_", "_")
    import_obligations(rep, sub, {"TI1": "T11", "TI2": "T11"})
    rep.floor("T11", 2)
    # T5 tables
    spec_b, spec_r = SPEC.branch_table(), SPEC.ring_table()
    fb, frg = m["tables"]["branch"], m["tables"]["ring"]
    for name, got, want in (("branch", fb, spec_b), ("ring", frg, spec_r)):
        for k in sorted(set(got) | set(want)):
            ok = got.get(k) == want.get(k)
            rep.ob("T5", ok, None, None, loc="selfies/grammar_rules.py", construct="%s table entry %s" % (name, k),
                   how="folded entry equals the specification", key="%s/%s" % (name, k),
                   witness=None if ok else "folded %r, specification %r" % (got.get(k), want.get(k)), nontrivial=not ok)
    rep.floor("T5", 42)
    # T7 dispatch partition / T7b no over-acceptance
    check_dispatch(ctx, rep, m)
    # T9 ring queue discipline
    check_queue(ctx, rep, m)
    # T10 index code on the decoder side (shared with C16)
    from rules.C16 import check_decoder_side, check_tables
    check_tables(ctx, rep, "T10", "T10")
    check_decoder_side(ctx, rep, "T10", "T10")
    rep.floor("T10", 6)
    rep.analysed.update({"iteration_paths": len(its), "kinds": kinds, "derivation_function": D.qual,
                         "raise_paths": len(fr.raises)})


def check_dispatch(ctx, rep, m):
    from rules.C18 import dispatch_predicates, pred_automaton, fold_pred
    from rules import symlang
    from sa import reglang as RL
    D = m["roles"]["D"]
    tests = dispatch_predicates(ctx, D)
    names = [n.id for t in tests for n in ast.walk(t) if isinstance(n, ast.Name)]
    symvar = max(set(names), key=names.count)
    loops = [n for n in D.node.body if isinstance(n, ast.While)]
    cur = [n for n in loops[0].body if isinstance(n, ast.If) and n.orelse][0]
    bodies = []
    while True:
        bodies.append(cur.body)
        if len(cur.orelse) == 1 and isinstance(cur.orelse[0], ast.If):
            cur = cur.orelse[0]
        else:
            bodies.append(cur.orelse)
            break

    def kind(body):
        src = " ".join(unparse(x) for x in body)
        for nm, k in (("process_branch_symbol", "branch"), ("process_ring_symbol", "ring"), ("process_atom_symbol", "atom")):
            if nm in src:
                return k
        return "other"
    kinds = [kind(b) for b in bodies]
    autos = [pred_automaton(t, symvar) for t in tests]
    tables = {"branch": m["tables"]["branch"], "ring": m["tables"]["ring"]}
    # every table key reaches its own case
    for tk, tab in tables.items():
        bad = []
        for key in sorted(tab):
            taken = None
            for i, t in enumerate(tests):
                if fold_pred(ctx, D, t, symvar, key):
                    taken = i
                    break
            if taken is None or kinds[taken] != tk:
                bad.append((key, kinds[taken] if taken is not None else kinds[-1]))
        rep.ob("T7", not bad, D.node, D, construct="%d %s-table keys reach the %s case" % (len(tab), tk, tk),
               how="dispatch predicates folded on every key", nontrivial=True, key="dispatch/%s-keys" % tk,
               witness=None if not bad else "%s symbol %s is dispatched to the %s case" % (tk, bad[0][0], bad[0][1]))
    # atom symbols are not captured by an earlier case
    dec = symlang.dec_atom(ctx)
    for t, a, k in zip(tests, autos, kinds):
        w = dec["dfa"].intersect(a).witness()
        rep.ob("T7", w is None, t, D, construct="atom language vs dispatch test %s" % unparse(t), how="disjoint (language intersection empty)",
               witness=None if w is None else "atom symbol %r is captured by the %s case" % (w, k), nontrivial=True,
               key="dispatch/atom-disjoint/" + k)
    # T7b: symbols accepted without any table / pattern look-up
    spec_lit = RL.lit(SPEC.EPSILON)
    for i, (t, a, k) in enumerate(zip(tests, autos, kinds)):
        if k != "other":
            continue
        lang = a
        for j in range(i):
            lang = lang.minus(autos[j])
        ok, w = lang.equals(spec_lit)
        rep.ob("T7b", ok, t, D, construct="symbols accepted by the test %s alone" % unparse(t),
               how="exactly the grammar's literal %s" % SPEC.EPSILON, nontrivial=True, key="eps-over-acceptance",
               witness=None if ok else "symbols other than %s are accepted as [epsilon] without being in the grammar, e.g. %r "
               "(decoder('[C]%s[C]') returns a molecule instead of raising DecoderError)" % (SPEC.EPSILON, w, w))


def check_queue(ctx, rep, m):
    pt = ctx.pt
    R = m["roles"]
    dec = ctx.api("decoder")
    qobjs = [i for i in pt.v(dec.qual, R["queue_local"]) if isinstance(i, tuple) and i[0] == "alloc"]
    ok = len(qobjs) == 1 and qobjs[0][1] == dec.qual
    rep.ob("T9", ok, R["top_call"], dec, construct="ring queue %s" % R["queue_local"],
           how="one list allocated per decoder call", witness=None if ok else "queue objects: %s" % [pt.describe(q) for q in qobjs],
           key="queue/alloc", nontrivial=True)
    # the allocation must be outside any loop of decoder (shared across fragments)
    if qobjs:
        site = pt.objs[qobjs[0]].site[1]
        in_loop = False
        for n in own_nodes(dec.node):
            if isinstance(n, (ast.For, ast.While)):
                for c in ast.walk(n):
                    if c is site:
                        in_loop = True
        rep.ob("T9", not in_loop, site, dec, construct="queue allocation",
               how="allocated once, before the fragment loop (shared across fragments)",
               witness=None if not in_loop else "ring queue is re-created per fragment: rings cannot span / order across fragments is lost",
               key="queue/shared", nontrivial=True)
        # second pass must run after the fragment loop, once
        sec_calls = [s.node for s in ctx.cg.sites(dec) if R["second"] in s.callees]
        for c in sec_calls:
            inl = any(c in list(ast.walk(n)) for n in own_nodes(dec.node) if isinstance(n, (ast.For, ast.While)))
            rep.ob("T9", not inl, c, dec, construct="second pass call", how="ring formation runs once after all fragments",
                   witness=None if not inl else "ring formation runs inside the fragment loop", key="queue/second-pass-once",
                   nontrivial=True)
    mut_ok = True
    for r in pt.recs.values():
        if r.op in ("mutcall", "store-sub", "del", "aug") and any(q in r.targets for q in qobjs):
            good = r.op == "mutcall" and r.detail.startswith("append on") and r.scope == R["D"].qual
            f = ctx.db.funcs.get(r.scope)
            rep.ob("T9", good, r.node, f, construct=r.detail, how="append in order of appearance",
                   witness=None if good else "ring queue is modified other than by append in the derivation function",
                   nontrivial=True)
    # consumer: the second pass uses its queue parameter only as the iterable of one plain for loop
    S = R["second"]
    qp = R.get("second_queue")
    uses = [n for n in own_nodes(S.node) if isinstance(n, ast.Name) and n.id == qp and isinstance(n.ctx, ast.Load)]
    fors = [n for n in own_nodes(S.node) if isinstance(n, ast.For) and isinstance(n.iter, ast.Name) and n.iter.id == qp]
    ok = len(uses) == 1 and len(fors) == 1
    rep.ob("T9", ok, fors[0] if fors else S.node, S, construct="consumption of the ring queue",
           how="one plain iteration in queue order (no sort / reverse / dedupe / slicing)",
           witness=None if ok else "queue parameter used %d time(s), %d plain for-loop(s)" % (len(uses), len(fors)),
           key="queue/consume", nontrivial=True)
