"""C06 — strict encoding rejects exactly the constraint-violating molecules (clause level).

Q1 comparator: for every atom of the parsed graph the strict check records an error iff
   bond_count(atom) > bonding_capacity(atom) (strict >, the atom's own count and capacity, no atom skipped),
   and raises iff at least one error was recorded
Q2 capacity look-up: key = element (charge 0) or element + "{:+}".format(charge); the table value of the
   key is returned iff the key is listed, otherwise the value of "?"
Q3 who-may-read: with strict=False nothing reachable from encoder() reads the constraint table or a memo
   of it; the strict check has no effect other than raising
Q4 every memo that reads the table (incl. any memoised translator) is cleared on every table change
Not decided: that bond_count equals the true bond-order sum of the parsed molecule for every SMILES.
"""
import ast

from sa import AnalysisError
from sa.db import unparse, own_nodes
from sa.effects import Effects
from sa.lin import Lin, ge, le, gt, eq
from sa.sym import Engine, Hooks, Num, Con, Tup, Obj, Unk, Str, vkey, assume
from rules.decmodel import num_of
from rules.shared import memo_readers, MemoFlow

REGISTER = True
META = {
    "explanation": "The strict check is located by role (called from encoder only under the strict flag). Its loop body is "
                   "summarised per path with the symbolic engine and the recorded-error condition is compared with "
                   "count > capacity for the same atom (Q1). get_bonding_capacity is summarised per path and compared "
                   "with the documented key construction and '?' fallback (Q2). Effect analysis shows the strict=False "
                   "region never reads the table (Q3) and a must-clear dataflow covers memo invalidation (Q4).",
    "trusted_base": ["Fourier-Motzkin entailment", "builtin effect table", "lru_cache semantics"],
    "assumptions": ["MolecularGraph.get_bond_count returns the running bond-order sum (bookkeeping: C01/V6)"],
    "level_text": "Static comparison of the strict-check comparator and the capacity look-up with their specification on "
                  "all paths; who-may-read rule for the constraint table; memo invalidation on all paths.",
    "level_note": "Clause-level: comparator, key construction/fallback, table independence of strict=False, memo "
                  "invalidation. Parser correctness (the bond counts themselves) is not decided.",
    "technique": "symbolic path summaries (abstract interpretation with linear facts) + effect/who-may-read analysis + must-clear dataflow",
}


def find_strict_check(ctx, eff):
    from rules.shared import core_of
    enc = core_of(ctx, "encoder", "smiles_to_mol")
    if "strict" not in enc.params:
        raise AnalysisError("encoder has no 'strict' parameter")
    on = set(eff.region(enc, {"strict": True}))
    off = set(eff.region(enc, {"strict": False}))
    direct = []
    for s in ctx.cg.sites(enc, {"strict": True}):
        for g in s.callees:
            if g.qual in on - off and g not in direct:
                direct.append((g, s))
    direct = [(g, s) for g, s in direct]
    if not direct:
        raise AnalysisError("no function is called from encoder() only under the strict flag")
    return enc, direct, on, off


class CheckHooks(Hooks):
    def __init__(self, loop_func):
        self.loop = None
        self.appends = {}
        self.loop_func = loop_func

    def tag(self, st, t):
        s2 = st.copy()
        s2.tags = st.tags + (t,)
        return s2

    def _mine(self, fr, node):
        """the atom loop: a loop of the collector, or the loop synthesised in its caller when the collector is a generator
        function that the engine inlined into the consuming loop / comprehension"""
        if fr.func is self.loop_func:
            return any(node is n for n in _atom_loops(self.loop_func))
        org = getattr(node, "_sa_inlined_from", None)
        return org is not None and any(org is n for n in _all_for_loops(self.loop_func))

    def on_loop_head(self, eng, fr, node, head):
        if self._mine(fr, node):
            head.tags = ()
        return head

    def on_loop(self, eng, fr, node, syms, entered, back, exits, breaks):
        if self.loop is None and self._mine(fr, node):
            self.loop = dict(node=node, syms=syms, entered=entered, back=back, exits=exits, breaks=breaks, func=fr.func)

    def on_call(self, eng, fr, node, callee, args, kwargs, st):
        if isinstance(callee, tuple) and callee[0] == "method" and callee[1] in ("append", "add") \
                and (fr.func is self.loop_func or self.loop_func.is_generator):
            s2 = self.tag(st, ("record", vkey(callee[2]), node))
            s2.epoch += 1
            return [(s2, Con(None))]
        return None


def _atom_loops(f):
    """for-loops of f whose body compares a bond count with a capacity (the comparator's ingredients)"""
    out = []
    for n in own_nodes(f.node):
        if isinstance(n, ast.For):
            src = " ".join(unparse(x) for x in n.body)
            if "bonding_capacity" in src or "get_bond_count" in src or "get_bonding_capacity" in src:
                out.append(n)
    return out


def _all_for_loops(f):
    return [n for n in own_nodes(f.node) if isinstance(n, ast.For)]


def find_loop_func(ctx, chk):
    """The function holding the atom loop: the strict check itself, or a collector it calls directly
    (``violations = _collect(mol)``) whose returned container decides the raise."""
    if _atom_loops(chk):
        return chk
    cands = []
    for s in ctx.cg.sites(chk):
        for g in s.callees:
            if g.cls is None and _atom_loops(g) and g not in cands and g.module is chk.module:
                cands.append(g)
    if len(cands) == 1:
        return cands[0]
    return chk


def check_comparator(ctx, rep, chk, site, RULE="Q1"):
    loop_func = find_loop_func(ctx, chk)
    h = CheckHooks(loop_func)
    eng = Engine(ctx, h)
    fr = eng.run_function(chk)
    lp = h.loop
    chk_outer, chk = chk, loop_func
    if lp is None:
        rep.ob(RULE, False, chk.node, chk, witness="strict check does not iterate over the atoms")
        return
    node = lp["node"]
    # the loop iterates the graph's full atom list
    it = node.iter if isinstance(node, ast.For) else None
    ok_iter = False
    if it is not None and isinstance(it, ast.Call) and isinstance(it.func, ast.Attribute):
        g = ctx.db.method_index.get(it.func.attr, [])
        if g and g[0].cls.name == "MolecularGraph":
            # getter returning the atom list field
            rets = [r for r in own_nodes(g[0].node) if isinstance(r, ast.Return)]
            add_atom = ctx.fn("selfies.mol_graph.MolecularGraph.add_atom")
            fields = {unparse(r.value) for r in rets}
            appended = {unparse(c.func.value) for c in ast.walk(add_atom.node) if isinstance(c, ast.Call)
                        and isinstance(c.func, ast.Attribute) and c.func.attr == "append" and c.args
                        and isinstance(c.args[0], ast.Name) and c.args[0].id == add_atom.posparams[1]}
            ok_iter = bool(fields) and fields <= appended
    rep.ob(RULE, ok_iter, node, chk, construct="atoms iterated by the strict check",
           how="the full atom list of the graph (the list every added atom is appended to)",
           witness=None if ok_iter else "strict check does not iterate over the graph's complete atom list", key="all-atoms", nontrivial=True)
    tgt = node.target
    if not isinstance(tgt, ast.Name):
        rep.ob(RULE, False, node, chk, witness="loop target is not a single atom variable")
        return
    atomv = lp["entered"][0].env.get(tgt.id) if lp["entered"] else None
    if atomv is None:
        raise AnalysisError("strict check loop has no entered state")
    akey = vkey(atomv)
    cap = ("prop", "bonding_capacity", akey)
    n_rec = n_skip = 0
    paths = lp["back"] + lp["breaks"]
    agg = {}
    for st in paths:
        recs = [t for t in st.tags if t[0] == "record"]
        cnts = [t for t in _terms(st) if isinstance(t, tuple) and t and t[0] == "mcall" and t[1] == "get_bond_count"
                and any(_is_index_of(a, akey) for a in list(t[3]) + [kv[1] for kv in t[4]])]
        is_break = st in lp["breaks"]
        probs = []
        if is_break and not recs:
            probs.append("the atom loop can stop early without a recorded violation: later atoms are not checked")
        if recs:
            n_rec += 1
            if not cnts or cap not in _terms(st):
                probs.append("error recorded without comparing this atom's bond count with its capacity")
            elif not any(st.entails(gt(Lin.var(c), Lin.var(cap))) for c in cnts):
                probs.append("an error is recorded although count > capacity is not entailed (comparator is not strict '>' on this atom)")
            agg.setdefault(("record", tuple(probs)), recs[0][2])
        else:
            n_skip += 1
            if not cnts or cap not in _terms(st):
                probs.append("an atom can pass without its bond count being compared with its capacity (atom skipped)")
            elif not any(st.entails(le(Lin.var(c), Lin.var(cap))) for c in cnts):
                probs.append("an atom passes although count <= capacity is not entailed")
            agg.setdefault(("accept", tuple(probs)), node)
    for (kind, probs), where in agg.items():
        rep.ob(RULE, not probs, where, chk, construct="path %sing an atom" % ("record" if kind == "record" else "accept"),
               how="count(atom) > capacity(atom) entailed" if kind == "record" else "count(atom) <= capacity(atom) entailed",
               witness="; ".join(probs) or None, nontrivial=True, key="%s/%s" % (kind, "ok" if not probs else probs[0][:40]))
    if not n_rec or not n_skip:
        rep.ob(RULE, False, node, chk, construct="comparator paths", witness="expected both a recording and an accepting path (found %d / %d)" % (n_rec, n_skip))
    # raise iff something was recorded
    rec_keys = {t[1] for st in paths for t in st.tags if t[0] == "record"}
    # after the loop the recorded container is the loop-mutated variable
    probs = []
    raises = [(st, n, exc) for st, n, exc in fr.raises if getattr(n, "_sa_func", chk_outer) is chk_outer]
    if not raises:
        probs.append("strict check never raises")
    for st, n, exc in raises:
        if not _truthy_container(st, True):
            probs.append("raise is not guarded by 'some violation was recorded'")
    for st, v in fr.returns:
        if not _truthy_container(st, False):
            probs.append("normal return is possible although a violation was recorded")
    # the container starts empty and is only appended to
    rep.ob(RULE, not probs, raises[0][1] if raises else chk_outer.node, chk_outer, construct="raise decision",
           how="raises iff the list of recorded violations is non-empty", witness="; ".join(sorted(set(probs))) or None,
           nontrivial=True, key="raise-iff/" + ("ok" if not probs else sorted(set(probs))[0][:40]))
    inits = [n for n in own_nodes(chk.node) if isinstance(n, ast.Assign) and isinstance(n.value, (ast.List, ast.Call))]
    cont_names = {c.func.value.id for c in ast.walk(node) if isinstance(c, ast.Call) and isinstance(c.func, ast.Attribute)
                  and c.func.attr in ("append", "add") and isinstance(c.func.value, ast.Name)}
    for nm in sorted(cont_names):
        if nm.startswith("__comp"):
            continue            # the result list of a comprehension: fresh and grow-only by construction
        ini = [n for n in inits if isinstance(n.targets[0], ast.Name) and n.targets[0].id == nm]
        empty = len(ini) == 1 and ((isinstance(ini[0].value, ast.List) and not ini[0].value.elts) or
                                   (isinstance(ini[0].value, ast.Call) and not ini[0].value.args and unparse(ini[0].value.func) in ("list", "set")))
        other = [c for c in own_nodes(chk.node) if isinstance(c, ast.Call) and isinstance(c.func, ast.Attribute)
                 and isinstance(c.func.value, ast.Name) and c.func.value.id == nm
                 and c.func.attr in ("clear", "pop", "remove", "discard", "popleft")]
        ok = empty and not other
        rep.ob(RULE, ok, ini[0] if ini else chk.node, chk, construct="violation list %s" % nm, how="starts empty, only grows",
               witness=None if ok else "the list of recorded violations is not a fresh, grow-only list", key="list/" + nm)


def _truthy_container(st, want):
    for k, v in st.atoms.items():
        if k[0] == "truthy" and isinstance(k[1], tuple) and k[1][0] == "unk" and str(k[1][1]).startswith("loopmut:"):
            return v is want
    return False


def _terms(st):
    out = set()
    for l, _ in st.lin:
        out |= l.terms()
    for e in st.neq:
        out |= e.terms()
    return out


def _is_index_of(argkey, akey):
    return argkey[0] == "unk" and isinstance(argkey[1], tuple) and len(argkey[1]) == 4 and argkey[1][0] == "attr" \
        and argkey[1][1] == akey and argkey[1][2] == "index"


def check_capacity_lookup(ctx, rep, eff, table_vars, RULE="Q2"):
    f = ctx.fn("selfies.bond_constraints.get_bonding_capacity")
    if len(f.posparams) != 2:
        raise AnalysisError("get_bonding_capacity does not take (element, charge)")
    pe, pc = f.posparams
    eng = Engine(ctx, Hooks())
    fr = eng.run_function(f, {pe: Unk(("element",)), pc: Num(Lin.var("charge"))})
    ch = Lin.var("charge")
    n = 0
    for st, n_, exc in fr.raises:
        rep.ob(RULE, False, n_, f, construct="%s in capacity look-up" % exc, witness="capacity look-up can raise %s" % exc)
    for st, v in fr.returns:
        n += 1
        probs = []
        zero = st.entails(eq(ch, 0))
        nonzero = not assume(("lin",) + eq(ch, 0), st)
        want_key = None
        if zero:
            want_key = ("unk", ("element",))
        elif nonzero:
            want_key = "charged"
        else:
            probs.append("key construction does not distinguish charge 0 from charge != 0")
        # value must be table[key] under key-in-table, or table["?"] otherwise
        if not (isinstance(v, Unk) and isinstance(v.term, tuple) and v.term[0] == "index"):
            probs.append("capacity is not a plain subscript of the constraint table (e.g. truthiness-based fallback treats capacity 0 as 'not listed')")
        else:
            base, key = v.term[1], v.term[2]
            if not (base[0] == "obj" and base[1][0] == "global" and (base[1][1], base[1][2]) in table_vars):
                probs.append("capacity is not read from the current constraint table")
            ins = {k[1]: val for k, val in st.atoms.items() if k[0] == "in" and k[2] == base}
            if key == ("con", repr("?")):
                # fallback: the constructed key must be known absent
                absent = [kk for kk, val in ins.items() if val is False]
                if not absent:
                    probs.append("'?' is used although the atom's own key may be listed")
                elif want_key and not all(_key_ok(kk, want_key) for kk in absent):
                    probs.append("wrong key tested before falling back to '?'")
            else:
                if ins.get(key) is not True:
                    probs.append("table subscript is not dominated by a membership test of the same key")
                if want_key and not _key_ok(key, want_key):
                    probs.append("key is not element%s" % ("" if zero else " + '{:+}'.format(charge)"))
        rep.ob(RULE, not probs, f.node, f, construct="capacity look-up path (%s)" % ("charge 0" if zero else "charged"),
               how="key = element [+ '{:+}'.format(charge)]; table[key] iff key listed else table['?']",
               witness="; ".join(sorted(set(probs))) or None, nontrivial=True,
               key="lookup/%s/%s" % ("neutral" if zero else "charged", "ok" if not probs else sorted(set(probs))[0][:40]))
    if n < 4:
        rep.ob(RULE, False, f.node, f, construct="capacity look-up", witness="expected 4 paths (neutral/charged x listed/unlisted), found %d" % n)


def _key_ok(key, want):
    if want == "charged":
        # Str(sym element, sym fmt) where fmt is "{:+}".format(charge)
        if key[0] != "str":
            return False
        parts = key[1]
        if len(parts) != 2 or parts[0] != ("sym", ("element",)):
            return False
        p = parts[1]
        if p[0] != "sym" or not isinstance(p[1], tuple):
            return False
        t = p[1]
        if t[0] == "fmt":
            return t[1] == "+" and t[2][0] == "num" and "charge" in repr(t[2])
        if t[0] == "bmeth" and t[1] == "format":
            fmt, args = t[2], t[3]
            return fmt == ("con", repr("{:+}")) and len(args) == 1 and args[0][0] == "num" and "charge" in repr(args[0])
        return False
    return key == want


def strict_check(ctx, eff=None):
    """(encoder core, strict-only check function, its call site, strict=True region, strict=False region)"""
    eff = eff or Effects(ctx)
    setter, table_vars = eff.table_vars()
    enc, direct, on, off = find_strict_check(ctx, eff)
    # the check function: the strict-only callee that reads the table
    chk = site = None
    for g, s in direct:
        reads = eff.module_var_reads(g)
        if any(tv in reads for tv in table_vars):
            chk, site = g, s
    if chk is None:
        raise AnalysisError("no strict-only callee of encoder reads the constraint table")
    return enc, chk, site, on, off


def check_acceptance(ctx, rep, RULE):
    """shared with C03 / C10: what strict=True accepts is exactly the molecules within capacity (count <= capacity with the
    explicit hydrogens subtracted, every atom examined) -- their statements quantify over 'SMILES the encoder accepts'"""
    eff = Effects(ctx)
    enc, chk, site, on, off = strict_check(ctx, eff)
    check_comparator(ctx, rep, chk, site, RULE)
    rep.floor(RULE, 4)


def run(ctx, rep):
    eff = Effects(ctx)
    setter, table_vars = eff.table_vars()
    enc, chk, site, on, off = strict_check(ctx, eff)
    check_comparator(ctx, rep, chk, site)
    check_capacity_lookup(ctx, rep, eff, table_vars)
    rep.floor("Q1", 4)
    rep.floor("Q2", 4)
    # Q1b: the count the comparator reads is the atom's bond-order sum: who may write it, and how
    from rules.shared import check_bond_count_writers
    check_bond_count_writers(ctx, rep, "Q1")
    # Q3 (from the public entry, so that wrappers are covered)
    api_enc = ctx.api("encoder")
    off = set(eff.region(api_enc, {"strict": False})) if "strict" in api_enc.params else off
    reads = eff.module_var_reads(api_enc if "strict" in api_enc.params else enc, {"strict": False})
    bad = [(tv, reads[tv]) for tv in table_vars if tv in reads]
    plain, selfkeyed = memo_readers(ctx, eff, table_vars)
    memo_hit = [m.qual for m in plain + selfkeyed if m.qual in off]
    for tv, sites in bad:
        for g, node in sites[:3]:
            rep.ob("Q3", False, node, g, witness="constraint table %s.%s is read on the strict=False path of encoder: the result depends on the table" % tv,
                   nontrivial=True)
    for mq in memo_hit:
        rep.ob("Q3", False, ctx.db.funcs[mq].node, ctx.db.funcs[mq], construct="memo %s" % mq,
               witness="a memo of the constraint table is reachable from encoder(strict=False)", nontrivial=True)
    if not bad and not memo_hit:
        rep.ob("Q3", True, enc.node, enc, construct="region of encoder(strict=False): %d functions" % len(off),
               how="no read of the constraint table or of a memo of it", key="region", nontrivial=True)
    # the strict check has no effect besides raising: pure, result unused
    eng = Engine(ctx)
    pure = eng.is_pure(chk)
    used = not isinstance(_parent_stmt(enc.node, site.node), ast.Expr)
    rep.ob("Q3", pure and not used, site.node, enc, construct="strict check call",
           how="the check only raises: no write effect, result unused",
           witness=None if (pure and not used) else "the strict check influences the translation (writes state or its result is used)",
           key="check-only-raises", nontrivial=True)
    # table-dependent code in the strict=True region lies inside the check
    chk_region = set(eff.region(chk))
    for q in sorted(on):
        g = ctx.db.funcs[q]
        if q in chk_region or q == enc.qual:
            continue
        r = eff.module_var_reads(g)
        if any(tv in r for tv in table_vars) and q not in chk_region:
            rep.ob("Q3", False, g.node, g, witness="constraint table is read by the translation itself (outside the strict check)", nontrivial=True)
    # Q4
    mf = MemoFlow(ctx, eff, setter, rep, plain, table_vars)
    mf.run(frozenset())
    for o in rep.obs:
        if o.rule == "G6":
            o.rule = "Q4"
            o.key = o.key.replace("/G6/", "/Q4/")
            rep.counts["Q4"] = rep.counts.get("Q4", 0) + 1
    rep.counts.pop("G6", None)
    from rules.shared import check_table_owned
    check_table_owned(ctx, rep, "Q4")
    rep.floor("Q4", 3)
    rep.analysed.update({"strict_check": chk.qual, "strict_only_functions": sorted(on - off), "memos": [m.qual for m in plain]})


def _parent_stmt(fnode, target):
    for n in own_nodes(fnode):
        if isinstance(n, ast.stmt):
            for c in ast.iter_child_nodes(n):
                if c is target:
                    return n
                if isinstance(c, ast.expr) and any(x is target for x in ast.walk(c)) and not isinstance(n, (ast.If, ast.For, ast.While, ast.Try, ast.With)):
                    return n
    return None
