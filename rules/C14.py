"""C14 — tokenisation utilities agree with the translators (last sentence of the property, clause level).

K1 every string the encoder returns is well formed: each printed token is in \\[[^\\[\\].]*\\], tokens of a
   fragment are joined with "", fragments (each with at least one token) are joined with a single "."
K2 one tokenizer: the decoder, get_alphabet_from_selfies and selfies_to_encoding all tokenise through the single
   definition of split_selfies; padding length uses the single definition of len_selfies
K3 the three utilities are pure: no module state is read or written, results are fresh objects
K4 len_selfies, when it is an affine form over character counts, is count('[') + count('.'): one per bracketed symbol plus
   one per dot of a well-formed string (the number of items the scanner yields, by K5)
K5 contiguity of the bracket scanner: every iteration yields selfies[left:right+1] starting at the scan position (a '.'
   exactly when the next character is '.'), and continues right after what it yielded -- so the concatenation of the
   yielded items is the scanned prefix
K7 the decoder's derivation consumes the tokenizer's output for this call's own string (no stored token list)
K6 get_alphabet_from_selfies traverses its (possibly one-shot) iterable exactly once, with a plain loop / comprehension
Not decided: an implementation of len_selfies / split_selfies of another shape (a note is printed, no verdict), and the
set equality of get_alphabet_from_selfies beyond "one traversal, built from the one tokenizer, dots removed".
"""
import ast

from sa import AnalysisError
from sa.db import own_nodes, unparse
from sa.effects import Effects
from sa import reglang as RL
from rules import symlang
from rules.shared import check_fresh_return

REGISTER = True
META = {
    "explanation": "The token languages of the encoder's printers (C10) are included in the bracket-token language; the "
                   "assembly of tokens into fragments and of fragments into the result is checked structurally; the call graph "
                   "shows a single tokenizer definition shared by all consumers; effect analysis shows the utilities are pure.",
    "trusted_base": ["sa.reglang", "builtin effect table"],
    "assumptions": [],
    "level_text": "Static: language inclusion for printed tokens, structural assembly, single-definition and purity rules, "
                  "symbolic summaries of len_selfies and of one scanner iteration.",
    "level_note": "Clause-level: encoder output is well formed, all consumers share one tokenizer, the utilities are pure, "
                  "len_selfies has the token-count formula and the scanner is contiguous (K4/K5, decided for the affine / "
                  "find-based shapes; another shape gives a note, not a verdict).",
    "technique": "regular-language inclusion + call-graph single-definition rule + effect analysis + symbolic path summaries (abstract interpretation)",
}

SUQ = "selfies.utils.selfies_utils."


def run(ctx, rep):
    A = set(RL.ALPHABET)
    well = RL.compile_regex(("cat", [("lit", "["), ("rep", ("set", frozenset(A - {"[", "]", "."})), 0, None), ("lit", "]")]))
    enc = symlang.enc_atom_tokens(ctx)
    ok, w = enc["dfa"].included_in(well)
    from rules.shared import atom_token_printer
    tokf = atom_token_printer(ctx)
    rep.ob("K1", ok, tokf.node, tokf, construct="atom tokens", how="⊆ \\[[^\\[\\].]*\\]", nontrivial=True, key="atom-tokens",
           witness=None if ok else "encoder can print the malformed token %r" % w)
    # ring / branch / index tokens: finite sets from the decoder tables and templates (C10/L1 shows emit ⊆ tables)
    fin = set(__import__("rules.symlang", fromlist=["x"]).symbol_table(ctx, "ring")) | \
        set(__import__("rules.symlang", fromlist=["x"]).symbol_table(ctx, "branch")) | \
        set(ctx.fold.global_value("selfies.constants", "INDEX_ALPHABET"))
    bad = sorted(s for s in fin if not well.accepts(s))
    rep.ob("K1", not bad, None, None, loc="selfies/grammar_rules.py", construct="%d ring / branch / index symbols" % len(fin),
           how="each is a single bracketed token", witness=None if not bad else "malformed symbol(s) %s" % bad[:3], key="table-tokens")
    # assembly in encoder()
    from rules.shared import core_of
    encf = core_of(ctx, "encoder", "smiles_to_mol")
    # the assembly: encoder() itself plus any helper whose result encoder() returns directly (``return _join(frags, ...)``)
    scopes = [encf]
    rets = [r.value for r in own_nodes(encf.node) if isinstance(r, ast.Return) and r.value is not None]
    for site in ctx.cg.sites(encf):
        if any(site.node is x for rv in rets for x in ast.walk(rv)):
            scopes.extend(g for g in site.callees if g not in scopes and g.cls is None)
    joins = [n for sc in scopes for n in own_nodes(sc.node) if isinstance(n, ast.Call) and isinstance(n.func, ast.Attribute)
             and n.func.attr == "join" and isinstance(n.func.value, ast.Constant)]
    seps = sorted(j.func.value.value for j in joins)
    ok = seps == ["", "."]
    rep.ob("K1", ok, encf.node, encf, construct="assembly separators %r" % (seps,), how="tokens joined with '', fragments with '.'",
           witness=None if ok else "encoder output is not assembled as '.'.join(''.join(tokens))", key="assembly", nontrivial=True)
    # every fragment has >= 1 token: the fragment printer appends an atom token before anything else in its loop
    frag = None
    for s in ctx.cg.sites(encf):
        for g in s.callees:
            if g.module is encf.module and any(isinstance(n, ast.While) for n in own_nodes(g.node)):
                frag = g
    if frag is None:
        raise AnalysisError("fragment printer not found")
    loop = [n for n in frag.node.body if isinstance(n, ast.While)][0]
    # an atom token (result of the atom-token printer) is emitted by a straight-line statement at the top of the loop
    from rules.shared import emits_name
    tokvars = set()
    ok = False
    for st in loop.body:
        if isinstance(st, (ast.If, ast.For, ast.While, ast.Try, ast.With)):
            break
        if isinstance(st, ast.Assign) and isinstance(st.value, ast.Call) and unparse(st.value.func).split(".")[-1] == tokf.name:
            tokvars |= {t.id for t in st.targets if isinstance(t, ast.Name)}
        from rules.shared import emits_arg

        def is_atom_token(e):
            return (isinstance(e, ast.Name) and e.id in tokvars) or \
                   (isinstance(e, ast.Call) and unparse(e.func).split(".")[-1] == tokf.name)
        for n in ast.walk(st):
            if isinstance(n, ast.Call) and emits_arg(ctx, frag, n, is_atom_token):
                ok = True
    rep.ob("K1", ok, loop, frag, construct="first action of the fragment printer", how="an atom token is appended unconditionally",
           witness=None if ok else "a fragment can be printed without any token (empty fragment -> '..' or leading '.')", key="nonempty-fragment")
    # ---- K2 one tokenizer
    split = ctx.fn(SUQ + "split_selfies")
    lens = ctx.fn(SUQ + "len_selfies")
    consumers = [ctx.api("decoder"), ctx.api("get_alphabet_from_selfies"), ctx.api("selfies_to_encoding")]
    for f in consumers:
        reg = ctx.cg.region(f)
        ok = split.qual in reg
        rep.ob("K2", ok, f.node, f, construct="%s tokenises through split_selfies" % f.name, how="call-graph reachability",
               witness=None if ok else "%s does not use the shared tokenizer" % f.name, key="uses-split/" + f.name, nontrivial=True)
        # no private bracket scanning: no .find('[') / .index('[') / re usage in the consumer's own region except in split_selfies
        for q in reg:
            g = ctx.db.funcs[q]
            if g is split:
                continue
            from rules.C13 import _only_called_from
            if _only_called_from(ctx, g, {split}):
                continue                # a private helper of the one tokenizer is part of it (K5 follows it: the engine inlines it)
            for n in own_nodes(g.node):
                if isinstance(n, ast.Call) and isinstance(n.func, ast.Attribute) and n.func.attr in ("find", "index", "split", "partition") \
                        and n.args and isinstance(n.args[0], ast.Constant) and n.args[0].value in ("[", "]", "]["):
                    rep.ob("K2", False, n, g, witness="a second, private bracket scanner next to split_selfies", nontrivial=True)
    s2e = ctx.api("selfies_to_encoding")
    ok = lens.qual in ctx.cg.region(s2e)
    rep.ob("K2", ok, s2e.node, s2e, construct="padding length uses len_selfies", how="call-graph reachability",
           witness=None if ok else "padding does not use len_selfies", key="uses-len")
    # public names resolve to these single definitions
    api = ctx.db.public_api()
    for nm, f in (("split_selfies", split), ("len_selfies", lens)):
        ok = api.get(nm, (None, None))[1] is f
        rep.ob("K2", ok, f.node, f, construct="public %s" % nm, how="is the single definition", key="public/" + nm,
               witness=None if ok else "public %s is a different definition" % nm)
    # ---- K3 purity
    eff = Effects(ctx)
    for f in (split, lens, ctx.api("get_alphabet_from_selfies")):
        ws = eff.writes(f, include_memo_clear=True)
        memo = [ctx.db.funcs[q].qual for q in eff.region(f) if ctx.db.funcs[q].is_lru]
        touched = eff.touched_retained(f)
        ok = not ws and not memo and not touched
        rep.ob("K3", ok, f.node, f, construct="%s is pure" % f.name, how="no module-state read/write, no memoisation",
               witness=None if ok else "utility depends on / changes process state (%s): results depend on call history"
               % "; ".join([r.detail for r in ws][:2] + memo[:2] + [ctx.pt.describe(t) for t in list(touched)[:2]]), key="pure/" + f.name, nontrivial=True)
    check_fresh_return(ctx, eff, rep, ctx.api("get_alphabet_from_selfies"), "K3", "alphabet")
    # K6: the collection of strings may be a one-shot iterator: it is traversed exactly once, by one loop / comprehension,
    # and every string of it reaches the tokenizer (anything else -- any(), len(), a second loop -- consumes or skips items)
    ga = ctx.api("get_alphabet_from_selfies")
    ip = ga.posparams[0]
    parents = {}
    for nd in ast.walk(ga.node):
        for c in ast.iter_child_nodes(nd):
            parents[id(c)] = nd
    uses = [nd for nd in own_nodes(ga.node) if isinstance(nd, ast.Name) and nd.id == ip and isinstance(nd.ctx, ast.Load)]
    probs = []
    if len(uses) != 1:
        probs.append("the iterable is used %d times (a one-shot iterator is exhausted or advanced by the first use)" % len(uses))
    else:
        p_ = parents.get(id(uses[0]))
        if not ((isinstance(p_, ast.For) and p_.iter is uses[0]) or (isinstance(p_, ast.comprehension) and p_.iter is uses[0])):
            probs.append("the iterable is not consumed by a plain loop / comprehension (%s)" % unparse(p_)[:40])
    rep.ob("K6", not probs, uses[0] if uses else ga.node, ga, construct="traversal of %s in get_alphabet_from_selfies" % ip,
           how="exactly one traversal, by a for loop / comprehension", witness="; ".join(probs) or None, nontrivial=True,
           key="one-traversal/" + ("ok" if not probs else "bad"))
    check_len(ctx, rep, lens)
    check_scanner(ctx, rep, split)
    # K7 "the decoder consumes exactly these tokens": the derivation reads enumerate(G(fragment)) built from the tokenizer in
    # this very call -- not a stored token list that another call (another flag, another string) produced (C13/N1a, shared)
    from rules.C13 import check_token_source
    check_token_source(ctx, rep, "K7")
    rep.floor("K1", 4)
    rep.floor("K2", 6)


def check_len(ctx, rep, lens):
    """K4: if len_selfies is an affine form over character counts, it is count('[') + count('.'): one per bracketed symbol
    plus one per dot of a well-formed string (an implementation of another shape is not decided here)"""
    from sa.sym import Engine, Hooks, Unk, Num
    from sa.lin import Lin
    eng = Engine(ctx, Hooks())
    p = lens.posparams[0]
    fr = eng.run_function(lens, {p: Unk(("s",))})
    if len(fr.returns) != 1 or not isinstance(fr.returns[0][1], Num):
        rep.note("len_selfies is not a single affine expression: agreement with split_selfies not decided")
        return
    lin = fr.returns[0][1].lin
    counts = {t: c for t, c in lin.c.items() if isinstance(t, tuple) and t[0] == "count" and t[1] == ("unk", ("s",))}
    others = [t for t in lin.c if isinstance(t, tuple) and t[0] == "count" and t[1] != ("unk", ("s",))]
    if others:
        # characters are counted in an edited copy of the string (stripped, sliced, replaced ...): separators of the original
        # that split_selfies yields can go uncounted
        rep.ob("K4", False, lens.node, lens, construct="len_selfies = %r" % (lin,), how="count('[') + count('.') of the string itself",
               witness="a character count is taken over a derived string, not over the argument: items that split_selfies yields "
               "(e.g. a trailing '.') are not counted", nontrivial=True, key="len-formula")
        return
    if len(counts) != len(lin.c):
        rep.note("len_selfies is not an affine form over character counts: agreement with split_selfies not decided")
        return
    want = {("count", ("unk", ("s",)), ("con", repr("["))): 1, ("count", ("unk", ("s",)), ("con", repr("."))): 1}
    got = {t: int(c) for t, c in counts.items()}
    ok = got == want and lin.k == 0
    rep.ob("K4", ok, lens.node, lens, construct="len_selfies = %r" % (lin,), how="count('[') + count('.')", nontrivial=True, key="len-formula",
           witness=None if ok else "len_selfies counts %r: it disagrees with the number of tokens split_selfies yields "
           "(one per '[' and one per '.')" % (lin,))


def check_scanner(ctx, rep, split):
    """K5: contiguity of the bracket scanner: each iteration yields selfies[left:right+1] starting at the scan position, yields a
    '.' exactly when the next character is '.', and continues right after what it yielded"""
    from sa.sym import Engine, Hooks, Unk, Num, Con, vkey
    from sa.lin import Lin, eq, le as le_

    class H(Hooks):
        def __init__(self):
            self.loop = None

        def on_yield(self, eng, fr, node, value, st):
            s2 = st.copy()
            s2.tags = st.tags + (("yield", value, node),)
            return s2

        def on_loop_head(self, eng, fr, node, head):
            head.tags = ()
            return head

        def on_loop(self, eng, fr, node, syms, entered, back, exits, breaks):
            if fr.depth == 0 and self.loop is None:
                self.loop = (node, syms, back, breaks)
    h = H()
    eng = Engine(ctx, h)
    p = split.posparams[0]
    eng.run_function(split, {p: Unk(("s",))})
    if h.loop is None:
        rep.note("split_selfies has no scanner loop in the analysed form: contiguity not decided")
        return
    node, syms, back, breaks = h.loop
    skey = ("unk", ("s",))
    # the scan-position variable: the loop-carried name that is the lower bound of the yielded slice
    n = 0
    for b in back:
        ys = [t for t in b.tags if t[0] == "yield"]
        probs = []
        if not ys:
            probs.append("an iteration yields nothing")
        else:
            v = ys[0][1]
            org = eng.origin.get(v.term) if isinstance(v, Unk) else None
            if not (org and org[0] == "slice" and vkey(org[1]) == skey and org[2] and org[3] and len(org[4]) == 2):
                probs.append("first yield of an iteration is not a slice selfies[a:b]")
            else:
                lo, hi = org[4][0].lin, org[4][1].lin
                # the closing bracket is the FIRST ']' behind the opening one: when the end is (a find result) + 1, the search
                # must look for ']' in the scanned string and start no later than the character after the scan position
                # (a later start skips the ']' of an empty symbol '[]' and swallows the next symbol)
                hterms = [t for t in (hi - Lin.const(1)).terms()]
                if len(hterms) == 1 and (hi - Lin.const(1) - Lin.var(hterms[0])).is_const() and (hi - Lin.const(1) - Lin.var(hterms[0])).k == 0:
                    fo_ = eng.origin.get(hterms[0])
                    if fo_ and fo_[0] in ("find", "index"):
                        fargs = fo_[2]
                        if vkey(fo_[1]) != skey or not fargs or not (isinstance(fargs[0], Con) and fargs[0].value == "]"):
                            probs.append("the end of the yielded symbol is not found by searching ']' in the scanned string")
                        elif len(fargs) >= 2:
                            st_ = fargs[1]
                            if not (isinstance(st_, Num) and b.entails(le_(st_.lin, lo + Lin.const(1)))):
                                probs.append("the search for ']' starts later than the character after the opening bracket: "
                                             "the ']' of an empty symbol is skipped and the next symbol is swallowed")
                pos = [nm for nm, t in syms.items() if (lo - Lin.var(t)).is_const() and (lo - Lin.var(t)).k == 0]
                if not pos:
                    probs.append("yielded symbol does not start at the scan position")
                else:
                    pv = pos[0]
                    newp = b.env.get(pv)
                    newl = newp.lin if isinstance(newp, Num) else None
                    dots = [t for t in ys[1:]]
                    # the test on the character after the symbol
                    k_dot = None
                    for k, val in b.atoms.items():
                        if k[0] == "eq" and repr(vkey(Con("."))) in k[1]:
                            other = [x for x in k[1] if x != repr(vkey(Con(".")))]
                            for t2, o2 in eng.origin.items():
                                if o2[0] == "slice" and other and repr(("unk", t2)) == other[0] and vkey(o2[1]) == skey and len(o2[4]) == 2:
                                    l2, h2 = o2[4][0].lin, o2[4][1].lin
                                    if (l2 - hi).is_const() and (l2 - hi).k == 0 and (h2 - hi).is_const() and (h2 - hi).k == 1:
                                        k_dot = val
                    # ... spelled selfies.startswith(".", end)
                    for k, val in b.atoms.items():
                        if k[0] == "truthy" and isinstance(k[1], tuple) and k[1][0] == "unk" and isinstance(k[1][1], tuple) \
                                and k[1][1][0] == "bmeth" and k[1][1][1] == "startswith" and k[1][1][2] == skey and len(k[1][1][3]) == 2 \
                                and k[1][1][3][0] == vkey(Con(".")) and k[1][1][3][1][0] == "num":
                            for cand in [x for x in b.env.values() if isinstance(x, Num)] + [Num(hi)]:
                                if vkey(cand) == k[1][1][3][1] and b.entails(eq(cand.lin, hi)):
                                    k_dot = val
                    if dots:
                        if not (isinstance(dots[0][1], Con) and dots[0][1].value == "."):
                            probs.append("second yield is not the dot token")
                        if k_dot is not True:
                            probs.append("a '.' is yielded although the character after the symbol is not tested to be '.'")
                        if newl is None or not b.entails(eq(newl, hi + Lin.const(1))):
                            probs.append("after a '.', scanning does not continue right behind it")
                    else:
                        if k_dot is not False:
                            probs.append("no '.' is yielded although the character after the symbol is not tested to differ from '.'")
                        if newl is None or not b.entails(eq(newl, hi)):
                            probs.append("scanning does not continue right behind the yielded symbol")
        n += 1
        rep.ob("K5", not probs, node, split, construct="scanner iteration [%s]" % ", ".join("dot" if isinstance(t[1], Con) else "symbol" for t in ys),
               how="yields selfies[pos:right+1]; '.' iff the next character is '.'; continues right behind", nontrivial=True,
               witness="; ".join(probs) or None, key="scanner/%s/%s" % (len(ys), "ok" if not probs else probs[0][:40]))
    if n < 2:
        rep.note("scanner loop has %d analysed iteration path(s)" % n)
