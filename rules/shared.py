"""Helpers shared by several rule packs (ownership / memo rules)."""
import ast

from sa import AnalysisError
from sa.db import own_nodes, unparse
from sa.flow import Forward
from sa.pts import IMM, UNK


def memo_readers(ctx, eff, table_vars):
    """lru-cached functions whose region loads a table variable; split into (plain, self_keyed)"""
    plain, selfkeyed = [], []
    for f in eff.lru_funcs():
        reads = eff.module_var_reads(f)
        if any(tv in reads for tv in table_vars):
            (selfkeyed if f.is_method else plain).append(f)
    return plain, selfkeyed


def retention_reason(ctx, eff, f, i):
    """why object i, returned by f, is not fresh per call (None if it is).  Judged from f's own extent:
    allocated inside the call, not stored into retained state during the call, f not memoised."""
    pt = ctx.pt
    region = eff.region(f)
    if i[0] != "alloc":
        return "not an allocation (%s)" % pt.describe(i)
    scope = i[1]
    if scope.startswith("mod:") or scope.startswith("default:"):
        return "created at import time (%s): alias of retained state" % pt.describe(i)
    if scope not in region:
        return "allocated outside this call (%s)" % pt.describe(i)
    if f.is_lru:
        return "memoised with lru_cache: every caller gets the retained %s itself" % pt.describe(i)
    for q in region:
        for r in pt.records(q):
            if i in r.values and any(eff.is_shared_target(t) for t in r.targets):
                return "also stored into retained state at %s (%s)" % (ctx.db.funcs[q].loc(r.node), r.detail)
    return None


def check_fresh_return(ctx, eff, rep, f, rule, what):
    pt = ctx.pt
    ret = pt.v(f.qual, "<ret>")
    region = eff.region(f)
    heap = [i for i in ret if isinstance(i, tuple)]
    if not heap:
        rep.ob(rule, True, f.node, f, construct="return of %s" % f.name, how="returns only immutable values")
        return
    for i in sorted(heap, key=str):
        bad = None
        if i[0] == "extparam":
            continue
        if i[0] != "alloc":
            bad = "returns a non-allocated object %s" % (pt.describe(i),)
        else:
            scope = i[1]
            if scope.startswith("mod:") or scope.startswith("default:"):
                bad = "returns an object created at import time (%s): alias of retained state" % pt.describe(i)
            elif scope not in region:
                bad = "returns an object allocated outside this call (%s)" % pt.describe(i)
            elif f.is_lru:
                bad = "function is memoised with lru_cache and returns a mutable %s: every caller gets the " \
                      "retained object itself (mutating it changes later results)" % pt.describe(i)
            else:
                # stored into retained state during the call?
                for q in region:
                    for r in pt.records(q):
                        if i in r.values and any(eff.is_shared_target(t) for t in r.targets):
                            bad = "returned object is also stored into retained state at %s (%s)" % (
                                ctx.db.funcs[q].loc(r.node), r.detail)
                # deep: anything reachable must be immutable or fresh too
                if bad is None:
                    for j in pt.reach({i}) - {i}:
                        if j in eff.retained and j[0] == "alloc" and pt.objs[j].kind in ("list", "dict", "set", "deque", "inst"):
                            bad = "returned object contains retained mutable %s" % pt.describe(j)
        node = pt.objs[i].site[1] if i[0] == "alloc" and pt.objs[i].site else f.node
        rep.ob(rule, bad is None, node, f, construct="%s returns %s" % (f.name, pt.objs[i].kind),
               how="fresh allocation inside the call, not stored, not memoised" if bad is None else "",
               witness=bad, key="%s/returns-%s" % (f.name, "alias" if bad else "fresh"), nontrivial=True)


class MemoFlow(Forward):
    """state: frozenset of memo quals that still have to be cleared (pending after a table rebinding)"""

    def __init__(self, ctx, eff, f, rep, memos, table_vars):
        super().__init__(f.node)
        self.ctx, self.eff, self.f, self.rep = ctx, eff, f, rep
        self.memos = frozenset(m.qual for m in memos)
        self.table_vars = table_vars
        self.rebinds = {}
        self.clears = {}
        for r in ctx.pt.records(f.qual):
            if r.op == "rebind-global" and any((t[1], t[2]) in table_vars for t in r.targets):
                self.rebinds[id(r.node)] = r
            if r.op == "memo-clear":
                self.clears[id(r.node)] = r
        self.exits = 0

    def join(self, a, b):
        return a | b

    def simple(self, st, state):
        new = set(state)
        for n in ast.walk(st):
            r = self.clears.get(id(n))
            if r is not None:
                new.discard(r.detail)
        if id(st) in self.rebinds:
            new |= self.memos
        return frozenset(new)

    def exit(self, kind, node, state):
        if kind in ("return", "end"):
            self.exits += 1
            if not self.memos and not state:
                self.rep.ob("G6", True, node, self.f, construct="normal exit of %s (%s)" % (self.f.name, kind),
                            how="no memoised function reads the table: nothing to clear", key="%s/exit-%s" % (self.f.name, kind))
                return
            ok = not state
            self.rep.ob("G6", ok, node, self.f, construct="normal exit of %s (%s)" % (self.f.name, kind),
                        how="all table-reading memos cleared on every path from a rebinding: %s" % sorted(self.memos),
                        witness=None if ok else "path from a table rebinding reaches this exit without cache_clear() of: %s"
                        % ", ".join(sorted(state)), key="%s/exit-%s" % (self.f.name, kind), nontrivial=True)




def require_resolved(ctx, region):
    """every call site in the region must have a modelled callee (exit 2 otherwise, never a silent pass)"""
    for q in sorted(region):
        f = ctx.db.funcs[q]
        for st in ctx.cg.sites(f):
            if st.unresolved:
                raise AnalysisError("unmodelled callee at %s: %s" % (st.loc(), unparse(st.node)[:80]))


def core_of(ctx, api_name, marker):
    """the function that implements an API entry: the API function itself, or -- through thin wrappers, i.e. functions
    whose body is nothing but `return <call of one package function>` -- the function they forward to.  `marker` names
    a function the implementation is known to reach (smiles_to_mol for the encoder, mol_to_smiles for the decoder);
    it only confirms that the right region was found."""
    f = ctx.api(api_name)
    seen = set()
    while f.qual not in seen:
        seen.add(f.qual)
        body = [st for st in f.node.body if not (isinstance(st, ast.Expr) and isinstance(st.value, ast.Constant))]
        if len(body) == 1 and isinstance(body[0], ast.Return) and isinstance(body[0].value, ast.Call):
            site = [s for s in ctx.cg.sites(f) if s.node is body[0].value]
            if site and len(site[0].callees) == 1 and site[0].callees[0].cls is None:
                f = site[0].callees[0]
                continue
        # a dispatching wrapper: nothing but if / return statements, every return a call of a package function; the
        # implementation is the callee that all the others lead to (e.g. a memoised variant that calls the plain one)
        stmts = [n for st in body for n in ast.walk(st) if isinstance(n, ast.stmt)]
        rets = [n for n in stmts if isinstance(n, ast.Return)]
        if stmts and all(isinstance(n, (ast.If, ast.Return)) for n in stmts) and rets and all(isinstance(r.value, ast.Call) for r in rets):
            cands = []
            for r in rets:
                site = [s for s in ctx.cg.sites(f) if s.node is r.value]
                if not site or len(site[0].callees) != 1 or site[0].callees[0].cls is not None:
                    cands = None
                    break
                if site[0].callees[0] not in cands:
                    cands.append(site[0].callees[0])
            if cands:
                common = [g for g in cands if all(h is g or g.qual in ctx.cg.region(h) for h in cands)]
                if len(common) == 1:
                    f = common[0]
                    continue
        break
    if not any(ctx.db.funcs[q].name == marker for q in ctx.cg.region(f)):
        raise AnalysisError("implementation of %s does not reach %s: anchor lost" % (api_name, marker))
    return f


def check_history_independence(ctx, rep, RULE):
    """No value that depends on the constraint table (data flow, or control flow inside the storing function) is stored
    into module state other than the table itself: caches keyed by symbol stay functions of the symbol alone, so what a
    symbol means cannot depend on which tables were in force earlier.  Decided per storing function with a local taint
    analysis whose sources are reads of the table and results of functions that (transitively) read it."""
    from sa.effects import Effects, WRITE_OPS
    from sa.taint import Taint
    from rules.C19 import _import_time_only
    eff = Effects(ctx)
    pt = ctx.pt
    setter, table_vars = eff.table_vars()
    readers = []
    for f in ctx.db.funcs.values():
        reads = eff.module_var_reads(f)
        if any(tv in reads for tv in table_vars):
            readers.append(f)
    writers = {}
    for r in pt.recs.values():
        if r.op in WRITE_OPS and not r.scope.startswith("mod:") and r.scope != setter.qual:
            if any(eff.is_shared_target(t) for t in r.targets) and not _import_time_only(ctx, r.scope):
                writers.setdefault(r.scope, []).append(r)
    n = 0
    for q, recs in sorted(writers.items()):
        F = ctx.db.funcs[q]
        sources = [("glob", m, nm) for m, nm in table_vars] + [("ret", g.qual) for g in readers if g is not F]
        T = Taint(ctx, sources, [q], interproc_pc=False)
        bad = [l for l in T.t if l[0] == "glob" and (l[1], l[2]) not in table_vars]
        n += 1
        for l in sorted(bad):
            rep.ob(RULE, False, F.node, F, construct="store into module state %s.%s" % (l[1], l[2]),
                   witness="table-dependent information is stored in %s.%s, which set_semantic_constraints never resets: %s"
                   % (l[1], l[2], T.explain(l)), key="table-dependent-store/%s/%s" % (F.name, l[2]), nontrivial=True)
        if not bad:
            rep.ob(RULE, True, F.node, F, construct="stores of %s into module state (%s)" % (F.name, "; ".join(sorted({r.detail for r in recs}))[:80]),
                   how="neither the stored value nor the storing branch depends on the constraint table",
                   key="table-dependent-store/%s/none" % F.name, nontrivial=True)
    if not n:
        rep.ob(RULE, True, None, None, loc="selfies/", construct="stores to module state after import", how="none outside the setter",
               key="table-dependent-store/no-writers")


def emits_arg(ctx, owner, call, pred):
    """like emits_name, for an argument *expression* selected by pred(node): ``X.append(<expr>)`` or a helper call whose
    parameter receiving <expr> is appended unconditionally"""
    if isinstance(call.func, ast.Attribute) and call.func.attr == "append":
        return bool(call.args) and pred(call.args[0])
    site = [s for s in ctx.cg.sites(owner) if s.node is call]
    if not site or not site[0].callees:
        return False
    for g in site[0].callees:
        recv = None
        for i, a in enumerate(call.args):
            if pred(a) and i < len(g.posparams):
                recv = g.posparams[i]
        for kw in call.keywords:
            if pred(kw.value) and kw.arg in g.params:
                recv = kw.arg
        if recv is None:
            return False
        if not any(isinstance(st, ast.Expr) and isinstance(st.value, ast.Call) and isinstance(st.value.func, ast.Attribute)
                   and st.value.func.attr == "append" and st.value.args and isinstance(st.value.args[0], ast.Name)
                   and st.value.args[0].id == recv for st in g.node.body):
            return False
    return True


def emits_name(ctx, owner, call, name):
    """True when ``call`` (a call expression in ``owner``) appends the value of local ``name`` to a list:
    either ``X.append(name)`` itself, or a call of a helper whose receiving parameter is appended
    unconditionally (top-level statement of the helper body)."""
    if isinstance(call.func, ast.Attribute) and call.func.attr == "append":
        return bool(call.args) and isinstance(call.args[0], ast.Name) and call.args[0].id == name
    site = [s for s in ctx.cg.sites(owner) if s.node is call]
    if not site or not site[0].callees:
        return False
    for g in site[0].callees:
        recv = None
        for i, a in enumerate(call.args):
            if isinstance(a, ast.Name) and a.id == name and i < len(g.posparams):
                recv = g.posparams[i]
        for kw in call.keywords:
            if isinstance(kw.value, ast.Name) and kw.value.id == name and kw.arg in g.params:
                recv = kw.arg
        if recv is None:
            return False
        hit = False
        for st in g.node.body:
            if isinstance(st, ast.Expr) and isinstance(st.value, ast.Call):
                c = st.value
                if isinstance(c.func, ast.Attribute) and c.func.attr == "append" and c.args \
                        and isinstance(c.args[0], ast.Name) and c.args[0].id == recv:
                    hit = True
        if not hit:
            return False
    return True


def check_table_owned(ctx, rep, RULE):
    """The table in force can change only through the setter (which clears the memos): what the setter binds is a
    fresh copy -- never the caller's own dict, never a preset object -- and the table getter hands out a copy.
    Without this, an in-place edit of a caller-held dict changes the table in force behind the memos' back."""
    from sa.effects import Effects
    eff = Effects(ctx)
    pt = ctx.pt
    setter, table_vars = eff.table_vars()
    if not table_vars:
        raise AnalysisError("set_semantic_constraints rebinds no module-level table (anchor lost)")
    n = 0
    for r in pt.records(setter.qual):
        if r.op != "rebind-global" or not any((t[1], t[2]) in table_vars for t in r.targets):
            continue
        for i in [v for v in r.values if v != IMM]:
            n += 1
            bad = None
            if i == UNK:
                bad = "table bound to an unknown object"
            elif i[0] == "extparam":
                bad = "the table in force is the caller's own dict (parameter %s): editing it later changes the table without " \
                      "clearing the memoised capacities / alphabet" % i[2]
            elif i[0] == "alloc" and i[1].startswith("mod:"):
                bad = "the table in force is a preset object itself (%s)" % pt.describe(i)
            rep.ob(RULE, bad is None, r.node, setter, construct="%s := %s" % (r.detail, pt.describe(i)), how="a fresh copy owned by the module",
                   witness=bad, nontrivial=True, key="table-owned/%s" % ("bad:" + str(i[0]) if bad else "fresh-copy"))
    if not n:
        raise AnalysisError("the setter does not rebind the table (anchor lost)")
    g = ctx.api("get_semantic_constraints")
    check_fresh_return(ctx, eff, rep, g, RULE, "get_semantic_constraints")
    # ... and a refused table never becomes the table in force: in the setter no raise point is reachable after a write
    # to module state (otherwise the rejected table stays installed behind the uncleared memos)   (C12/G3, shared)
    from rules.C12 import AtomicFlow
    AtomicFlow(ctx, eff, setter, rep, rule=RULE).run(frozenset())


def fragment_printer(ctx):
    """(encoder core, fragment printer): the function of the encoder's module that the core calls for every root and that
    walks the graph (a `while` loop or self-recursion)"""
    encf = core_of(ctx, "encoder", "smiles_to_mol")
    cands = []
    for s in ctx.cg.sites(encf):
        for g in s.callees:
            if g.module is encf.module and g.cls is None and g is not encf:
                loops = any(isinstance(n, ast.While) for n in own_nodes(g.node))
                rec = any(g in s2.callees for s2 in ctx.cg.sites(g))
                if (loops or rec) and g not in cands:
                    cands.append(g)
    if len(cands) != 1:
        raise AnalysisError("fragment printer of the encoder not identified (%d candidates)" % len(cands))
    return encf, cands[0]


def token_templates(ctx, frag, depth=2):
    """constant token templates ('[{}Ring{}]' as str.format or f-string) built in the fragment printer or in the
    same-module helpers it calls: [(owner function, node, template with {} placeholders, argument expressions)]"""
    out, seen = [], set()

    def visit(g, d):
        if g.qual in seen:
            return
        seen.add(g.qual)
        local = {x.id for x in own_nodes(g.node) if isinstance(x, ast.Name) and isinstance(x.ctx, ast.Store)} | set(g.params)
        for n in own_nodes(g.node):
            if isinstance(n, ast.Call) and isinstance(n.func, ast.Attribute) and n.func.attr == "format" \
                    and isinstance(n.func.value, ast.Constant) and isinstance(n.func.value.value, str):
                out.append((g, n, n.func.value.value, list(n.args)))
            elif isinstance(n, ast.Call) and isinstance(n.func, ast.Attribute) and n.func.attr == "format" \
                    and isinstance(n.func.value, ast.Name) and n.func.value.id not in local and not n.keywords:
                # a template held in a module-level string constant
                try:
                    v = ctx.fold.global_value(g.module.name, n.func.value.id)
                except Exception:
                    v = None
                if isinstance(v, str):
                    out.append((g, n, v, list(n.args)))
            elif isinstance(n, ast.JoinedStr):
                tmpl, args, ok = "", [], True
                for v in n.values:
                    if isinstance(v, ast.Constant):
                        tmpl += str(v.value).replace("{", "{{").replace("}", "}}")
                    elif isinstance(v, ast.FormattedValue) and v.format_spec is None and v.conversion == -1:
                        tmpl += "{}"
                        args.append(v.value)
                    else:
                        ok = False
                if ok and args:
                    out.append((g, n, tmpl, args))
        if d > 0:
            for s in ctx.cg.sites(g):
                for h in s.callees:
                    if h.module is frag.module and h.cls is None and h is not frag:
                        visit(h, d - 1)
    visit(frag, depth)
    return out


def ring_prefix_paths(ctx, owner, fmt_node, arg0):
    """Per-path summary of the prefix printed in a ring token '[<prefix>Ring<L>]'.

    form A  the prefix is the result of a package function called with the two directed bonds of the ring bond
            (``_ring_bonds_to_selfies(rev_bond, bond)``): that function is run on two symbolic bonds L, R
    form B  the prefix is a local of the function that formats the token, which also fetches the reverse bond itself
            (``lbond = mol.get_dirbond(src=rbond.dst, dst=rbond.src)``): the formatting function is run with the ring bond
            parameter bound to the symbolic bond R, the fetched bond is L, and the value of the local is taken at the
            formatting call
    -> dict(P=function reported, eng, h, paths=[(state, value)], lkey, rkey, form, pcall (A) / rname (B), rev_ok (B))"""
    from sa.sym import Engine, Obj, Con, vkey
    from sa.strlang import IntFacts
    from rules import symlang
    L0 = Obj(("L",), "selfies.mol_graph.DirectedBond")
    R0 = Obj(("R",), "selfies.mol_graph.DirectedBond")
    arg0 = resolve_local(owner, arg0)          # prefix = f(rev_bond, bond) bound to a local first
    if isinstance(arg0, ast.Call) and len(arg0.args) == 2 and not arg0.keywords:
        site = {id(s.node): s for s in ctx.cg.sites(owner)}.get(id(arg0))
        if site is None or len(site.callees) != 1:
            raise AnalysisError("ring prefix function not resolved")
        P = site.callees[0]
        h = IntFacts(ctx)
        eng = Engine(ctx, h)
        h.bind(eng)
        h.sl.field_domain["stereo"] = symlang.stereo_domain(ctx)
        fr = eng.run_function(P, {P.posparams[0]: L0, P.posparams[1]: R0})
        return dict(P=P, eng=eng, h=h, paths=list(fr.returns), lkey=vkey(L0), rkey=vkey(R0), form="A", pcall=arg0, frame=fr)
    if isinstance(arg0, ast.Name) and arg0.id in owner.locals and arg0.id not in owner.params:
        gds = [c for c in own_nodes(owner.node) if isinstance(c, ast.Call) and isinstance(c.func, ast.Attribute) and c.func.attr == "get_dirbond"]
        if len(gds) != 1:
            raise AnalysisError("ring token: the reverse bond is not fetched by exactly one get_dirbond call in %s" % owner.name)
        c = gds[0]
        kw = {k.arg: k.value for k in c.keywords}
        src = kw.get("src", c.args[0] if c.args else None)
        dst = kw.get("dst", c.args[1] if len(c.args) > 1 else None)
        rname = None
        if isinstance(src, ast.Attribute) and isinstance(dst, ast.Attribute) and isinstance(src.value, ast.Name) and isinstance(dst.value, ast.Name) \
                and src.value.id == dst.value.id:
            rname = src.value.id
        rev_ok = rname is not None and src.attr == "dst" and dst.attr == "src"
        if rname is None or rname not in owner.params:
            raise AnalysisError("ring token: the ring bond whose reverse is fetched is not a parameter of %s" % owner.name)
        captured = []

        class H(IntFacts):
            def on_call(self, eng, fr, node, callee, args, kwargs, st):
                if node is c and fr.func is owner:
                    return [(st, L0)]
                if node is fmt_node and fr.func is owner and args:
                    captured.append((st, args[0]))
                return IntFacts.on_call(self, eng, fr, node, callee, args, kwargs, st)
        h = H(ctx)
        eng = Engine(ctx, h)
        h.bind(eng)
        h.sl.field_domain["stereo"] = symlang.stereo_domain(ctx)
        fr = eng.run_function(owner, {rname: R0})
        if not captured:
            raise AnalysisError("ring token: the formatting call in %s is not reached by the abstract run" % owner.name)
        return dict(P=owner, eng=eng, h=h, paths=captured, lkey=vkey(L0), rkey=vkey(R0), form="B", rname=rname, rev_ok=rev_ok, frame=fr)
    raise AnalysisError("ring prefix is neither a call with two directed bonds nor a local of the formatting function")


def atom_token_printer(ctx):
    """the encoder's atom-token printer, by role: the module-level function of the encoder module that the fragment printer
    calls with the atom it has just fetched with get_atom() -- whatever it is called, and whether or not it still goes through
    atom_to_smiles (C03/R5 checks that it does)"""
    key = ("atom_token_printer",)
    if key not in ctx.cache:
        _encf, frag = fragment_printer(ctx)
        atom_vars = set()
        for n in own_nodes(frag.node):
            if isinstance(n, ast.Assign) and len(n.targets) == 1 and isinstance(n.targets[0], ast.Name) and isinstance(n.value, ast.Call) \
                    and isinstance(n.value.func, ast.Attribute) and n.value.func.attr == "get_atom":
                atom_vars.add(n.targets[0].id)
        cands = []
        for s_ in ctx.cg.sites(frag):
            if not isinstance(s_.node, ast.Call):
                continue
            args = list(s_.node.args) + [k.value for k in s_.node.keywords]
            takes_atom = any(isinstance(a, ast.Name) and a.id in atom_vars for a in args) or \
                any(isinstance(a, ast.Call) and isinstance(a.func, ast.Attribute) and a.func.attr == "get_atom" for a in args)
            if takes_atom:
                for g in s_.callees:
                    if g.module is frag.module and g.cls is None and getattr(g, "outer", None) is None and g not in cands:
                        cands.append(g)
        if len(cands) != 1:
            raise AnalysisError("the encoder's atom-token printer (called by the fragment printer with the fetched atom) was not identified "
                                "(%d candidate(s))" % len(cands))
        ctx.cache[key] = cands[0]
    return ctx.cache[key]


def chirality_decider(ctx):
    """the function that decides whether a centre is inverted, by role: the encoder-module function called in the condition
    that guards the call of <atom>.invert_chirality()"""
    key = ("chirality_decider",)
    if key not in ctx.cache:
        encf = ctx.api("encoder")
        reg = set(ctx.cg.region(encf))
        found = []
        for g in ctx.db.funcs.values():
            if g.module is not encf.module or g.qual not in reg and g is not encf:
                continue
            sites = {id(s_.node): s_ for s_ in ctx.cg.sites(g)}
            for n in own_nodes(g.node):
                if isinstance(n, ast.If) and any(isinstance(c, ast.Call) and isinstance(c.func, ast.Attribute) and c.func.attr == "invert_chirality"
                                                 for b in n.body for c in ast.walk(b)):
                    for c in ast.walk(n.test):
                        s_ = sites.get(id(c))
                        if s_ is not None:
                            for h in s_.callees:
                                if h.cls is None and h not in found:      # wherever in the package it lives
                                    found.append(h)
        if len(found) != 1:
            raise AnalysisError("the function deciding the chirality inversion was not identified (%d candidate(s))" % len(found))
        ctx.cache[key] = found[0]
    return ctx.cache[key]


def resolve_local(f, expr, depth=3):
    """follow a local name bound exactly once in f (plain assignment) to the expression it names"""
    for _ in range(depth):
        if not (isinstance(expr, ast.Name) and expr.id in f.locals and expr.id not in f.params):
            break
        binds = [n for n in own_nodes(f.node) if isinstance(n, ast.Name) and n.id == expr.id and isinstance(n.ctx, ast.Store)]
        asg = [n for n in own_nodes(f.node) if isinstance(n, ast.Assign) and len(n.targets) == 1 and isinstance(n.targets[0], ast.Name)
               and n.targets[0].id == expr.id]
        if len(binds) != 1 or len(asg) != 1:
            break
        expr = asg[0].value
    return expr


# calls that write interpreter- / process-wide state (not module state of the package, so invisible to the points-to
# effect analysis): the explicit table the frame / ownership rules (C11, C19) consult
PROCESS_GLOBAL_SETTERS = {
    "sys.setrecursionlimit", "sys.settrace", "sys.setprofile", "sys.setswitchinterval", "sys.set_int_max_str_digits",
    "os.chdir", "os.putenv", "os.unsetenv", "os.umask", "locale.setlocale", "random.seed", "signal.signal",
    "gc.disable", "gc.enable", "gc.set_threshold", "warnings.simplefilter", "warnings.filterwarnings", "warnings.resetwarnings",
    "threading.setprofile", "threading.settrace", "decimal.setcontext", "faulthandler.enable", "faulthandler.disable",
    "importlib.reload", "builtins.setattr:sys", "builtins.setattr:os",
}


def check_no_process_global_writes(ctx, rep, region, RULE):
    """no function of the region calls a setter of interpreter-wide state (recursion limit, trace hooks, environment,
    warning filters, random seed ...): such state is shared by all calls and all threads, whatever the call restores later"""
    n = 0
    for q in sorted(region):
        f = ctx.db.funcs.get(q)
        if f is None:
            continue
        for nd in own_nodes(f.node):
            name = None
            if isinstance(nd, ast.Call):
                r = ctx.db.resolve_dotted(f.module, nd.func) if isinstance(nd.func, (ast.Name, ast.Attribute)) else None
                if r and r[0] in ("ext", "module"):
                    name = r[1] if isinstance(r[1], str) else None
                if name is None:
                    name = unparse(nd.func)
            elif isinstance(nd, (ast.Subscript, ast.Attribute)) and isinstance(nd.ctx, (ast.Store, ast.Del)):
                base = nd.value
                if unparse(base) in ("os.environ", "sys.path", "sys.modules", "sys.argv") or (isinstance(base, ast.Name) and base.id in ("sys", "os")
                                                                                              and isinstance(nd, ast.Attribute)):
                    r = ctx.db.resolve_dotted(f.module, base if isinstance(base, (ast.Name, ast.Attribute)) else None) if isinstance(base, (ast.Name, ast.Attribute)) else None
                    name = "store:" + unparse(nd)
            if name is None:
                continue
            hit = name in PROCESS_GLOBAL_SETTERS or name.startswith("store:") or \
                (isinstance(nd, ast.Call) and isinstance(nd.func, ast.Attribute) and nd.func.attr in ("update", "pop", "clear", "setdefault", "__setitem__")
                 and unparse(nd.func.value) == "os.environ")
            if hit:
                n += 1
                rep.ob(RULE, False, nd, f, construct=unparse(nd)[:70],
                       witness="%s changes interpreter-wide state from inside a translation call: concurrent (and later) calls observe it" % name,
                       nontrivial=True, key="process-global/%s/%s" % (f.name, name.split(":")[0]))
    if not n:
        rep.ob(RULE, True, None, None, loc="selfies/", construct="calls of process-global setters in %d functions" % len(region),
               how="none (explicit table of interpreter-wide setters)", key="process-global/none")


def import_obligations(rep, sub, mapping):
    """copy the obligations of rules `mapping` = {source rule: target rule} from a sub-report (another property's rule run
    on the same tree) into rep; keys keep the source rule so that a shared finding stays attributable"""
    n = 0
    for o in sub.obs:
        tgt = mapping.get(o.rule)
        if tgt is None:
            continue
        n += 1
        key = "/".join(o.key.split("/")[1:])          # drop the source property id
        o2 = rep.ob(tgt, o.ok, None, o.func, construct=o.construct, how=o.how, witness=o.witness, key=key, nontrivial=o.nontrivial, loc=o.loc)
    return n


def check_bond_count_writers(ctx, rep, RULE):
    """The per-atom bond-order sum (the list get_bond_count() reads) has no writer that could make it differ from the sum of the
    bond orders: it grows by `.append(0)` with the atom list, changes by `+=` / `-=` deltas in the bond mutators (C01/V6 checks
    both endpoints), and the only plain store is the rounding of the same entry  F[i] = int(F[i])  (kekulisation)."""
    cls = ctx.db.classes["selfies.mol_graph.MolecularGraph"]
    G = cls.methods.get("get_bond_count")
    if G is None:
        raise AnalysisError("MolecularGraph.get_bond_count not found")
    field = None
    for r in own_nodes(G.node):
        if isinstance(r, ast.Return) and isinstance(r.value, ast.Subscript) and isinstance(r.value.value, ast.Attribute):
            field = r.value.value.attr
    if field is None:
        raise AnalysisError("bond-count field read by get_bond_count not identified")
    n = 0
    for f in ctx.db.funcs.values():
        for nd in own_nodes(f.node):
            probs = None
            if isinstance(nd, ast.Assign):
                for t in nd.targets:
                    if isinstance(t, ast.Subscript) and isinstance(t.value, ast.Attribute) and t.value.attr == field:
                        v = nd.value
                        same = isinstance(v, ast.Call) and unparse(v.func) in ("int", "round", "math.floor") and len(v.args) == 1 \
                            and unparse(v.args[0]) == unparse(t).replace(" ", "") or \
                            (isinstance(v, ast.Call) and unparse(v.func) in ("int", "round", "math.floor") and len(v.args) == 1
                             and " ".join(unparse(v.args[0]).split()) == " ".join(unparse(t).split()))
                        probs = [] if same else ["%s is overwritten with %s, not with the rounding of the same entry: the count can differ from "
                                                "the sum of the atom's bond orders" % (unparse(t), unparse(v)[:50])]
                    elif isinstance(t, ast.Attribute) and t.attr == field and f.name != "__init__":
                        probs = ["the bond-count list is rebound in %s" % f.name]
            elif isinstance(nd, ast.AugAssign) and isinstance(nd.target, ast.Subscript) and isinstance(nd.target.value, ast.Attribute) \
                    and nd.target.value.attr == field:
                probs = [] if isinstance(nd.op, (ast.Add, ast.Sub)) else ["bond count changed by %s" % type(nd.op).__name__]
                # ... and only in a bond mutator: a function that is handed the endpoint as a parameter.  (A sweep over the table of
                # directed bonds meets a ring bond twice -- it is filed under (a, b) and (b, a) -- so deltas applied there count it twice.)
                idx = nd.target.slice

                def endpoint(nm, depth=0):
                    """a parameter, or a local bound only to parameters (lo, hi = (b, a) if a > b else (a, b))"""
                    if nm in f.params:
                        return True
                    if depth > 2:
                        return False
                    srcs = []
                    for a_ in own_nodes(f.node):
                        if isinstance(a_, ast.Assign):
                            for t_ in a_.targets:
                                if any(isinstance(x, ast.Name) and x.id == nm for x in ast.walk(t_)):
                                    srcs.append(a_.value)
                        elif isinstance(a_, (ast.For, ast.With, ast.AugAssign, ast.NamedExpr, ast.comprehension)) and \
                                any(isinstance(x, ast.Name) and x.id == nm and isinstance(x.ctx, ast.Store) for x in ast.walk(a_.target if hasattr(a_, "target") else a_)):
                            return False
                    return bool(srcs) and all(all(isinstance(x, (ast.Name, ast.Tuple, ast.IfExp, ast.Compare, ast.Load, ast.cmpop, ast.expr_context))
                                                  and (not isinstance(x, ast.Name) or endpoint(x.id, depth + 1)) for x in ast.walk(v_)) for v_ in srcs)
                if not (isinstance(idx, ast.Name) and endpoint(idx.id)):
                    probs.append("bond count changed by a delta at %s outside a bond mutator that is given the bond's endpoints as parameters "
                                 "(%s): a ring bond, stored once per direction, is counted twice by a sweep over the bonds" % (unparse(idx)[:30], f.name))
            elif isinstance(nd, ast.Call) and isinstance(nd.func, ast.Attribute) and isinstance(nd.func.value, ast.Attribute) \
                    and nd.func.value.attr == field and nd.func.attr not in ("copy", "index", "count", "__len__"):
                ok = nd.func.attr == "append" and nd.args and isinstance(nd.args[0], ast.Constant) and nd.args[0].value == 0
                probs = [] if ok else ["%s.%s(...) in %s" % (field, nd.func.attr, f.name)]
            if probs is None:
                continue
            n += 1
            rep.ob(RULE, not probs, nd, f, construct=unparse(nd)[:70], how="append(0) / += delta / rounding of the same entry",
                   witness="; ".join(probs) or None, nontrivial=True, key="bond-count-writer/%s/%s" % (f.name, "ok" if not probs else "bad"))
    if n < 4:
        rep.floor_failures.append("only %d writers of the bond-count list found (expected >= 4)" % n)


def check_ring_slot_pairing(ctx, rep, RULE):
    """Ring bonds are placed before the chain bonds of an atom, in the order the rings are formed: the position handed to
    add_ring_bond for each endpoint is a per-atom counter X[i], and that counter advances exactly when a ring bond is really
    inserted at the atom -- the two `X[i] += 1` sit in the same straight-line block as the add_ring_bond call, after it, and
    no counter advances anywhere else (a ring request that only raises an existing bond's order inserts nothing)."""
    dec = ctx.api("decoder")
    n = 0
    for q in sorted(ctx.cg.region(dec)):
        g = ctx.db.funcs[q]
        calls = [c for c in own_nodes(g.node) if isinstance(c, ast.Call) and isinstance(c.func, ast.Attribute) and c.func.attr == "add_ring_bond"]
        for c in calls:
            kw = {k.arg: k.value for k in c.keywords}
            ap, bp = kw.get("a_pos"), kw.get("b_pos")
            if not (isinstance(ap, ast.Subscript) and isinstance(bp, ast.Subscript) and isinstance(ap.value, ast.Name)
                    and isinstance(bp.value, ast.Name) and ap.value.id == bp.value.id):
                continue
            X = ap.value.id
            n += 1
            # the block (statement list) that holds the call statement
            blocks = []
            for nd in [g.node] + list(own_nodes(g.node)):
                for fld in ("body", "orelse", "finalbody"):
                    b = getattr(nd, fld, None)
                    if isinstance(b, list) and b and isinstance(b[0], ast.stmt):
                        blocks.append(b)
                for h in getattr(nd, "handlers", []) or []:
                    blocks.append(h.body)
            home = [b for b in blocks if any(any(x is c for x in ast.walk(st)) and not isinstance(st, (ast.If, ast.For, ast.While, ast.Try, ast.With))
                                              for st in b)]
            probs = []

            def incs(block, after=None):
                out = []
                seen_call = after is None
                for st in block:
                    if after is not None and any(x is after for x in ast.walk(st)):
                        seen_call = True
                        continue
                    if seen_call and isinstance(st, ast.AugAssign) and isinstance(st.op, ast.Add) and isinstance(st.target, ast.Subscript) \
                            and isinstance(st.target.value, ast.Name) and st.target.value.id == X \
                            and isinstance(st.value, ast.Constant) and st.value.value == 1:
                        out.append(unparse(st.target.slice))
                return out
            if len(home) != 1:
                probs.append("the add_ring_bond call is not a plain statement of one block")
            else:
                got = sorted(incs(home[0], c))
                want = sorted([unparse(ap.slice), unparse(bp.slice)])
                if got != want:
                    probs.append("after inserting the ring bond the slot counters advanced are %s, expected %s[%s] and %s[%s] once each"
                                 % (got or "none", X, want[0], X, want[1]))
            # no counter advances in a block without an insertion
            for b in blocks:
                if home and b is home[0]:
                    continue
                stray = [st for st in b if isinstance(st, ast.AugAssign) and isinstance(st.target, ast.Subscript)
                         and isinstance(st.target.value, ast.Name) and st.target.value.id == X]
                if stray and not any(isinstance(x, ast.Call) and isinstance(x.func, ast.Attribute) and x.func.attr == "add_ring_bond"
                                     for st in b for x in ast.walk(st) if not isinstance(st, (ast.If, ast.For, ast.While, ast.Try))):
                    probs.append("%s advances on a path that inserts no ring bond (%s): later ring bonds of the atom are placed one slot "
                                 "too far -- behind a chain bond" % (X, unparse(stray[0])))
            rep.ob(RULE, not probs, c, g, construct="ring slot counter %s around add_ring_bond" % X,
                   how="X[a] += 1 and X[b] += 1 exactly with the insertion, nowhere else", witness="; ".join(probs) or None,
                   nontrivial=True, key="ring-slots/%s" % ("ok" if not probs else "unpaired"))
    if not n:
        rep.note("ring bonds are not placed through per-atom slot counters: placement order not decided")
