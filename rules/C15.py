"""C15 — label / one-hot encodings are exact inverses of their decoders (clause level).

U1 both conversion functions validate enc_type against their literal tuple on every path to a result
U2 vocabulary look-ups are plain subscripts on the caller's vocabulary (a missing symbol raises); no
   .get-with-default, no positional use of dict order; a dot without a "." entry raises
U3 ragged input: per vector, the divisibility test dominates the reshape; row width is len(vocab); the
   number of rows is computed from that vector
U4 the batch functions apply the per-string functions element-wise, in order, forwarding vocabulary and pad
U5 padding: count == max(0, pad_to_len - len_selfies(s)), literal "[nop]", appended after the symbols
U6 one-hot rows: a fresh row of len(vocab) zeros per symbol and exactly one store of 1 at the label index
Not decided: the element-wise inverse equalities themselves.
"""
import ast

from sa import AnalysisError
from sa.db import own_nodes, unparse
from sa.flow import Forward
from sa.lin import Lin, ge, le, eq
from sa.sym import Engine, Hooks, Num, Con, Tup, Unk, Str, vkey
from spec import tables as SPEC

REGISTER = True
META = {
    "explanation": "Dominance dataflow (validation before result), def-use classification of the vocabulary parameters, "
                   "symbolic evaluation of the padded string (count and literal) and polynomial normalisation of the reshape "
                   "slices decide the error discipline, forwarding and padding arithmetic of the four encoding functions.",
    "trusted_base": ["builtin effect table", "Fourier-Motzkin entailment"],
    "assumptions": ["vocabularies are dicts as annotated"],
    "level_text": "Static structural/semantic checks of error discipline, forwarding and padding arithmetic on all paths.",
    "level_note": "Clause-level; the inverse equalities themselves are value-level and not decided.",
    "technique": "dominance dataflow + def-use classification + symbolic string/padding summary",
}

EU = "selfies.utils.encoding_utils."


class Validated(Forward):
    """state: True once enc_type is known to be a member of a literal tuple"""

    def __init__(self, f, pname, ctx=None):
        super().__init__(f.node)
        self.f = f
        self.p = pname
        self.ctx = ctx
        self.literals = []
        self.bad_exits = []

    def join(self, a, b):
        return a and b

    def simple(self, st, state):
        # a validator helper:  _check(enc_type, ALLOWED)  where the helper is  `if <p0> not in <p1>: raise ...`  and nothing else
        if isinstance(st, ast.Expr) and isinstance(st.value, ast.Call) and self.ctx is not None and not st.value.keywords \
                and len(st.value.args) == 2 and isinstance(st.value.args[0], ast.Name) and st.value.args[0].id == self.p:
            site = {id(s_.node): s_ for s_ in self.ctx.cg.sites(self.f)}.get(id(st.value))
            if site is not None and len(site.callees) == 1:
                g = site.callees[0]
                body = [x for x in g.node.body if not (isinstance(x, ast.Expr) and isinstance(x.value, ast.Constant))]
                if g.module is self.f.module and g.cls is None and len(g.posparams) == 2 and len(body) == 1 and isinstance(body[0], ast.If) \
                        and not body[0].orelse and len(body[0].body) == 1 and isinstance(body[0].body[0], ast.Raise) \
                        and isinstance(body[0].test, ast.Compare) and len(body[0].test.ops) == 1 and isinstance(body[0].test.ops[0], ast.NotIn) \
                        and isinstance(body[0].test.left, ast.Name) and body[0].test.left.id == g.posparams[0] \
                        and isinstance(body[0].test.comparators[0], ast.Name) and body[0].test.comparators[0].id == g.posparams[1]:
                    a1 = st.value.args[1]
                    lit = None
                    if isinstance(a1, ast.Name):
                        lit = self._module_const(a1.id)
                    else:
                        try:
                            lit = tuple(ast.literal_eval(a1))
                        except Exception:
                            lit = None
                    if lit is not None:
                        self.literals.append((st.value, lit))
                        self.helper_raises = True
                        return True
        return state

    def test(self, expr, state):
        if isinstance(expr, ast.Compare) and len(expr.ops) == 1 and isinstance(expr.left, ast.Name) and expr.left.id == self.p \
                and isinstance(expr.comparators[0], (ast.Tuple, ast.List, ast.Set, ast.Name)):
            cmp = expr.comparators[0]
            if isinstance(cmp, ast.Name):
                # a module-level immutable constant (tuple / frozenset of literals), folded from its initialiser
                lit = self._module_const(cmp.id)
                if lit is None:
                    return state, state
            else:
                try:
                    lit = tuple(ast.literal_eval(cmp))
                except Exception:
                    return state, state
            self.literals.append((expr, lit))
            if isinstance(expr.ops[0], ast.NotIn):
                return state, True
            if isinstance(expr.ops[0], ast.In):
                return True, state
        if isinstance(expr, ast.Compare) and len(expr.ops) == 1 and isinstance(expr.left, ast.Name) and expr.left.id == self.p \
                and isinstance(expr.ops[0], ast.Eq) and isinstance(expr.comparators[0], ast.Constant):
            self.eq_lits = getattr(self, "eq_lits", [])
            self.eq_lits.append((expr, expr.comparators[0].value))
            return True, state
        return state, state

    def _module_const(self, name):
        if self.ctx is None:
            return None
        local = {n.id for n in own_nodes(self.f.node) if isinstance(n, ast.Name) and isinstance(n.ctx, ast.Store)}
        if name in local or name in self.f.params:
            return None
        try:
            v = self.ctx.fold.global_value(self.f.module.name, name)
        except Exception:
            return None
        if isinstance(v, (tuple, frozenset)) and all(isinstance(x, str) for x in v):
            return tuple(v)
        return None

    def exit(self, kind, node, state):
        if kind in ("return", "end") and not state:
            self.bad_exits.append(node)


def poly(e, env=None):
    """normalise an integer expression over names to {monomial(tuple of names): coef}"""
    if isinstance(e, ast.Constant) and isinstance(e.value, int):
        return {(): e.value}
    if isinstance(e, ast.Name):
        if env and e.id in env:
            return dict(env[e.id])
        return {(e.id,): 1}
    if isinstance(e, ast.Call) and unparse(e.func) == "len" and len(e.args) == 1:
        return {("len(%s)" % unparse(e.args[0]),): 1}
    if isinstance(e, ast.BinOp):
        a, b = poly(e.left, env), poly(e.right, env)
        if a is None or b is None:
            return None
        if isinstance(e.op, (ast.Add, ast.Sub)):
            out = dict(a)
            for k, v in b.items():
                out[k] = out.get(k, 0) + (v if isinstance(e.op, ast.Add) else -v)
            return {k: v for k, v in out.items() if v}
        if isinstance(e.op, ast.Mult):
            out = {}
            for k1, v1 in a.items():
                for k2, v2 in b.items():
                    k = tuple(sorted(k1 + k2))
                    out[k] = out.get(k, 0) + v1 * v2
            return {k: v for k, v in out.items() if v}
    return None


def check_recovered_string(ctx, rep, RULE="U7"):
    """encoding_to_selfies returns the concatenation of the vocabulary symbol of EVERY position, in order and unmodified:
    its return value is ``"".join(<vocab[i] for every i>)`` -- not cut, stripped, filtered or otherwise edited (a padding
    symbol in the middle of a string is a symbol like any other; C13 relies on this for the padded round trip)"""
    from rules.shared import resolve_local
    f = ctx.fn(EU + "encoding_to_selfies")
    vocab = "vocab_itos" if "vocab_itos" in f.params else (f.posparams[1] if len(f.posparams) > 1 else None)
    rets = [r for r in own_nodes(f.node) if isinstance(r, ast.Return) and r.value is not None]
    probs = []
    if not rets or vocab is None:
        probs.append("no return value / vocabulary parameter")
    for r in rets:
        e = resolve_local(f, r.value)
        if not (isinstance(e, ast.Call) and isinstance(e.func, ast.Attribute) and e.func.attr == "join" and isinstance(e.func.value, ast.Constant)
                and e.func.value.value == "" and len(e.args) == 1):
            probs.append("the returned string is %s, not the plain concatenation \"\".join(...) of the symbols" % unparse(r.value)[:50])
            continue
        x = resolve_local(f, e.args[0])
        if isinstance(x, (ast.ListComp, ast.GeneratorExp)):
            g = x.generators
            if len(g) != 1 or g[0].ifs:
                probs.append("symbols are filtered before being joined: positions are dropped")
            elif not (isinstance(x.elt, ast.Subscript) and isinstance(x.elt.value, ast.Name) and x.elt.value.id == vocab):
                probs.append("joined elements are not vocabulary look-ups %s[i]" % vocab)
        elif isinstance(x, ast.Call) and unparse(x.func) == "map" and len(x.args) == 2 and unparse(x.args[0]) in ("%s.__getitem__" % vocab, "%s.get" % vocab):
            pass
        elif isinstance(x, ast.Name):
            # a list filled by an append loop: every append adds a vocabulary look-up, unconditionally
            apps = [c for c in own_nodes(f.node) if isinstance(c, ast.Call) and isinstance(c.func, ast.Attribute) and c.func.attr == "append"
                    and isinstance(c.func.value, ast.Name) and c.func.value.id == x.id]
            if not apps or not all(c.args and isinstance(c.args[0], ast.Subscript) and isinstance(c.args[0].value, ast.Name)
                                   and c.args[0].value.id == vocab for c in apps):
                probs.append("joined list %s is not made of vocabulary look-ups" % x.id)
        else:
            probs.append("joined value %s is not a look-up of every position" % unparse(x)[:40])
    rep.ob(RULE, not probs, rets[0] if rets else f.node, f, construct="string recovered by encoding_to_selfies",
           how="\"\".join of vocab[i] for every position i, returned unmodified", witness="; ".join(sorted(set(probs))) or None,
           nontrivial=True, key="recovered-string/" + ("ok" if not probs else "edited"))


def check_padding(ctx, rep, RULE="U5"):
    f = ctx.fn(EU + "selfies_to_encoding")
    ls = ctx.fn("selfies.utils.selfies_utils.len_selfies")
    sp = ctx.fn("selfies.utils.selfies_utils.split_selfies")
    sparam = f.posparams[0]
    pad = "pad_to_len" if "pad_to_len" in f.params else None
    if pad is None:
        raise AnalysisError("selfies_to_encoding has no pad_to_len parameter")

    class H(Hooks):
        def __init__(self):
            self.tok = []

        def on_call(self, eng, fr, node, callee, args, kwargs, st):
            if callee is sp:            # in selfies_to_encoding itself or in a helper of it that the engine inlined
                self.tok.append((node, args[0] if args else None, st))
                return Unk(("tokens", next(eng.counter)))
            return None
    h = H()
    eng = Engine(ctx, h, opaque_funcs={ls.qual})
    P = Lin.var("pad")
    eng.run_function(f, {sparam: Unk(("input",)), pad: Num(P)})
    if not h.tok:
        raise AnalysisError("selfies_to_encoding does not tokenise through split_selfies")
    padded = plain = 0
    for node, v, st in h.tok:
        probs = []
        L = None
        for t in _terms(st):
            if isinstance(t, tuple) and t and t[0] == "call" and t[1] == ls.qual:
                L = Lin.var(t)
        if isinstance(v, Unk) and v.term == ("input",):
            plain += 1
            if L is None or not st.entails(le(P, L)):
                probs.append("string is left unpadded although pad_to_len <= len_selfies(s) is not entailed")
            kind = "unpadded"
        elif isinstance(v, Str):
            padded += 1
            kind = "padded"
            parts = v.parts
            if len(parts) != 2 or parts[0] != ("sym", ("input",)) or parts[1][0] != "rep":
                probs.append("padding is not appended after the original symbols")
            else:
                _, lit, cnt = parts[1]
                if lit != SPEC.NOP:
                    probs.append("padding literal is %r, not '[nop]'" % lit)
                if L is None or not st.entails(eq(cnt, P - L)):
                    probs.append("padding count is not pad_to_len - len_selfies(s)")
                if L is not None and not st.entails(ge(P - L, 1)):
                    probs.append("padding applied although pad_to_len > len_selfies(s) is not entailed")
        else:
            kind = "other"
            probs.append("tokenised string is neither the input nor the input followed by padding")
        rep.ob(RULE, not probs, node, f, construct="%s string handed to the tokenizer" % kind,
               how="count == max(0, pad_to_len - len_selfies(s)), literal '[nop]', appended at the end",
               witness="; ".join(probs) or None, nontrivial=True, key="pad/%s/%s" % (kind, "ok" if not probs else probs[0][:40]))
    if not padded:
        rep.ob(RULE, False, f.node, f, construct="padding path",
               witness="no path pads the string by appending '[nop]' symbols before it is encoded (padding is produced some other way)",
               key="pad/missing", nontrivial=True)
    if not plain:
        rep.ob(RULE, False, f.node, f, construct="no-padding path", witness="the string is always modified before encoding", key="pad/always")


def _terms(st):
    out = set()
    for l, _ in st.lin:
        out |= l.terms()
    for e in st.neq:
        out |= e.terms()
    return out


def vocab_uses(ctx, rep, f, pname, allow_in, _depth=0):
    parents = {}
    for n in own_nodes(f.node):
        for c in ast.iter_child_nodes(n):
            parents[id(c)] = n
    n_sub = 0
    for n in own_nodes(f.node):
        if isinstance(n, ast.Name) and n.id == pname and isinstance(n.ctx, ast.Load):
            p = parents.get(id(n))
            ok, why = False, None
            if isinstance(p, ast.Subscript) and p.value is n and isinstance(p.ctx, ast.Load) and not isinstance(p.slice, ast.Slice):
                ok = True
                n_sub += 1
            elif isinstance(p, ast.Call) and unparse(p.func) == "len" and p.args == [n]:
                ok = True
            elif isinstance(p, ast.Compare) and n in p.comparators and isinstance(p.ops[0], (ast.In, ast.NotIn)) and allow_in:
                ok = True
            elif isinstance(p, ast.Call) and n in p.args or isinstance(p, ast.keyword):
                call = p if isinstance(p, ast.Call) else parents.get(id(p))
                s = {id(x.node): x for x in ctx.cg.sites(f)}.get(id(call))
                ok = bool(s and s.callees)     # forwarded to a per-string function (checked by U4)
                if ok and _depth < 2:
                    # ... or to a private helper of this module, whose uses of the vocabulary count as this function's
                    for g in s.callees:
                        if g.module is f.module and g.cls is None and g.name.startswith("_"):
                            pos = g.posparams
                            gp = None
                            if isinstance(p, ast.Call) and p.args.index(n) < len(pos):
                                gp = pos[p.args.index(n)]
                            elif isinstance(p, ast.keyword) and p.arg in g.params:
                                gp = p.arg
                            if gp is not None:
                                n_sub += vocab_uses(ctx, rep, g, gp, allow_in, _depth + 1)
                if not ok:
                    why = "vocabulary is handed to %s" % unparse(call.func)
            elif isinstance(p, ast.Attribute):
                why = "vocabulary accessed through .%s (a default / positional access hides missing symbols or depends on dict order)" % p.attr
            else:
                why = "vocabulary used in %s" % unparse(p)[:50]
            rep.ob("U2", ok, n, f, construct="use of %s in %s" % (pname, unparse(p)[:40] if p is not None else "?"),
                   how="plain subscript / len / membership / forwarded", witness=why, nontrivial=not ok)
    return n_sub


def _row_helper_form(ctx, rep, s2e, builders):
    """U6 when the row is built by a helper that returns it: ``[_row(index, size=len(vocab)) for index in labels]`` (or the
    same call in a for loop).  The helper's body must be: fresh ``[0] * W``, exactly one store ``row[I] = 1``, return row --
    with I and W parameters -- and at the call I is the loop variable and W is len(<vocabulary>)."""
    done = False
    for bf, vname in builders:
        for site in ctx.cg.sites(bf):
            if not isinstance(site.node, ast.Call) or len(site.callees) != 1:
                continue
            h = site.callees[0]
            if h.module is not s2e.module or h.cls is not None or h is bf:
                continue
            body = [st for st in h.node.body if not (isinstance(st, ast.Expr) and isinstance(st.value, ast.Constant))]
            if len(body) != 3 or not isinstance(body[0], ast.Assign) or not isinstance(body[2], ast.Return):
                continue
            a0 = body[0]
            if not (isinstance(a0.targets[0], ast.Name) and isinstance(a0.value, ast.BinOp) and isinstance(a0.value.op, ast.Mult)):
                continue
            r = a0.targets[0].id
            lst, cnt = a0.value.left, a0.value.right
            if isinstance(cnt, ast.List):
                lst, cnt = cnt, lst
            probs = []
            if not (isinstance(lst, ast.List) and len(lst.elts) == 1 and isinstance(lst.elts[0], ast.Constant) and lst.elts[0].value == 0):
                probs.append("row is not initialised with zeros")
            st1 = body[1]
            if not (isinstance(st1, ast.Assign) and isinstance(st1.targets[0], ast.Subscript) and isinstance(st1.targets[0].value, ast.Name)
                    and st1.targets[0].value.id == r and isinstance(st1.value, ast.Constant) and st1.value.value == 1
                    and isinstance(st1.targets[0].slice, ast.Name) and st1.targets[0].slice.id in h.params):
                probs.append("not exactly one store of 1 at the index parameter")
                ip = None
            else:
                ip = st1.targets[0].slice.id
            if not (isinstance(body[2].value, ast.Name) and body[2].value.id == r):
                probs.append("the helper does not return the row it built")
            # bind the call
            bound = {}
            for i, a in enumerate(site.node.args):
                if i < len(h.posparams):
                    bound[h.posparams[i]] = a
            for kw in site.node.keywords:
                if kw.arg in h.params:
                    bound[kw.arg] = kw.value
            w_ok = False
            if isinstance(cnt, ast.Name) and cnt.id in bound:
                w_ok = unparse(bound[cnt.id]) == "len(%s)" % vname
            elif isinstance(cnt, ast.Call) and unparse(cnt.func) == "len" and isinstance(cnt.args[0], ast.Name) and cnt.args[0].id in bound:
                w_ok = unparse(bound[cnt.args[0].id]) == vname
            if not w_ok:
                probs.append("row width is not len(vocab)")
            # the index argument is the variable of the loop / comprehension that contains the call
            iv = None
            for n in own_nodes(bf.node):
                if isinstance(n, (ast.ListComp, ast.GeneratorExp)) and any(x is site.node for x in ast.walk(n.elt)) and len(n.generators) == 1 \
                        and isinstance(n.generators[0].target, ast.Name):
                    iv = n.generators[0].target.id
                elif isinstance(n, ast.For) and any(x is site.node for st in n.body for x in ast.walk(st)) and isinstance(n.target, ast.Name):
                    iv = n.target.id
            if ip is not None and not (ip in bound and isinstance(bound[ip], ast.Name) and bound[ip].id == iv):
                probs.append("the 1 is not stored at the label of the symbol the row belongs to")
            rep.ob("U6", not probs, site.node, bf, construct="one-hot row built by %s" % h.name, how="fresh [0]*len(vocab) per symbol, one store of 1 at the label index",
                   witness="; ".join(probs) or None, nontrivial=True, key="row/" + ("ok" if not probs else probs[0][:40]))
            done = True
    return done


def run(ctx, rep):
    s2e = ctx.fn(EU + "selfies_to_encoding")
    e2s = ctx.fn(EU + "encoding_to_selfies")
    b2h = ctx.fn(EU + "batch_selfies_to_flat_hot")
    h2b = ctx.fn(EU + "batch_flat_hot_to_selfies")
    # ---- U1
    for f, want in ((s2e, {"label", "one_hot", "both"}), (e2s, {"label", "one_hot"})):
        if "enc_type" not in f.params:
            raise AnalysisError("%s has no enc_type parameter" % f.qual)
        v = Validated(f, "enc_type", ctx)
        v.run(False)
        if not v.literals and getattr(v, "eq_lits", None):
            # validated by an if / elif chain of equality tests that ends in the raise: the accepted values are the tested ones
            v.literals.append((v.eq_lits[0][0], tuple(sorted({lit for _n, lit in v.eq_lits if isinstance(lit, str)}))))
        ok = not v.bad_exits and bool(v.literals)
        rep.ob("U1", ok, v.bad_exits[0] if v.bad_exits else f.node, f, construct="enc_type validation of %s" % f.name,
               how="every path to a result passes the membership test", nontrivial=True, key="%s/dominates" % f.name,
               witness=None if ok else "a result can be returned without enc_type having been validated")
        for node, lit in v.literals:
            good = set(lit) == want
            rep.ob("U1", good, node, f, construct="accepted enc_type values %s" % (lit,), how="equals %s" % sorted(want),
                   witness=None if good else "accepted values %s differ from the documented %s" % (sorted(lit), sorted(want)),
                   key="%s/literal" % f.name)
        # the raise on failure
        raises = [n for n in own_nodes(f.node) if isinstance(n, ast.Raise)] or ([f.node] if getattr(v, "helper_raises", False) else [])
        rep.ob("U1", bool(raises), f.node, f, construct="bad enc_type raises", how="raise present", key="%s/raises" % f.name,
               witness=None if raises else "no raise for a bad enc_type")
    # ---- U2
    n1 = vocab_uses(ctx, rep, s2e, "vocab_stoi", True)
    n2 = vocab_uses(ctx, rep, e2s, "vocab_itos", False)
    if n1 < 1 or n2 < 1:
        rep.ob("U2", False, s2e.node if n1 < 1 else e2s.node, s2e if n1 < 1 else e2s, construct="vocabulary look-up",
               witness="symbols are not looked up by a plain subscript of the caller's vocabulary", key="no-subscript")
    vocab_uses(ctx, rep, b2h, "vocab_stoi", False)
    vocab_uses(ctx, rep, h2b, "vocab_itos", False)
    # U2b: a failed look-up is not swallowed: no vocabulary subscript sits in a `try` whose KeyError (or wider) handler can fall
    # through without raising
    for f_, vn in ((s2e, "vocab_stoi"), (e2s, "vocab_itos")):
        for tr in [n for n in own_nodes(f_.node) if isinstance(n, ast.Try)]:
            subs = [x for b_ in tr.body for x in ast.walk(b_) if isinstance(x, ast.Subscript) and isinstance(x.value, ast.Name) and x.value.id == vn
                    and isinstance(x.ctx, ast.Load)]
            if not subs:
                continue
            for hd in tr.handlers:
                names = set()
                if hd.type is None:
                    names = {"BaseException"}
                else:
                    for t_ in (hd.type.elts if isinstance(hd.type, ast.Tuple) else [hd.type]):
                        names.add(unparse(t_).split(".")[-1])
                if not names & {"KeyError", "LookupError", "Exception", "BaseException"}:
                    continue

                class Falls(Forward):
                    def join(self, a, b):
                        return a or b
                fl = Falls(ast.FunctionDef(name="h", args=None, body=hd.body, decorator_list=[], lineno=hd.lineno, col_offset=0))
                falls_through = fl.block(hd.body, True, None) is not None
                rep.ob("U2", not falls_through, hd, f_, construct="handler around the vocabulary look-up %s" % unparse(subs[0])[:40],
                       how="every path through the handler raises", nontrivial=True, key="%s/lookup-error-swallowed" % f_.name,
                       witness=None if not falls_through else "the KeyError of a symbol that is not in the vocabulary is caught and, on some path, "
                       "not re-raised: the symbol is silently dropped from the encoding")
    # dot without "." entry raises
    dot = [n for n in own_nodes(s2e.node) if isinstance(n, ast.If) and '"."' in unparse(n.test).replace("'", '"')
           and any(isinstance(x, ast.Raise) for x in ast.walk(n))]
    rep.ob("U2", bool(dot), dot[0] if dot else s2e.node, s2e, construct="dot without '.' entry",
           how="raises", witness=None if dot else "a '.' without a vocabulary entry does not raise explicitly (falls to the subscript)",
           key="dot") if dot else None
    # ---- U5
    check_padding(ctx, rep, "U5")
    # ---- U6 one-hot rows
    # the row-building loop lives in selfies_to_encoding or in a private same-module helper it hands the vocabulary to
    builders = [(s2e, "vocab_stoi")]
    for site in ctx.cg.sites(s2e):
        for g in site.callees:
            if g.module is s2e.module and g.cls is None and g not in (s2e, e2s, b2h, h2b) and isinstance(site.node, ast.Call):
                for i, a in enumerate(site.node.args):
                    if isinstance(a, ast.Name) and a.id == "vocab_stoi" and i < len(g.posparams):
                        builders.append((g, g.posparams[i]))
                for kw in site.node.keywords:
                    if isinstance(kw.value, ast.Name) and kw.value.id == "vocab_stoi" and kw.arg in g.params:
                        builders.append((g, kw.arg))
    found = False
    for bf, vname in builders:
      for lp in [n for n in own_nodes(bf.node) if isinstance(n, ast.For)]:
        if not isinstance(lp.target, ast.Name):
            continue
        iv = lp.target.id
        rows = {}
        for st in lp.body:
            if isinstance(st, ast.Assign) and isinstance(st.targets[0], ast.Name) and isinstance(st.value, ast.BinOp) \
                    and isinstance(st.value.op, ast.Mult):
                rows[st.targets[0].id] = st
        for r, st in rows.items():
            found = True
            probs = []
            lst, cnt = st.value.left, st.value.right
            if isinstance(cnt, ast.List):
                lst, cnt = cnt, lst
            if not (isinstance(lst, ast.List) and len(lst.elts) == 1 and isinstance(lst.elts[0], ast.Constant) and lst.elts[0].value == 0):
                probs.append("row is not initialised with zeros")
            if unparse(cnt) != "len(%s)" % vname:
                probs.append("row width is not len(vocab)")
            stores = [x for x in lp.body if isinstance(x, ast.Assign) and isinstance(x.targets[0], ast.Subscript)
                      and isinstance(x.targets[0].value, ast.Name) and x.targets[0].value.id == r]
            if len(stores) != 1 or unparse(stores[0].targets[0].slice) != iv or not (isinstance(stores[0].value, ast.Constant) and stores[0].value.value == 1):
                probs.append("not exactly one store of 1 at the label index")
            apps = [x for x in ast.walk(lp) if isinstance(x, ast.Call) and isinstance(x.func, ast.Attribute) and x.func.attr == "append"
                    and x.args and isinstance(x.args[0], ast.Name) and x.args[0].id == r]
            if len(apps) != 1:
                probs.append("row is not appended exactly once")
            rep.ob("U6", not probs, st, bf, construct="one-hot row %s" % r, how="fresh [0]*len(vocab) per symbol, one store of 1 at the label index",
                   witness="; ".join(probs) or None, nontrivial=True, key="row/" + ("ok" if not probs else probs[0][:40]))
    if not found:
        found = _row_helper_form(ctx, rep, s2e, builders)
    if not found:
        rep.ob("U6", False, s2e.node, s2e, construct="one-hot rows",
               witness="one-hot rows are not built as a fresh zero row per symbol (e.g. shared/cached row objects)", key="row/missing", nontrivial=True)
    # ---- U4 element-wise application
    for f, per, vparam, extra in ((b2h, s2e, "vocab_stoi", ["pad_to_len"]), (h2b, e2s, "vocab_itos", [])):
        batch = f.posparams[0]
        loops = [n for n in own_nodes(f.node) if isinstance(n, ast.For) and isinstance(n.iter, ast.Name) and n.iter.id == batch]
        probs = []
        comp = None
        if not loops:
            # the comprehension form:  return [<one application of the per-string function> for x in batch]  -- one output entry
            # per element by construction (no filter on the outer generator)
            for r in own_nodes(f.node):
                if isinstance(r, ast.Return) and isinstance(r.value, ast.ListComp) and r.value.generators \
                        and isinstance(r.value.generators[0].iter, ast.Name) and r.value.generators[0].iter.id == batch \
                        and isinstance(r.value.generators[0].target, ast.Name) and not r.value.generators[0].ifs:
                    comp = r.value
        if comp is not None:
            calls = [c for c in ast.walk(comp) if isinstance(c, ast.Call) and unparse(c.func) == per.name]
            if len(calls) != 1:
                probs.append("per-string function %s is not applied exactly once per element" % per.name)
            else:
                c = calls[0]
                bound = {}
                for i, a in enumerate(c.args):
                    bound[per.posparams[i]] = a
                for k in c.keywords:
                    bound[k.arg] = k.value
                if unparse(bound.get(per.posparams[0])) != comp.generators[0].target.id:
                    probs.append("the per-string function is not applied to the element itself")
                if unparse(bound.get(vparam)) != vparam:
                    probs.append("vocabulary is not forwarded unchanged")
                for x in extra:
                    if unparse(bound.get(x)) != x:
                        probs.append("%s is not forwarded unchanged" % x)
                et = bound.get("enc_type")
                if not (isinstance(et, ast.Constant) and et.value == "one_hot"):
                    probs.append("enc_type is not 'one_hot'")
        elif len(loops) != 1 or not isinstance(loops[0].target, ast.Name):
            probs.append("no single plain loop over the batch")
        else:
            lp = loops[0]
            calls = [c for c in ast.walk(lp) if isinstance(c, ast.Call) and unparse(c.func) == per.name]
            if len(calls) != 1:
                probs.append("per-string function %s is not applied exactly once per element" % per.name)
            else:
                c = calls[0]
                bound = {}
                for i, a in enumerate(c.args):
                    bound[per.posparams[i]] = a
                for k in c.keywords:
                    bound[k.arg] = k.value
                if unparse(bound.get(vparam)) != vparam:
                    probs.append("vocabulary is not forwarded unchanged")
                for x in extra:
                    if unparse(bound.get(x)) != x:
                        probs.append("%s is not forwarded unchanged" % x)
                et = bound.get("enc_type")
                if not (isinstance(et, ast.Constant) and et.value == "one_hot"):
                    probs.append("enc_type is not 'one_hot'")
            outs = [c for c in ast.walk(lp) if isinstance(c, ast.Call) and isinstance(c.func, ast.Attribute) and c.func.attr == "append"
                    and isinstance(c.func.value, ast.Name)]
            rets = [r for r in own_nodes(f.node) if isinstance(r, ast.Return) and isinstance(r.value, ast.Name)]
            if not rets or not any(o.func.value.id == rets[0].value.id for o in outs):
                probs.append("results are not appended, in order, to the returned list")
            else:
                # ... for EVERY element: the append is a statement of the loop body itself (not under a condition), and no
                # element leaves the iteration early (continue / break at this loop's level) -- raising is the only other exit
                app = [o for o in outs if o.func.value.id == rets[0].value.id][0]
                if not any(isinstance(st_, ast.Expr) and st_.value is app for st_ in lp.body):
                    probs.append("the result is appended only under a condition: some elements produce no output entry")

                def jumps(stmts):
                    for st_ in stmts:
                        if isinstance(st_, (ast.Continue, ast.Break)):
                            yield st_
                        elif isinstance(st_, (ast.For, ast.While, ast.FunctionDef, ast.AsyncFunctionDef, ast.ClassDef)):
                            yield from jumps(getattr(st_, "orelse", []) or [])
                        else:
                            for fld in ("body", "orelse", "finalbody"):
                                yield from jumps(getattr(st_, fld, []) or [])
                            for h_ in getattr(st_, "handlers", []) or []:
                                yield from jumps(h_.body)
                if any(True for _ in jumps(lp.body)):
                    probs.append("an element can leave the iteration early (continue / break): the output has fewer entries than the input")
        rep.ob("U4", not probs, f.node, f, construct="element-wise application in %s" % f.name,
               how="one call of %s per element, vocabulary/pad forwarded unchanged, results in order" % per.name,
               witness="; ".join(probs) or None, nontrivial=True, key="%s/%s" % (f.name, "ok" if not probs else probs[0][:40]))
    # ---- U3 reshape
    batch = h2b.posparams[0]
    loops = [n for n in own_nodes(h2b.node) if isinstance(n, ast.For) and isinstance(n.iter, ast.Name) and n.iter.id == batch]
    probs = []
    def u3_block(lp, v, pre, vocab="vocab_itos", scope=None):
        probs = []
        env = dict(pre)
        inside = {}
        LV = "len(%s)" % vocab
        for st in ast.walk(lp):
            if isinstance(st, ast.Assign) and isinstance(st.targets[0], ast.Name):
                inside[st.targets[0].id] = st
        for st in (own_nodes(h2b.node) if scope is None else ast.walk(scope)):
            if isinstance(st, ast.Assign) and isinstance(st.targets[0], ast.Name) and unparse(st.value) == LV:
                env[st.targets[0].id] = {(LV,): 1}
        VL = {("len(%s)" % v,): 1}
        for nm_, st in inside.items():
            # a name bound (once, in the loop body itself) to the current vector's length
            if unparse(st.value) == "len(%s)" % v and any(st is x for x in lp.body) \
                    and sum(1 for x in ast.walk(lp) if isinstance(x, ast.Name) and x.id == nm_ and isinstance(x.ctx, ast.Store)) == 1:
                env[nm_] = dict(VL)
        W = {(LV,): 1}
        # named slice bounds: a local bound once, in the same block as (and before) the statement that uses it, to an
        # integer expression over the names already understood
        def stores(nm_):
            return sum(1 for x in ast.walk(lp) if isinstance(x, ast.Name) and x.id == nm_ and isinstance(x.ctx, ast.Store))
        for blk in [n_.body for n_ in ast.walk(lp) if isinstance(n_, ast.For)]:
            for i_, st in enumerate(blk):
                if isinstance(st, ast.Assign) and len(st.targets) == 1 and isinstance(st.targets[0], ast.Name) \
                        and st.targets[0].id not in env and stores(st.targets[0].id) == 1:
                    nm_ = st.targets[0].id
                    uses = [x for x in ast.walk(lp) if isinstance(x, ast.Name) and x.id == nm_ and isinstance(x.ctx, ast.Load)]
                    later = [x for st2 in blk[i_ + 1:] for x in ast.walk(st2)]
                    if uses and all(any(u is x for x in later) for u in uses):
                        pv = poly(st.value, env)
                        if pv is not None and not isinstance(st.value, ast.Name):
                            env[nm_] = pv
        # divisibility test on this vector
        tests = [n for n in ast.walk(lp) if isinstance(n, ast.If) and any(isinstance(x, ast.Raise) for x in n.body)
                 and isinstance(n.test, ast.Compare) and isinstance(n.test.left, ast.BinOp) and isinstance(n.test.left.op, ast.Mod)]
        good_test = [t for t in tests if poly(t.test.left.left, env) == VL and poly(t.test.left.right, env) == W
                     and isinstance(t.test.ops[0], ast.NotEq) and unparse(t.test.comparators[0]) == "0"]
        if not good_test:
            probs.append("no per-vector test 'len(vector) % len(vocab) != 0 -> raise' inside the batch loop")
        # rows: a name bound to len(v) // W inside the loop
        rows = [nm for nm, st in inside.items() if isinstance(st.value, ast.BinOp) and isinstance(st.value.op, ast.FloorDiv)
                and poly(st.value.left, env) == VL and poly(st.value.right, env) == W]
        # ... or the rows are stepped through directly:  for start in range(0, len(vector), width): vector[start: start + width]
        stepped = [n for n in ast.walk(lp) if isinstance(n, ast.For) and n is not lp and isinstance(n.target, ast.Name)
                   and isinstance(n.iter, ast.Call) and unparse(n.iter.func) == "range" and len(n.iter.args) == 3 and not n.iter.keywords
                   and poly(n.iter.args[0], env) in ({}, {(): 0}) and poly(n.iter.args[1], env) == VL and poly(n.iter.args[2], env) == W]
        # ... also as a comprehension:  [vector[start: start + width] for start in range(0, len(vector), width)]
        comp_stepped = []
        for stx in lp.body:
            for c_ in ast.walk(stx):
                if isinstance(c_, (ast.ListComp, ast.GeneratorExp)) and len(c_.generators) == 1 and not c_.generators[0].ifs:
                    g_ = c_.generators[0]
                    if isinstance(g_.target, ast.Name) and isinstance(g_.iter, ast.Call) and unparse(g_.iter.func) == "range" and len(g_.iter.args) == 3 \
                            and not g_.iter.keywords and poly(g_.iter.args[0], env) in ({}, {(): 0}) and poly(g_.iter.args[1], env) == VL \
                            and poly(g_.iter.args[2], env) == W and isinstance(c_.elt, ast.Subscript) and isinstance(c_.elt.slice, ast.Slice) \
                            and isinstance(c_.elt.slice.lower, ast.Name) and c_.elt.slice.lower.id == g_.target.id \
                            and isinstance(c_.elt.value, ast.Name) and c_.elt.value.id == v:
                        comp_stepped.append(c_)
        if comp_stepped and not rows and not stepped:
            rows = ["<comprehension>"]
            inside["<comprehension>"] = next(stx for stx in lp.body if any(x is comp_stepped[0] for x in ast.walk(stx)))
        if not rows and not stepped:
            probs.append("the number of rows is not len(vector) // len(vocab) computed for the current vector")
        # slices
        sl = [n for n in ast.walk(lp) if isinstance(n, ast.Subscript) and isinstance(n.slice, ast.Slice) and isinstance(n.value, ast.Name)
              and n.value.id == v]
        okslice = False
        for s_ in sl:
            lo, hi = poly(s_.slice.lower, env) if s_.slice.lower is not None else {}, poly(s_.slice.upper, env) if s_.slice.upper is not None else None
            if lo is not None and hi is not None:
                diff = dict(hi)
                for k, c in lo.items():
                    diff[k] = diff.get(k, 0) - c
                diff = {k: c for k, c in diff.items() if c}
                if diff == W:
                    okslice = True
        if not okslice:
            probs.append("rows are not consecutive slices of width len(vocab)")
        # both are done for EVERY vector: straight-line statements of the loop body, not under another condition
        if good_test and not any(t is st for t in good_test for st in lp.body):
            probs.append("the divisibility test is not applied to every vector (it sits under another condition)")
        if rows and not any(inside[r] is st for r in rows for st in lp.body):
            probs.append("the number of rows is not recomputed for every vector")
        if stepped and not rows:
            if not any(st is x for st in stepped for x in lp.body):
                probs.append("the rows are not stepped through for every vector")
            elif not any(isinstance(s_.slice.lower, ast.Name) and s_.slice.lower.id == stepped[0].target.id
                         and any(x is s_ for x in ast.walk(stepped[0])) for s_ in sl):
                probs.append("the row slices do not start at the stepped positions")
        if good_test and sl:
            # the test must precede the reshape in the loop body
            order = [id(x) for x in ast.walk(lp)]
            if order.index(id(good_test[0])) > order.index(id(sl[0])):
                probs.append("divisibility test does not precede the reshape")
        return probs
    if len(loops) == 1 and isinstance(loops[0].target, ast.Name):
        lp = loops[0]
        v = lp.target.id
        probs = u3_block(lp, v, {})
        if probs:
            # the reshape may live in a helper that the loop body calls, unconditionally, with the vector and the width
            W_ = {("len(vocab_itos)",): 1}
            env0 = {}
            for st in own_nodes(h2b.node):
                if isinstance(st, ast.Assign) and isinstance(st.targets[0], ast.Name) and unparse(st.value) == "len(vocab_itos)":
                    env0[st.targets[0].id] = dict(W_)
            for st in lp.body:
                calls = [c for c in ast.walk(st) if isinstance(c, ast.Call)] if isinstance(st, (ast.Assign, ast.Expr)) else []
                for c in calls:
                    site = [s_ for s_ in ctx.cg.sites(h2b) if s_.node is c]
                    if not site or len(site[0].callees) != 1:
                        continue
                    g = site[0].callees[0]
                    if g.module is not h2b.module or g.cls is not None or c.keywords or len(c.args) != len(g.posparams):
                        continue
                    vpar = [g.posparams[i] for i, a_ in enumerate(c.args) if isinstance(a_, ast.Name) and a_.id == v]
                    wpar = [g.posparams[i] for i, a_ in enumerate(c.args) if poly(a_, env0) == W_]
                    # ... or with the vocabulary itself, whose length the helper takes
                    qpar = [g.posparams[i] for i, a_ in enumerate(c.args) if isinstance(a_, ast.Name) and a_.id == "vocab_itos"]
                    rebound = {x.id for x in ast.walk(g.node) if isinstance(x, ast.Name) and isinstance(x.ctx, ast.Store)}
                    body = [x for x in g.node.body if not (isinstance(x, ast.Expr) and isinstance(x.value, ast.Constant))]
                    if len(vpar) == 1 and vpar[0] not in rebound and len(wpar) + len(qpar) == 1 and (wpar + qpar)[0] not in rebound:
                        synth = ast.For(target=ast.Name(id=vpar[0], ctx=ast.Store()), iter=ast.Name(id=batch, ctx=ast.Load()), body=body, orelse=[])
                        if wpar:
                            p2 = u3_block(synth, vpar[0], {wpar[0]: dict(W_)})
                        else:
                            p2 = u3_block(synth, vpar[0], {}, vocab=qpar[0], scope=g.node)
                        if not p2:
                            probs = []
    else:
        probs.append("no single plain loop over the batch")
    rep.ob("U3", not probs, h2b.node, h2b, construct="reshape of flat one-hot vectors",
           how="per vector: divisibility test, rows = len // width, consecutive width-sized slices",
           witness="; ".join(probs) or None, nontrivial=True, key="reshape/" + ("ok" if not probs else probs[0][:40]))
    check_recovered_string(ctx, rep, "U7")
    rep.floor("U1", 4)
    rep.floor("U2", 4)
    rep.floor("U5", 2)
