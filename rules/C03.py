"""C03 — SMILES -> SELFIES -> SMILES preserves the molecule (clause level: encoder/decoder codec agreement).

R1 ring offset: the encoder emits Q = (index(closing atom) - index(opening atom)) - 1 at the closing atom, the
   decoder bonds the current atom to atom index(current) - (Q + 1): the composition is the identity on distances >= 1
R2 branch length: the encoder emits Q = len(branch symbols) - 1, the decoder derives Q + 1 symbols for the branch
R3 bond spelling: printing an order (1, 2, 3) and reading the printed prefix back gives the same order
R4 arity: the suffix printed after Ring/Branch is the number of index symbols that follow, which are exactly the
   symbols of Q; the decoder's tables map suffix L to "read L symbols"
R5 atoms are printed by the one atom printer that the decoder's writer uses
R11 a written number is the number read: in both atom readers, on every path where the digits of a capture group are parsed,
   the field that group feeds is (up to sign) the parsed number -- 'H0' is not one hydrogen, isotope 0 is not "absent"
R12 a number held is the number written: the atom printer omits isotope / H count / charge only where the field equals what
   the SMILES atom reader assigns to an unwritten field
R13 every parsed molecule is kekulised, or rejected, before it is translated (the rejection discipline of C05/K1)
R10 fragments keep the input order: the graph's roots container is an append-only list walked front to back
Not decided: that no atom or bond is dropped, merged or reordered for every spelling (parser / DFS behaviour).
"""
import ast

from sa import AnalysisError
from sa.db import own_nodes, unparse
from sa.lin import Lin, ge, le, eq
from sa.sym import Engine, Hooks, Num, Con, Tup, Obj, Unk, Str, vkey
from rules import decmodel
from rules.decmodel import num_of
from rules.C10 import format_templates

REGISTER = True
META = {
    "explanation": "The parameters the encoder writes into index symbols (ring distance, branch length) are extracted as "
                   "affine expressions at their call sites by the symbolic engine and composed with the decoder's use of the "
                   "same parameters (C02/T6): the composition is the identity. Bond spelling and arity agreement are checked "
                   "by folding / structural dataflow.",
    "trusted_base": ["decoder-side formulas established by C02 (T3/T6: target = max(0, m-(Q+1)), budget Q+1)",
                     "RINGBOND_DISTINCT (ring bonds join two different atoms; established by the parser fix F4)"],
    "assumptions": ["ring spans / branch lengths < 16^3"],
    "level_text": "Static inverse-pair check of the codec parameters shared by encoder and decoder, for all molecules.",
    "level_note": "Clause-level: codec agreement only. Graph preservation over all SMILES spellings (parser, traversal) is "
                  "value-level and not decided.",
    "technique": "affine summary extraction at call sites (abstract interpretation) + composition with the decoder's formulas + path-sensitive "
                 "abstract interpretation of the atom readers / printer (numbers read and written unchanged) + must-check-result dataflow (kekulised before translated)",
}


def run(ctx, rep):
    import re as _re
    shape = _re.compile(r"^\[\{\}[A-Za-z]+\{\}\]$")
    from rules.shared import fragment_printer, token_templates
    encf, frag = fragment_printer(ctx)
    templates = [(o, n, t, a) for o, n, t, a in token_templates(ctx, frag) if shape.match(t)]
    if len(templates) < 2:
        raise AnalysisError("ring / branch token templates not found in the fragment printer or its helpers")
    helpers = {o for o, _n, _t, _a in templates if o is not frag}
    gsi = ctx.fn("selfies.grammar_rules.get_selfies_from_index")

    class H(Hooks):
        def __init__(self):
            self.idx_calls = []

        def on_call(self, eng, fr, node, callee, args, kwargs, st):
            if callee is gsi and (fr.func is frag or fr.func in helpers) and fr.depth <= 1:
                t = ("Qsyms", next(eng.counter))
                self.idx_calls.append((node, args[0] if args else None, st, t))
                return Unk(t)
            if callee is frag and fr.depth == 0:
                return Unk(("branch-symbols", next(eng.counter)))
            return None
    h = H()
    eng = Engine(ctx, h)
    eng.run_function(frag)
    by_node = {}
    for node, a, st, t in h.idx_calls:
        by_node.setdefault(id(node), []).append((node, a, st, t))
    if len(by_node) != 2:
        raise AnalysisError("expected two index emissions (ring, branch) in %s, found %d" % (frag.qual, len(by_node)))
    ring_done = branch_done = False
    for lst in by_node.values():
        node = lst[0][0]
        a, st = lst[0][1], lst[0][2]
        lin = num_of(a)
        if lin is None:
            rep.ob("R1", False, node, frag, witness="index argument is not numeric")
            continue
        terms = lin.terms()
        srcs = [t for t in terms if isinstance(t, tuple) and t[0] == "attr" and t[2] == "src"]
        dsts = [t for t in terms if isinstance(t, tuple) and t[0] == "attr" and t[2] == "dst"]
        lens = [t for t in terms if isinstance(t, tuple) and t[0] == "len"]
        if srcs and dsts:
            ring_done = True
            probs = []
            s_, d_ = srcs[0], dsts[0]
            if s_[1] != d_[1]:
                probs.append("source and destination index come from different bonds")
            for (_n, a2, st2, _t) in lst:
                l2 = num_of(a2)
                # each path has its own symbolic bond: take the src / dst terms of this path's argument
                t2 = l2.terms() if l2 is not None else set()
                s2_ = [t for t in t2 if isinstance(t, tuple) and t[0] == "attr" and t[2] == "src"]
                d2_ = [t for t in t2 if isinstance(t, tuple) and t[0] == "attr" and t[2] == "dst"]
                if len(s2_) != 1 or len(d2_) != 1 or s2_[0][1] != d2_[0][1]:
                    probs.append("source and destination index come from different bonds")
                    continue
                sp, dp = s2_[0], d2_[0]
                if l2 is None or not st2.entails(eq(l2 + Lin.const(1), Lin.var(sp) - Lin.var(dp))):
                    probs.append("emitted Q + 1 is not index(closing atom) - index(opening atom)")
                # the symbol is emitted at the closing atom: the bond's source is the current atom, and src >= dst
                if not st2.entails(ge(Lin.var(sp) - Lin.var(dp), 0)):
                    probs.append("ring symbol may be emitted at the opening end (src < dst)")
            # decoder: target = m - (Q + 1) with m = index of the atom at which the symbol is read (the closing atom):
            # m - (Q + 1) = src - (src - dst) = dst
            rep.ob("R1", not probs, node, frag, construct="ring distance Q = %s" % unparse(node.args[0]),
                   how="Q + 1 == src - dst, so the decoder's target m - (Q+1) is the opening atom", witness="; ".join(sorted(set(probs))) or None,
                   nontrivial=True, key="ring-offset/" + ("ok" if not probs else sorted(set(probs))[0][:40]))
            # emitted at the atom whose out-bonds are iterated: bond.src == curr
            loop_ok = False
            anchor = node
            if not any(x is node for x in ast.walk(frag.node)):
                # the index is computed in a helper: the helper's call in the fragment printer marks the position
                for s_ in ctx.cg.sites(frag):
                    if any(hh in helpers for hh in s_.callees) and any(x is node for hh in s_.callees for x in ast.walk(hh.node)):
                        anchor = s_.node
            for n in own_nodes(frag.node):
                if isinstance(n, ast.For) and any(x is anchor for x in ast.walk(n)):
                    it = unparse(n.iter)
                    names = [x.id for x in ast.walk(n.iter) if isinstance(x, ast.Name)]
                    def from_out_bonds(nm, depth=0):
                        """the name is bound to the atom's out-bonds, or to a selection / re-ordering of a name that is"""
                        for d in own_nodes(frag.node):
                            if isinstance(d, ast.Assign) and len(d.targets) == 1 and isinstance(d.targets[0], ast.Name) and d.targets[0].id == nm:
                                if "get_out_dirbonds" in unparse(d.value):
                                    return True
                                if depth < 3 and any(isinstance(x, ast.Name) and x.id != nm and from_out_bonds(x.id, depth + 1) for x in ast.walk(d.value)):
                                    return True
                        return False
                    defs = [nm_ for nm_ in names if from_out_bonds(nm_)]
                    if "get_out_dirbonds" in it or defs:
                        loop_ok = True
            rep.ob("R1", loop_ok, node, frag, construct="ring symbol position", how="emitted while visiting the closing atom's own out-bonds",
                   witness=None if loop_ok else "ring symbol is not emitted at the atom that owns the closing bond", key="ring-position")
        elif lens:
            branch_done = True
            probs = []
            for (_n, a2, st2, _t) in lst:
                l2 = num_of(a2)
                L = [t for t in l2.terms() if isinstance(t, tuple) and t[0] == "len"]
                if len(L) != 1 or not st2.entails(eq(l2 + Lin.const(1), Lin.var(L[0]))):
                    probs.append("emitted Q + 1 is not the number of symbols of the branch")
                elif not ("branch-symbols" in repr(L[0])):
                    probs.append("branch length is not taken from the recursively printed branch")
            # the measured list is the one that is appended after the index symbols
            arg = node.args[0]
            nm = None
            for x in ast.walk(arg):
                if isinstance(x, ast.Call) and unparse(x.func) == "len" and isinstance(x.args[0], ast.Name):
                    nm = x.args[0].id
            ext = [c for c in own_nodes(frag.node) if isinstance(c, ast.Call) and isinstance(c.func, ast.Attribute)
                   and c.func.attr == "extend" and c.args and isinstance(c.args[0], ast.Name) and c.args[0].id == nm]
            if not ext:
                probs.append("the measured branch is not the list of symbols that is emitted")
            rep.ob("R2", not probs, node, frag, construct="branch length Q = %s" % unparse(node.args[0]),
                   how="Q + 1 == len(branch symbols) == the decoder's symbol budget", witness="; ".join(sorted(set(probs))) or None,
                   nontrivial=True, key="branch-length/" + ("ok" if not probs else sorted(set(probs))[0][:40]))
        else:
            rep.ob("R1", False, node, frag, construct=unparse(node), witness="unrecognised index emission")
    if not ring_done or not branch_done:
        raise AnalysisError("ring or branch index emission not identified")
    # decoder side of the pair (re-using the extracted model): target == m - (Q+1), budget == Q+1 are C02/T2,T3
    m = decmodel.extract(ctx)
    its = decmodel.iterations(m)
    rep.ob("R1", any(it.kind == "ring" and it.events("queue") for it in its), None, None, loc="selfies/decoder.py",
           construct="decoder ring rule present", how="model extracted (formula checked by C02/T3)", key="decoder-ring")
    rep.ob("R2", any(it.kind == "branch" and it.events("recurse") for it in its), None, None, loc="selfies/decoder.py",
           construct="decoder branch rule present", how="model extracted (formula checked by C02/T2)", key="decoder-branch")

    # encoder-side index code (shared with C16/I5): the symbols written for Q denote Q in the decoder's code
    from rules.C16 import check_encoder_side
    check_encoder_side(ctx, rep, "R1")
    # ---- R3 bond spelling inverse
    b2s = ctx.fn("selfies.utils.smiles_utils.bond_to_smiles")
    s2b = ctx.fn("selfies.utils.smiles_utils.smiles_to_bond")
    fo = ctx.fold
    for order in (1, 2, 3):
        for stereo in (None, "/", "\\"):
            if order != 1 and stereo is not None:
                continue
            eng2 = Engine(ctx, Hooks())
            bond = Obj(("bond",), "selfies.mol_graph.DirectedBond", {"order": Num(Lin.const(order)), "stereo": Con(stereo)})
            fr = eng2.run_function(b2s, {b2s.posparams[0]: bond})
            vals = {v.value for st, v in fr.returns if isinstance(v, Con)}
            probs = []
            if len(vals) != 1 or fr.raises:
                probs.append("printing order %d is not a single constant character (%s)" % (order, sorted(map(repr, vals))))
            else:
                ch = vals.pop()
                back = fo.call_function(s2b, [ch], {})
                if not (isinstance(back, tuple) and back[0] == order and back[1] == stereo):
                    probs.append("order %d / mark %r prints %r, which reads back as %r" % (order, stereo, ch, back))
            rep.ob("R3", not probs, b2s.node, b2s, construct="bond (order %d, mark %r)" % (order, stereo), how="smiles_to_bond(bond_to_smiles(b)) == (order, mark)",
                   witness="; ".join(probs) or None, nontrivial=True, key="bond/%d/%r" % (order, stereo))
    # ---- R4 arity
    n4 = 0
    from rules.shared import emits_name
    for owner, node, tmpl, args in templates:
        n4 += 1
        probs = []
        from rules.shared import resolve_local
        a1 = resolve_local(owner, args[1])      # n = len(<index symbols>) bound to a local first
        if not (isinstance(a1, ast.Call) and unparse(a1.func) == "len" and isinstance(a1.args[0], ast.Name)):
            probs.append("suffix is not len(<index symbols>)")
        else:
            nm = a1.args[0].id
            # nm is assigned from get_selfies_from_index(...) and its elements are appended after the symbol
            defs = [n for n in own_nodes(owner.node) if isinstance(n, ast.Assign) and isinstance(n.targets[0], ast.Name) and n.targets[0].id == nm
                    and isinstance(n.value, ast.Call) and unparse(n.value.func).endswith("get_selfies_from_index")]
            if not defs:
                probs.append("suffix does not count the symbols returned by get_selfies_from_index")
            scope, local = frag, nm
            if owner is not frag:
                # the helper returns (symbol, index symbols): follow the returned list into the fragment printer
                local = None
                pos = None
                for r in own_nodes(owner.node):
                    if isinstance(r, ast.Return) and isinstance(r.value, ast.Tuple):
                        for j, e_ in enumerate(r.value.elts):
                            if isinstance(e_, ast.Name) and e_.id == nm:
                                pos = j
                for s_ in ctx.cg.sites(frag):
                    if owner in s_.callees and pos is not None:
                        for n in own_nodes(frag.node):
                            if isinstance(n, ast.Assign) and n.value is s_.node and isinstance(n.targets[0], ast.Tuple) \
                                    and pos < len(n.targets[0].elts) and isinstance(n.targets[0].elts[pos], ast.Name):
                                local = n.targets[0].elts[pos].id
            loops = []
            if owner is not frag and local is None:
                # the helper returns the symbol followed by its index symbols as one list ([symbol] + index symbols) and the
                # fragment printer emits every element of that list, in order
                concat = any(isinstance(r, ast.Return) and isinstance(r.value, ast.BinOp) and isinstance(r.value.op, ast.Add)
                             and isinstance(r.value.left, ast.List) and len(r.value.left.elts) == 1 and isinstance(r.value.right, ast.Name)
                             and r.value.right.id == nm for r in own_nodes(owner.node)) and \
                    all(isinstance(r.value, ast.BinOp) for r in own_nodes(owner.node) if isinstance(r, ast.Return) and r.value is not None)
                if concat:
                    for s_ in ctx.cg.sites(frag):
                        if owner in s_.callees:
                            for n in own_nodes(frag.node):
                                if isinstance(n, ast.For) and n.iter is s_.node and isinstance(n.target, ast.Name) \
                                        and any(isinstance(c, ast.Call) and emits_name(ctx, frag, c, n.target.id) for c in ast.walk(n)):
                                    loops.append(n)
            if local is not None:
                for n in own_nodes(scope.node):
                    if not (isinstance(n, ast.For) and isinstance(n.target, ast.Name)):
                        continue
                    it = n.iter
                    iter_ok = (isinstance(it, ast.Name) and it.id == local) or \
                              (isinstance(it, ast.BinOp) and isinstance(it.op, ast.Add) and isinstance(it.right, ast.Name) and it.right.id == local
                               and isinstance(it.left, ast.List) and len(it.left.elts) == 1)      # [symbol] + index symbols
                    if iter_ok and any(isinstance(c, ast.Call) and emits_name(ctx, scope, c, n.target.id) for c in ast.walk(n)):
                        loops.append(n)
            if not loops:
                probs.append("the counted index symbols are not the ones emitted after the symbol")
        rep.ob("R4", not probs, node, owner, construct="suffix of %s" % tmpl, how="len(Q symbols), and exactly those symbols follow",
               witness="; ".join(probs) or None, nontrivial=True, key="arity/%s" % tmpl)
    from rules.symlang import symbol_table
    for name, kind_ in (("_PROCESS_RING_CACHE", "ring"), ("_PROCESS_BRANCH_CACHE", "branch")):
        tab = symbol_table(ctx, kind_)
        bad = [k for k, v in tab.items() if not (k[-2].isdigit() and int(k[-2]) == v[1])]
        rep.ob("R4", not bad, None, None, loc="selfies/grammar_rules.py", construct="%s: suffix digit == number of index symbols read" % name,
               how="folded table", witness=None if not bad else "entries %s read a number of symbols different from their suffix" % bad[:3], key="table/" + name)
    # ---- R5 one atom printer
    a2s = ctx.fn("selfies.utils.smiles_utils.atom_to_smiles")
    decr = ctx.cg.region(ctx.api("decoder"))
    encr = ctx.cg.region(encf)
    ok = a2s.qual in decr and a2s.qual in encr
    rep.ob("R5", ok, a2s.node, a2s, construct="atom_to_smiles shared", how="reachable from encoder (symbols) and decoder (output SMILES)",
           witness=None if ok else "encoder and decoder spell atoms with different printers", key="one-printer")
    from rules.shared import atom_token_printer
    tok = atom_token_printer(ctx)
    ok = any(a2s in s.callees for s in ctx.cg.sites(tok))
    rep.ob("R5", ok, tok.node, tok, construct="atom token printer calls atom_to_smiles", how="call graph", key="token-uses-printer",
           witness=None if ok else "atom tokens are not produced by atom_to_smiles")
    rep.floor("R3", 5)
    rep.floor("R4", 4)
    check_explicit_bond_symbols(ctx, rep)
    check_no_stale_acceptance(ctx, rep)
    # R9: the decoder's atom reader keeps every written field (element, isotope, charge, hydrogens, chirality mark)
    from rules import symlang
    symlang.check_reader_keeps_groups(ctx, rep, "R9")
    symlang.check_parsed_numerals(ctx, rep, "R11")
    symlang.check_printer_keeps_fields(ctx, rep, "R12")
    # R13: "aromatic bonds become a consistent single/double assignment": nothing is translated before kekulize() has succeeded
    from rules.C05 import check_rejection
    check_rejection(ctx, rep, "R13")
    check_bond_symbol_table(ctx, rep)
    # R8: "every SMILES the encoder accepts with strict=True": the acceptance test is count > capacity for every atom,
    # capacity being the property that subtracts explicit hydrogens (the comparator rule of C06/Q1)
    from rules.C06 import check_acceptance
    check_acceptance(ctx, rep, "R8")
    check_fragment_order(ctx, rep, "R10")


def check_fragment_order(ctx, rep, RULE):
    """R10: fragments keep the order of the input.  The roots container of the graph (the field get_roots() hands out) is
    a list that only ever grows at its end, is handed out in that order, and both translators walk it front to back."""
    cls = ctx.db.classes["selfies.mol_graph.MolecularGraph"]
    G = cls.methods.get("get_roots")
    init = cls.methods.get("__init__")
    if G is None or init is None:
        raise AnalysisError("MolecularGraph.get_roots / __init__ not found")
    selfn = G.posparams[0]
    rets = [r.value for r in own_nodes(G.node) if isinstance(r, ast.Return) and r.value is not None]
    field = None
    order_keeping = {"list", "tuple", "iter", "copy.copy"}
    ok_get = bool(rets)
    for e in rets:
        inner = e
        while True:
            if isinstance(inner, ast.Call) and unparse(inner.func) in order_keeping and len(inner.args) == 1 and not inner.keywords:
                inner = inner.args[0]
            elif isinstance(inner, ast.Call) and isinstance(inner.func, ast.Attribute) and inner.func.attr == "copy" and not inner.args:
                inner = inner.func.value
            elif isinstance(inner, ast.Subscript) and isinstance(inner.slice, ast.Slice) and inner.slice.lower is None \
                    and inner.slice.upper is None and inner.slice.step is None:
                inner = inner.value
            else:
                break
        if isinstance(inner, ast.Attribute) and isinstance(inner.value, ast.Name) and inner.value.id == selfn:
            field = inner.attr if field in (None, inner.attr) else field
        else:
            ok_get = False
    if field is None:
        raise AnalysisError("the field handed out by MolecularGraph.get_roots() was not identified")
    rep.ob(RULE, ok_get, G.node, G, construct="get_roots() -> %s" % field, how="hands out the roots in stored order (the field, or an order-keeping copy)",
           witness=None if ok_get else "get_roots() re-orders or filters the stored roots", key="roots/getter", nontrivial=True)
    # bound to a list in __init__, and everywhere else only appended to
    binds = [n for f in cls.methods.values() for n in own_nodes(f.node) if isinstance(n, (ast.Assign, ast.AnnAssign))
             for t in (n.targets if isinstance(n, ast.Assign) else [n.target])
             if isinstance(t, ast.Attribute) and t.attr == field and isinstance(t.value, ast.Name)]
    probs = []
    for b in binds:
        v = b.value
        is_list = (isinstance(v, ast.List)) or (isinstance(v, ast.Call) and unparse(v.func) == "list" and len(v.args) <= 1) \
            or isinstance(v, ast.ListComp)
        if not is_list:
            probs.append("%s is bound to %s, not to a list: iteration order is not insertion order" % (field, unparse(v)[:40]))
    if not binds:
        probs.append("%s is never bound in the class" % field)
    for f in ctx.db.funcs.values():
        for n in own_nodes(f.node):
            if isinstance(n, ast.Call) and isinstance(n.func, ast.Attribute) and isinstance(n.func.value, ast.Attribute) and n.func.value.attr == field \
                    and n.func.attr not in ("append", "copy", "index", "count", "__len__", "__iter__"):
                probs.append("%s.%s(...) in %s: the roots are not only appended in input order" % (field, n.func.attr, f.name))
            if isinstance(n, (ast.Subscript,)) and isinstance(n.ctx, (ast.Store, ast.Del)) and isinstance(n.value, ast.Attribute) and n.value.attr == field:
                probs.append("an element of %s is overwritten / deleted in %s" % (field, f.name))
    rep.ob(RULE, not probs, binds[0] if binds else cls.node, init, construct="roots container %s" % field, how="a list, only appended to",
           witness="; ".join(sorted(set(probs))[:3]) or None, key="roots/container", nontrivial=True)
    # consumers walk it front to back
    n_cons = 0
    for f in ctx.db.funcs.values():
        for n in own_nodes(f.node):
            if isinstance(n, ast.Call) and isinstance(n.func, ast.Attribute) and n.func.attr == "get_roots":
                n_cons += 1
                par = None
                for x in own_nodes(f.node):
                    if any(c is n for c in ast.iter_child_nodes(x)):
                        par = x
                okc = isinstance(par, (ast.For, ast.comprehension)) and par.iter is n \
                    or (isinstance(par, ast.Call) and unparse(par.func) in ("enumerate", "list", "tuple", "iter", "len") and par.args and par.args[0] is n) \
                    or isinstance(par, ast.Assign)
                rep.ob(RULE, okc, n, f, construct="consumer %s" % unparse(par)[:60] if par is not None else "consumer", how="iterates the roots in order",
                       witness=None if okc else "the roots are re-ordered (%s) before the fragments are written: atoms of different fragments swap places"
                       % (unparse(par)[:50] if par is not None else "?"), key="roots/consumer/%s" % f.name, nontrivial=True)
    if n_cons < 2:
        rep.floor_failures.append("expected the encoder and the SMILES writer to walk get_roots(); found %d consumer(s)" % n_cons)


def check_bond_symbol_table(ctx, rep):
    """R3 (both directions of the bond spelling): smiles_to_bond reads every bond symbol of SMILES_BOND_ORDERS as the order
    the table gives it (':' stays 1.5, so that an explicitly written aromatic bond is kekulized like an implicit one), and
    the ring / branch prefixes the encoder prints for a bond of order k are read by the decoder's tables as type k."""
    fo = ctx.fold
    s2b = ctx.fn("selfies.utils.smiles_utils.smiles_to_bond")
    table = fo.global_value("selfies.utils.smiles_utils", "SMILES_BOND_ORDERS")
    if not isinstance(table, dict) or not table:
        raise AnalysisError("SMILES_BOND_ORDERS does not fold")
    for c, want in sorted(table.items(), key=lambda kv: str(kv[0])):
        got = fo.call_function(s2b, [c], {})
        ok = isinstance(got, tuple) and len(got) == 2 and got[0] == want and type(got[0]) is type(want)
        rep.ob("R3", ok, s2b.node, s2b, construct="smiles_to_bond(%r)" % c, how="order %r as in SMILES_BOND_ORDERS" % (want,),
               witness=None if ok else "bond symbol %r is read as %r, the table says order %r" % (c, got, want), nontrivial=True,
               key="read/%s" % c)
    # prefix printers: order k -> prefix -> decoder table type k
    from rules.shared import fragment_printer, token_templates
    import re as _re
    shape = _re.compile(r"^\[\{\}([A-Za-z]+)\{\}\]$")
    _encf, frag = fragment_printer(ctx)
    tabs = {"Ring": __import__("rules.symlang", fromlist=["x"]).symbol_table(ctx, "ring"), "Branch": __import__("rules.symlang", fromlist=["x"]).symbol_table(ctx, "branch")}
    for owner, node, tmpl, args in token_templates(ctx, frag):
        m = shape.match(tmpl)
        if not m or m.group(1) not in tabs or not isinstance(args[0], ast.Call):
            continue
        site = [s_ for s_ in ctx.cg.sites(owner) if s_.node is args[0]]
        if not site or len(site[0].callees) != 1:
            continue
        P = site[0].callees[0]
        kind = m.group(1)
        for k in (1, 2, 3):
            bonds = {p: Obj(("bond", p), "selfies.mol_graph.DirectedBond", {"order": Num(Lin.const(k)), "stereo": Con(None)})
                     for p in P.posparams[:len(args[0].args)]}
            extra = {kw.arg: Con(kw.value.value) for kw in args[0].keywords if isinstance(kw.value, ast.Constant)}
            fr = Engine(ctx, Hooks()).run_function(P, dict(bonds, **extra))
            vals = {v.value for st, v in fr.returns if isinstance(v, Con) and isinstance(v.value, str)}
            probs = []
            if len(vals) != 1 or len(vals) != len({repr(v) for st, v in fr.returns}):
                probs.append("prefix for order %d is not one constant string (%s)" % (k, sorted(map(repr, vals))[:3]))
            else:
                pre = vals.pop()
                key = tmpl.format(pre, 1)
                ent = tabs[kind].get(key)
                if ent is None or ent[0] != k:
                    probs.append("a %s bond of order %d is printed as %s, which the decoder reads as %s" % (kind.lower(), k, key, "order %r" % (ent[0],) if ent else "nothing"))
            rep.ob("R3", not probs, args[0], owner, construct="%s prefix for bond order %d" % (kind, k), how="decoder table type == %d" % k,
                   witness="; ".join(probs) or None, nontrivial=True, key="prefix/%s/%d" % (kind, k))


def check_explicit_bond_symbols(ctx, rep, RULE="R6"):
    """R6: the parser gives a bond the aromatic order 1.5 only on paths where no bond symbol was written for it --
    for a ring closure, on neither of the two ring-digit tokens.  (An explicit symbol must decide the order: the
    statement quantifies over 'explicit or implicit bond symbols' on either end of a ring closure.)"""
    from fractions import Fraction
    s2m = ctx.fn("selfies.utils.smiles_utils.smiles_to_mol")
    s2b = ctx.fn("selfies.utils.smiles_utils.smiles_to_bond")
    adders = {"add_bond", "add_ring_bond"}
    funcs = []
    for q in ctx.cg.region(s2m):
        g = ctx.db.funcs[q]
        callees = {h.qual if h.cls is None else h.cls.name + "." + h.name for s in ctx.cg.sites(g) for h in s.callees}
        reads = s2b.qual in callees or (s2b.qual in set(ctx.cg.region(g)) and g is not s2m and g.module is s2b.module
                                        and not any(h.qual in set(ctx.cg.region(s2m)) and h is not g and h.module is g.module and
                                                    any(c2.cls is not None and c2.name in adders for s2 in ctx.cg.sites(h) for c2 in s2.callees)
                                                    for s in ctx.cg.sites(g) for h in s.callees))
        # ... directly, or through a helper of its own (the bond symbol of each ring digit read in a helper): but not a driver
        # that merely calls the functions that do both
        if reads and any(c.startswith("MolecularGraph.") and c.split(".")[1] in adders for c in callees):
            funcs.append(g)
    if not funcs:
        raise AnalysisError("no parser function both reads bond symbols (smiles_to_bond) and adds bonds")
    n_arom = 0
    for g in funcs:
        events = []

        class H(Hooks):
            def opaque_call(self, eng, fr, node, callee, args, kwargs, st):
                return callee is s2b

            def on_call(self, eng, fr, node, callee, args, kwargs, st):
                if callee is s2b and args:
                    s2 = st.copy()
                    s2.tags = st.tags + (("bondsym", vkey(args[0])),)
                    n = next(eng.counter)
                    return [(s2, Tup([Num(Lin.var(("order", n))), Unk(("stereo", n))]))]
                if hasattr(callee, "cls") and callee.cls is not None and callee.cls.name == "SMILESToken":
                    return [(st, Unk(("mcall", callee.name, tuple(vkey(a) for a in args))))]
                if hasattr(callee, "cls") and callee.cls is not None and callee.cls.name == "MolecularGraph" and callee.name in adders:
                    bound = eng.bind_args(callee, args[1:], kwargs, skip_self=True) or {}
                    events.append((node, callee.name, bound, st))
                    return [(st, Unk(eng.fresh("bond")))]
                return None
        eng = Engine(ctx, H())
        eng.run_function(g, {})
        agg = {}
        for node, name, bound, st in events:
            orders = [v for k, v in bound.items() if "order" in k]
            arom = [v for v in orders if (isinstance(v, Num) and v.lin.is_const() and v.lin.k == Fraction(3, 2))
                    or (isinstance(v, Con) and v.value == 1.5 and not isinstance(v.value, bool))]
            if not arom:
                continue
            n_arom += 1
            syms = [t[1] for t in st.tags if t[0] == "bondsym"]
            probs = []
            if not syms:
                probs.append("aromatic order given without looking at the written bond symbol(s)")
            for k in syms:
                key = k[1] if k[0] == "unk" else k
                if k == ("con", "None"):
                    continue
                if st.atoms.get(("isnone", key)) is not True:
                    probs.append("order 1.5 is given although a bond symbol may have been written (%s)" % _short(k))
            agg.setdefault(tuple(sorted(set(probs))), node)
        for probs, node in agg.items():
            rep.ob(RULE, not probs, node, g, construct="aromatic order 1.5 in %s" % g.name, how="only on paths where every bond symbol of the bond is None",
                   witness="; ".join(probs) or None, nontrivial=True, key="arom-implicit/%s/%s" % (g.name, "ok" if not probs else "explicit-symbol-ignored"))
    if not n_arom:
        raise AnalysisError("no aromatic (1.5) bond order is introduced by the parser functions %s" % [g.name for g in funcs])
    rep.floor(RULE, 2)


def _short(k):
    s = repr(k)
    import re as _re
    m = _re.search(r"'param', '[^']*', '(\w+)'", s)
    return m.group(1) if m else s[:60]


def check_no_stale_acceptance(ctx, rep):
    """R7: acceptance under strict=True is judged against the table in force: every memo that reads the constraint
    table (a memoised translator included) is cleared on every table change (shared with C06/Q4, C11/P4)."""
    from sa.effects import Effects
    from rules.shared import memo_readers, MemoFlow
    eff = Effects(ctx)
    setter, table_vars = eff.table_vars()
    plain, selfkeyed = memo_readers(ctx, eff, table_vars)
    mf = MemoFlow(ctx, eff, setter, rep, plain, table_vars)
    mf.run(frozenset())
    for o in rep.obs:
        if o.rule == "G6":
            o.rule = "R7"
            o.key = o.key.replace("/G6/", "/R7/")
            rep.counts["R7"] = rep.counts.get("R7", 0) + 1
    rep.counts.pop("G6", None)
    from rules.shared import check_table_owned, check_history_independence
    check_table_owned(ctx, rep, "R7")
    # ... and nothing derived from a table survives in module state (symbol caches stay functions of the symbol alone)
    check_history_independence(ctx, rep, "R7")
    rep.floor("R7", 4)
