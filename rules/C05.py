"""C05 — aromatic SMILES are kekulized correctly, or rejected (clause level: the plumbing around the matching).

What is decided (each a necessary condition of the statement; none of them is the matching algorithm):
K1 rejection discipline: a missing matching becomes EncoderError.  The matcher's result is used only where it is
   known not to be None; kekulize() reports failure (a falsy constant) on every path on which the matching is
   None and success only when it is not; every caller of kekulize() turns a falsy result into the encoder's
   error, and the writer refuses a graph that is not kekulized
K2 frame: nothing reachable from kekulize() writes an atom's element / isotope / charge / h_count / chirality /
   index, a bond's endpoints / mark / ring flag, or grows / shrinks the graph (the containers that add_atom /
   add_bond grow) -- "the sigma skeleton, hydrogens and charges are unchanged"
K3 the matching is kept symmetric: every store mate[a] = b into the matching array is paired, in the same block,
   with mate[b] = a (in every function the array flows through) -- without it "exactly one double bond" fails
K4 completion: kekulize() returns success only with the delocalised subgraph emptied, and is_kekulized() is the
   emptiness of that same field
K5 entry into the aromatic system: the parser gives a bond the order 1.5 only on paths where no bond symbol was written
   for it, on either ring digit ("implicit aromatic bonds between lower-case atoms" -- an explicit '-' must stay single)
K7 clean slate per search: the matching module's functions mutate only containers they allocate themselves and the
   matching array (no visited / parent state handed in and reused between searches)
K6 pruning decision table: for the standard aromatic atom kinds named in the statement (c, n, o, s, p, [nH], substituted
   n, [n+], and their bracketed twins) the pruning predicate, abstractly interpreted on exact rationals, keeps exactly
   those that need a pi bond
K9 write-back phases: kekulize() first resets the aromatic bonds to single and only then writes the double bonds of the
   matching; no reset (constant order 1) is reachable after a double-bond write (constant order 2) -- interleaving the two
   makes the result depend on the iteration order of the delocalised subgraph (a later reset undoes an earlier double bond)
Not decided (value level, see DESIGN.md §4 C05): that the search finds a perfect matching whenever one exists
(the property text documents a genuine defect there: no blossom contraction), pruning outside the standard kinds
(radicals, unusual charges), and independence from atom order.
"""
import ast

from sa import AnalysisError
from sa.db import own_nodes, unparse
from sa.flow import Forward
from sa.guards import guard_facts, u
from sa.tyinf import always_exits

REGISTER = True
META = {
    "explanation": "Four structural rule packs around the kekulization: a must-check-result analysis (guard-fact dataflow) from "
                   "the matcher's optional result through kekulize()'s boolean to the EncoderError raise; a who-may-write "
                   "(frame) rule over everything reachable from kekulize(); a pairing rule for stores into the matching "
                   "array in every function it flows through; a must-pass-through dataflow for emptying the delocalised "
                   "subgraph before success is reported.",
    "trusted_base": ["resolved call graph", "guard-fact dataflow (dominating tests, kills on rebinding)"],
    "assumptions": [],
    "level_text": "Static structural checks of the code around the aromatic matching (rejection discipline, frame rule, "
                  "symmetric matching stores, completion); all inputs.",
    "level_note": "Clause-level only. The correctness and completeness of the matching search itself (the property text "
                  "reports a genuine defect: augmenting paths without blossom contraction), the pruning arithmetic and "
                  "atom-order independence are value-level and are NOT decided by this check.",
    "technique": "must-check-result dataflow + who-may-write frame rule + paired-store rule + must-pass-through dataflow + abstract "
                 "interpretation of the pruning predicate on a finite table of atom kinds + may-dataflow phase ordering of the write-back",
}

MG = "selfies.mol_graph.MolecularGraph"
ATOM_IDENTITY = ("element", "isotope", "charge", "h_count", "chirality", "index")
BOND_IDENTITY = ("src", "dst", "stereo", "ring_bond")
SHRINK_GROW = ("append", "appendleft", "insert", "extend", "pop", "popleft", "remove", "clear", "popitem", "setdefault", "update")


def _parents(fnode):
    par = {}
    for n in ast.walk(fnode):
        for c in ast.iter_child_nodes(n):
            par[id(c)] = n
    return par


def _result_var(f, call):
    """name the call's result is bound to (``x = call``), else None"""
    for n in own_nodes(f.node):
        if isinstance(n, ast.Assign) and n.value is call and len(n.targets) == 1 and isinstance(n.targets[0], ast.Name):
            return n.targets[0].id
    return None


def check_rejection(ctx, rep, RULE="K1"):
    M = ctx.fn("selfies.utils.matching_utils.find_perfect_matching")
    K = ctx.fn(MG + ".kekulize")
    IK = ctx.fn(MG + ".is_kekulized")
    # the matcher really is optional-returning (otherwise the anchor moved)
    rets = [r for r in own_nodes(M.node) if isinstance(r, ast.Return)]
    none_rets = [r for r in rets if r.value is None or (isinstance(r.value, ast.Constant) and r.value.value is None)]
    rep.ob(RULE, bool(none_rets), none_rets[0] if none_rets else M.node, M, construct="matcher reports 'no perfect matching' by returning None",
           how="%d such return(s)" % len(none_rets), witness=None if none_rets else "find_perfect_matching has no failure result any more", key="matcher-optional")
    # (a) every use of the matcher's result is dominated by a not-None test
    n_sites = 0
    for f in ctx.db.funcs.values():
        for s in ctx.cg.sites(f):
            if M in s.callees and isinstance(s.node, ast.Call):
                n_sites += 1
                var = _result_var(f, s.node)
                if var is None:
                    rep.ob(RULE, False, s.node, f, construct=unparse(s.node)[:60], witness="the matcher's result is used without being bound and tested for None",
                           key="use/%s/unbound" % f.name, nontrivial=True)
                    continue
                at = guard_facts(f)
                par = _parents(f.node)
                bad = []
                after = False
                for n in _in_order(f.node):
                    if n is s.node:
                        after = True
                    if after and isinstance(n, ast.Name) and n.id == var and isinstance(n.ctx, ast.Load):
                        p = par.get(id(n))
                        if isinstance(p, ast.Compare) and any(isinstance(c, ast.Constant) and c.value is None for c in p.comparators):
                            continue
                        facts = at.get(id(n))
                        if facts is None:
                            continue          # unreachable
                        if ("notnone", var) not in facts:
                            bad.append(n)
                rep.ob(RULE, not bad, bad[0] if bad else s.node, f, construct="uses of %s = %s(...)" % (var, M.name),
                       how="every use is dominated by a not-None test", nontrivial=True, key="use/%s" % f.name,
                       witness=None if not bad else "the matcher's result may be None where it is used: a missing matching is not rejected")
                # (b) in kekulize: success is reported only with a matching, failure whenever it is None
                if f is K:
                    for r in own_nodes(f.node):
                        if isinstance(r, ast.Return) and r.lineno > s.node.lineno and isinstance(r.value, ast.Constant):
                            facts = at.get(id(r))
                            if facts is None:
                                continue
                            if r.value.value:
                                ok = ("notnone", var) in facts
                                rep.ob(RULE, ok, r, f, construct="success return after the matching", how="only with a matching",
                                       witness=None if ok else "kekulize() can report success although no perfect matching was found",
                                       key="kekulize/success", nontrivial=True)
                            elif ("isnone", var) in facts:
                                rep.ob(RULE, True, r, f, construct="failure return", how="taken when the matching is None", key="kekulize/failure")
    if not n_sites:
        raise AnalysisError("find_perfect_matching is not called anywhere in the package")
    if K not in {f for f in ctx.db.funcs.values() for s in ctx.cg.sites(f) if M in s.callees}:
        raise AnalysisError("kekulize() no longer calls the matcher: anchor lost")
    # (c) callers of kekulize() turn a falsy result into the encoder's error
    enc_err = "EncoderError"
    n_callers = 0
    for f in ctx.db.funcs.values():
        par = None
        for s in ctx.cg.sites(f):
            if K in s.callees and isinstance(s.node, ast.Call) and isinstance(s.node.func, ast.Attribute) and s.node.func.attr == K.name:
                n_callers += 1
                par = par or _parents(f.node)
                p = par.get(id(s.node))
                ok, why = False, "the result of kekulize() is not tested"
                neg = isinstance(p, ast.UnaryOp) and isinstance(p.op, ast.Not)
                test_holder = par.get(id(p)) if neg else p
                if isinstance(test_holder, ast.If) and (test_holder.test is p or test_holder.test is s.node):
                    fail_body = test_holder.body if neg else test_holder.orelse
                    if not neg and not fail_body and always_exits(test_holder.body):
                        # `if mol.kekulize(): return mol` followed by the failure handling: the rest of the block
                        holder_parent = par.get(id(test_holder))
                        for fld in ("body", "orelse", "finalbody"):
                            blk = getattr(holder_parent, fld, None) if holder_parent is not None else None
                            if isinstance(blk, list) and any(x is test_holder for x in blk):
                                i_ = [k_ for k_, x in enumerate(blk) if x is test_holder][0]
                                fail_body = blk[i_ + 1:]
                    raises = [x for st in fail_body for x in ast.walk(st) if isinstance(x, ast.Raise)]
                    if fail_body and always_exits(fail_body) and raises and all(_raises(ctx, f, x, enc_err) for x in raises):
                        ok = True
                    else:
                        why = "a failed kekulization does not end in %s" % enc_err
                elif isinstance(test_holder, ast.Assert):
                    why = "a failed kekulization only trips an assert"
                rep.ob(RULE, ok, s.node, f, construct="caller of kekulize() in %s" % f.name, how="falsy result -> raise %s on all paths" % enc_err,
                       witness=None if ok else why, nontrivial=True, key="caller/%s" % f.name)
    if not n_callers:
        raise AnalysisError("kekulize() has no caller")
    # (d) the writer refuses a graph that still has a delocalised subgraph
    w = ctx.fn("selfies.utils.smiles_utils.mol_to_smiles")
    guards = [n for n in own_nodes(w.node) if isinstance(n, (ast.Assert, ast.If)) and any(
        isinstance(c, ast.Call) and isinstance(c.func, ast.Attribute) and c.func.attr == IK.name for c in ast.walk(n.test))]
    rep.ob(RULE, bool(guards), guards[0] if guards else w.node, w, construct="writer requires a kekulized graph", how="is_kekulized() tested on entry",
           witness=None if guards else "mol_to_smiles no longer refuses a graph with aromatic (1.5) bonds", key="writer-guard")
    rep.floor(RULE, 5)
    return M, K, IK


def _in_order(fnode):
    """own nodes in source order"""
    return sorted((n for n in own_nodes(fnode) if hasattr(n, "lineno")), key=lambda n: (n.lineno, n.col_offset))


def _raises(ctx, f, r, name):
    e = r.exc
    if e is None:
        return False
    if isinstance(e, ast.Call):
        e = e.func
    return unparse(e).split(".")[-1] == name


def check_frame(ctx, rep, K, ds_field=None):
    region = [ctx.db.funcs[q] for q in ctx.cg.region(K)]
    cls = ctx.db.classes[MG]
    grow_api = [cls.methods[m] for m in ("add_atom", "add_bond", "add_ring_bond", "add_placeholder_bond", "_add_bond_at_loc") if m in cls.methods]
    if len(grow_api) < 3:
        raise AnalysisError("graph-growing API of MolecularGraph not found")
    # containers that the growing API grows: self.<field>.append/insert(...) or new keys self.<field>[k] = v
    grow_fields = set()
    for g in grow_api:
        selfn = g.posparams[0]
        for n in own_nodes(g.node):
            if isinstance(n, ast.Call) and isinstance(n.func, ast.Attribute) and n.func.attr in ("append", "insert", "extend", "setdefault"):
                b = n.func.value
                while isinstance(b, ast.Subscript):
                    b = b.value
                if isinstance(b, ast.Attribute) and isinstance(b.value, ast.Name) and b.value.id == selfn:
                    grow_fields.add(b.attr)
            elif isinstance(n, ast.Assign) and isinstance(n.targets[0], ast.Subscript):
                b = n.targets[0].value             # self.<dict>[key] = value: a new entry
                if isinstance(b, ast.Attribute) and isinstance(b.value, ast.Name) and b.value.id == selfn:
                    grow_fields.add(b.attr)
    if len(grow_fields) < 3:
        raise AnalysisError("containers grown by add_atom / add_bond not identified (%s)" % sorted(grow_fields))
    # topology containers hold the atoms / bonds themselves (or the per-atom bond lists); the others are per-atom
    # book-keeping numbers whose *entries* kekulization may update
    topo = set()
    for g in grow_api:
        selfn = g.posparams[0]
        for n in own_nodes(g.node):
            val, b = None, None
            if isinstance(n, ast.Call) and isinstance(n.func, ast.Attribute) and n.func.attr in ("append", "insert") and n.args:
                val, b = n.args[-1], n.func.value
            elif isinstance(n, ast.Assign) and isinstance(n.targets[0], ast.Subscript):
                val, b = n.value, n.targets[0].value
            if val is None:
                continue
            while isinstance(b, ast.Subscript):
                b = b.value
            if not (isinstance(b, ast.Attribute) and isinstance(b.value, ast.Name) and b.value.id == selfn and b.attr in grow_fields):
                continue
            t = ctx.ty.expr_type(g, val)
            if any(a[0] == "inst" and a[1].split(".")[-1] in ("Atom", "DirectedBond") for a in t) or \
                    (isinstance(val, ast.Call) and unparse(val.func) == "list" and not val.args) or (isinstance(val, ast.List) and not val.elts):
                topo.add(b.attr)
    topo.discard(ds_field)          # the delocalised-subgraph register is what kekulization exists to empty
    if len(topo) < 2:
        raise AnalysisError("topology containers of MolecularGraph not identified (%s)" % sorted(topo))
    called_grow = [g for g in grow_api if g.qual in {f.qual for f in region}]
    for g in called_grow:
        rep.ob("K2", False, g.node, g, construct="%s reachable from kekulize()" % g.name, witness="kekulization adds atoms / bonds to the graph",
               key="grows/%s" % g.name, nontrivial=True)
    n = 0
    for f in region:
        for node in own_nodes(f.node):
            tgt = None
            if isinstance(node, (ast.Assign, ast.AugAssign, ast.AnnAssign)):
                tgts = node.targets if isinstance(node, ast.Assign) else [node.target]
                for t in tgts:
                    for x in ([t] if not isinstance(t, (ast.Tuple, ast.List)) else list(t.elts)):
                        n += _frame_target(ctx, rep, f, x, topo)
            elif isinstance(node, ast.Delete):
                for x in node.targets:
                    n += _frame_target(ctx, rep, f, x, topo, deleting=True)
            elif isinstance(node, ast.Call) and isinstance(node.func, ast.Attribute) and node.func.attr in SHRINK_GROW:
                b = node.func.value
                depth = 0
                while isinstance(b, ast.Subscript):
                    b = b.value
                    depth += 1
                if isinstance(b, ast.Attribute) and b.attr in grow_fields and b.attr != ds_field and _is_graph(ctx, f, b.value):
                    ok = False
                    rep.ob("K2", ok, node, f, construct=unparse(node)[:60], witness="kekulization changes the graph's %s (atoms / adjacency / bond table)" % b.attr,
                           key="container/%s/%s" % (f.name, b.attr), nontrivial=True)
                    n += 1
    rep.ob("K2", True, K.node, K, construct="%d functions reachable from kekulize(), %d stores examined" % (len(region), n),
           how="no store to atom identity fields, bond endpoints/marks, or the graph's growing containers", key="frame", nontrivial=True)
    rep.analysed["kekulize_region"] = sorted(f.qual for f in region)
    rep.analysed["graph_growing_containers"] = sorted(grow_fields)
    rep.analysed["graph_topology_containers"] = sorted(topo)


def _is_graph(ctx, f, e):
    if isinstance(e, ast.Name) and f.is_method and e.id == f.posparams[0] and f.cls.qual == MG:
        return True
    t = ctx.ty.expr_type(f, e) if hasattr(ctx.ty, "expr_type") else frozenset()
    return any(a[0] == "inst" and a[1] == MG for a in t)


def _frame_target(ctx, rep, f, x, grow_fields, deleting=False):
    """x is a store / delete target inside the kekulize region; report forbidden ones. returns 1 if x is a field store"""
    if isinstance(x, ast.Attribute):
        if x.attr in ATOM_IDENTITY or x.attr in BOND_IDENTITY:
            # which class? identity fields of Atom / DirectedBond: any store on a non-self object of those names is forbidden;
            # a constructor initialising its own fields is not in the region (no atoms / bonds are created)
            own_init = f.name == "__init__" and isinstance(x.value, ast.Name) and x.value.id == f.posparams[0]
            if not own_init:
                rep.ob("K2", False, x, f, construct=unparse(x)[:60], witness="kekulization writes %s of an atom / bond: the sigma skeleton, hydrogens or charges change" % x.attr,
                       key="field/%s/%s" % (f.name, x.attr), nontrivial=True)
            return 1
        if x.attr in grow_fields and _is_graph(ctx, f, x.value):
            # rebinding a growing container (e.g. self._atoms = ...) -- not allowed either
            rep.ob("K2", False, x, f, construct=unparse(x)[:60], witness="kekulization replaces the graph's %s" % x.attr, key="rebind/%s/%s" % (f.name, x.attr),
                   nontrivial=True)
            return 1
        return 1
    if isinstance(x, ast.Subscript):
        b = x.value
        depth = 1
        while isinstance(b, ast.Subscript):
            b = b.value
            depth += 1
        if isinstance(b, ast.Attribute) and b.attr in grow_fields and _is_graph(ctx, f, b.value) and (deleting or depth == 1):
            # self._atoms[i] = ... / self._bond_dict[k] = ... / del self._adj_list[i]
            rep.ob("K2", False, x, f, construct=unparse(x)[:60], witness="kekulization %s an entry of the graph's %s" % ("deletes" if deleting else "replaces", b.attr),
                   key="entry/%s/%s" % (f.name, b.attr), nontrivial=True)
        return 1
    return 0


def matching_vars(ctx, M):
    """(function, variable) pairs the matching array flows through, starting from what the matcher returns"""
    work = []
    for r in own_nodes(M.node):
        if isinstance(r, ast.Return) and isinstance(r.value, ast.Name):
            work.append((M, r.value.id))
    seen = set()
    while work:
        f, v = work.pop()
        if (f.qual, v) in seen:
            continue
        seen.add((f.qual, v))
        for s in ctx.cg.sites(f):
            if not isinstance(s.node, ast.Call) or not s.callees:
                continue
            g = s.callees[0]
            if g.module is not M.module:
                continue
            # passed down
            for i, a in enumerate(s.node.args):
                if isinstance(a, ast.Name) and a.id == v and i < len(g.posparams):
                    work.append((g, g.posparams[i]))
            for k in s.node.keywords:
                if isinstance(k.value, ast.Name) and k.value.id == v and k.arg in g.params:
                    work.append((g, k.arg))
            # produced by a callee
            if _result_var(f, s.node) == v:
                for r in own_nodes(g.node):
                    if isinstance(r, ast.Return) and isinstance(r.value, ast.Name):
                        work.append((g, r.value.id))
    return seen


def check_symmetric(ctx, rep, M):
    pairs = matching_vars(ctx, M)
    if not pairs:
        raise AnalysisError("the matching array returned by %s was not traced" % M.qual)
    n_store = 0
    for q, v in sorted(pairs):
        f = ctx.db.funcs[q]
        for blk in _blocks(f.node):
            stores = []
            for st in blk:
                if isinstance(st, ast.Assign):
                    for t in st.targets:
                        if isinstance(t, ast.Subscript) and isinstance(t.value, ast.Name) and t.value.id == v:
                            stores.append((u(t.slice), u(st.value), st))
                        elif isinstance(t, (ast.Tuple, ast.List)) and isinstance(st.value, (ast.Tuple, ast.List)) and len(t.elts) == len(st.value.elts):
                            for tt, vv in zip(t.elts, st.value.elts):
                                if isinstance(tt, ast.Subscript) and isinstance(tt.value, ast.Name) and tt.value.id == v:
                                    stores.append((u(tt.slice), u(vv), st))
            for idx, val, st in stores:
                n_store += 1
                ok = (val, idx) in {(a, b) for a, b, _ in stores}
                rep.ob("K3", ok, st, f, construct="%s[%s] = %s" % (v, idx, val), how="paired with %s[%s] = %s in the same block" % (v, val, idx),
                       witness=None if ok else "one-sided update of the matching: node %s gets mate %s but not the reverse -- the result is not a matching" % (idx, val),
                       nontrivial=True, key="pair/%s/%s" % (f.name, "ok" if ok else "%s=%s" % (idx, val)))
    rep.analysed["matching_array_flows_through"] = sorted("%s:%s" % p for p in pairs)
    if n_store < 2:
        raise AnalysisError("fewer than two stores into the matching array found (%d): anchor lost" % n_store)
    rep.floor("K3", 4)


def check_search_state_local(ctx, rep, M):
    """K7: every search of the matching routine starts from a clean slate: the functions of the matching module mutate
    only containers they allocate themselves, and the matching array (K3's role).  A visited / parent array that is
    handed in and survives from one root's search to the next makes later searches skip atoms an earlier one touched."""
    role = matching_vars(ctx, M)
    _K7_CTX["ctx"] = ctx
    funcs = [ctx.db.funcs[q] for q in ctx.cg.region(M) if ctx.db.funcs[q].module is M.module]
    MUT = {"append", "appendleft", "extend", "insert", "pop", "popleft", "remove", "clear", "add", "discard", "update", "sort", "reverse", "setdefault"}
    n = 0
    for f in funcs:
        fresh = set()
        for nd in own_nodes(f.node):
            if isinstance(nd, ast.Assign) and len(nd.targets) == 1 and isinstance(nd.targets[0], ast.Name):
                v = nd.value
                if isinstance(v, (ast.List, ast.ListComp, ast.Dict, ast.DictComp, ast.Set, ast.SetComp)) or \
                        (isinstance(v, ast.BinOp) and isinstance(v.op, ast.Mult) and (isinstance(v.left, ast.List) or isinstance(v.right, ast.List))) or \
                        (isinstance(v, ast.Call) and u(v.func).split(".")[-1] in ("list", "set", "dict", "deque", "sorted")):
                    fresh.add(nd.targets[0].id)
                elif isinstance(v, ast.Call):
                    # result of a helper of this module that returns a container it allocated (e.g. the greedy matching)
                    fresh.add(nd.targets[0].id)
        for nd in own_nodes(f.node):
            tgt = None
            if isinstance(nd, (ast.Assign, ast.AugAssign)):
                for t in (nd.targets if isinstance(nd, ast.Assign) else [nd.target]):
                    for x in ([t] if not isinstance(t, (ast.Tuple, ast.List)) else t.elts):
                        if isinstance(x, ast.Subscript):
                            b = x.value
                            while isinstance(b, ast.Subscript):
                                b = b.value
                            if isinstance(b, ast.Name):
                                tgt = b.id
                                n += _k7(rep, f, nd, tgt, fresh, role)
            elif isinstance(nd, ast.Call) and isinstance(nd.func, ast.Attribute) and nd.func.attr in MUT:
                b = nd.func.value
                while isinstance(b, ast.Subscript):
                    b = b.value
                if isinstance(b, ast.Name):
                    n += _k7(rep, f, nd, b.id, fresh, role)
            elif isinstance(nd, ast.Call) and u(nd.func).split(".")[-1] in ("heappush", "heappop", "heapify") and nd.args and isinstance(nd.args[0], ast.Name):
                n += _k7(rep, f, nd, nd.args[0].id, fresh, role)
    if n < 6:
        raise AnalysisError("fewer than 6 mutation sites found in the matching module (%d): anchor lost" % n)
    rep.floor("K7", 6)


def _fresh_locals(f):
    out = {}
    for nd in own_nodes(f.node):
        if isinstance(nd, ast.Assign) and len(nd.targets) == 1 and isinstance(nd.targets[0], ast.Name):
            v = nd.value
            if isinstance(v, (ast.List, ast.ListComp, ast.Dict, ast.DictComp, ast.Set, ast.SetComp)) or \
                    (isinstance(v, ast.BinOp) and isinstance(v.op, ast.Mult) and (isinstance(v.left, ast.List) or isinstance(v.right, ast.List))) or \
                    (isinstance(v, ast.Call) and u(v.func).split(".")[-1] in ("list", "set", "dict", "deque", "sorted")):
                out.setdefault(nd.targets[0].id, []).append(nd)
    return out


def _param_fresh_per_call(ctx, f, name, depth=0):
    """parameter `name` of f receives, at every call site in the module, a container its caller allocated for this very
    call: a fresh local whose allocation is not outside a loop that contains the call (or, one level up, the same)"""
    if depth > 2 or name not in f.params:
        return False
    callers = [(g, s_) for g in ctx.db.funcs.values() if g.module is f.module for s_ in ctx.cg.sites(g) if f in s_.callees and isinstance(s_.node, ast.Call)]
    if not callers:
        return False
    pos = f.posparams
    for g, s_ in callers:
        arg = None
        if name in pos and pos.index(name) < len(s_.node.args):
            arg = s_.node.args[pos.index(name)]
        for kw in s_.node.keywords:
            if kw.arg == name:
                arg = kw.value
        if not isinstance(arg, ast.Name):
            return False
        fl = _fresh_locals(g)
        if arg.id in fl and arg.id not in g.params:
            # every loop of g that contains the call must contain the allocation as well
            loops = [l for l in own_nodes(g.node) if isinstance(l, (ast.For, ast.While)) and any(x is s_.node for x in ast.walk(l))]
            for l in loops:
                if not any(any(x is a for x in ast.walk(l)) for a in fl[arg.id]):
                    return False
            continue
        if arg.id in g.params and _param_fresh_per_call(ctx, g, arg.id, depth + 1):
            continue
        return False
    return True


_K7_CTX = {}


def _k7(rep, f, node, name, fresh, role):
    ok = (f.qual, name) in role or (name in fresh and name not in f.params) or \
        (name in f.params and _K7_CTX.get("ctx") is not None and _param_fresh_per_call(_K7_CTX["ctx"], f, name))
    rep.ob("K7", ok, node, f, construct="%s mutated in %s" % (name, f.name), how="allocated in this call, or the matching array",
           witness=None if ok else "%s mutates %s, which it did not allocate and which is not the matching array: search state is shared between "
           "successive searches (a later search can miss an augmenting path)" % (f.name, name), nontrivial=not ok,
           key="state/%s/%s" % (f.name, name if not ok else "ok"))
    return 1


def _blocks(fnode):
    """statement lists of a function (bodies of compound statements included)"""
    out = []
    stack = [fnode.body]
    while stack:
        body = stack.pop()
        out.append(body)
        for st in body:
            for fld in ("body", "orelse", "finalbody"):
                b = getattr(st, fld, None)
                if isinstance(b, list) and b and isinstance(b[0], ast.stmt) and not isinstance(st, (ast.FunctionDef, ast.ClassDef)):
                    stack.append(b)
            for h in getattr(st, "handlers", []) or []:
                stack.append(h.body)
    return out


class Emptied(Forward):
    """state True once the delocalised-subgraph field is known empty on this path"""

    def __init__(self, f, field, ik_name, cls=None, depth=0):
        super().__init__(f.node)
        self.f = f
        self.field = field
        self.ik = ik_name
        self.selfn = f.posparams[0]
        self.bad = []
        self.n_true = 0
        self.cls = cls
        self.depth = depth
        self.exits = []          # states at every normal exit (used for helper summaries)

    def _helper_clears(self, name):
        """a private method of the class leaves the field empty on every normal exit (e.g. `_localize_bonds` ends with
        `self.<field> = dict()`)"""
        if self.cls is None or self.depth >= 2:
            return False
        m = self.cls.methods.get(name)
        if m is None or m is self.f:
            return False
        e = Emptied(m, self.field, self.ik, self.cls, self.depth + 1)
        e.run(False)
        return bool(e.exits) and all(e.exits)

    def join(self, a, b):
        return a and b

    def _is_field(self, e):
        return isinstance(e, ast.Attribute) and e.attr == self.field and isinstance(e.value, ast.Name) and e.value.id == self.selfn

    def test(self, expr, state):
        e, neg = expr, False
        if isinstance(e, ast.UnaryOp) and isinstance(e.op, ast.Not):
            e, neg = e.operand, True
        if isinstance(e, ast.Call) and isinstance(e.func, ast.Attribute) and e.func.attr == self.ik and not e.args:
            return (state, True) if neg else (True, state)
        if self._is_field(e):
            return (True, state) if neg else (state, True)
        return state, state

    def simple(self, st, state):
        if isinstance(st, ast.Assign) and any(self._is_field(t) for t in st.targets):
            v = st.value
            empty = (isinstance(v, ast.Dict) and not v.keys) or (isinstance(v, ast.Call) and unparse(v.func) in ("dict", "list", "set") and not v.args and not v.keywords)
            return bool(empty)
        if isinstance(st, ast.Expr) and isinstance(st.value, ast.Call) and isinstance(st.value.func, ast.Attribute) \
                and st.value.func.attr == "clear" and self._is_field(st.value.func.value):
            return True
        call = st.value if isinstance(st, (ast.Expr, ast.Assign)) and isinstance(getattr(st, "value", None), ast.Call) else None
        if call is not None and isinstance(call.func, ast.Attribute) and isinstance(call.func.value, ast.Name) and call.func.value.id == self.selfn \
                and self._helper_clears(call.func.attr):
            return True
        for n in ast.walk(st):
            # anything that may add to the field again
            if isinstance(n, ast.Subscript) and isinstance(n.ctx, ast.Store) and self._is_field(n.value):
                return False
            if isinstance(n, ast.Call) and isinstance(n.func, ast.Attribute) and n.func.attr in ("setdefault", "update") and self._is_field(n.func.value):
                return False
        return state

    def exit(self, kind, node, state):
        if kind in ("return", "end"):
            self.exits.append(bool(state))
        if kind == "return" and isinstance(node, ast.Return) and isinstance(node.value, ast.Constant) and node.value.value is True:
            self.n_true += 1
            if not state:
                self.bad.append(node)


def check_completion(ctx, rep, K, IK, RULE="K4"):
    rets = [r for r in own_nodes(IK.node) if isinstance(r, ast.Return) and r.value is not None]
    field = None
    for r in rets:
        e = r.value
        if isinstance(e, ast.UnaryOp) and isinstance(e.op, ast.Not):
            e = e.operand
            if isinstance(e, ast.Attribute) and isinstance(e.value, ast.Name) and e.value.id == IK.posparams[0]:
                field = e.attr
        elif isinstance(e, ast.Compare) and isinstance(e.left, ast.Call) and unparse(e.left.func) == "len":
            a = e.left.args[0]
            if isinstance(a, ast.Attribute) and isinstance(e.comparators[0], ast.Constant) and e.comparators[0].value == 0 and isinstance(e.ops[0], ast.Eq):
                field = a.attr
    rep.ob(RULE, field is not None, IK.node, IK, construct="is_kekulized()", how="emptiness of the delocalised-subgraph field %s" % field,
           witness=None if field else "is_kekulized() is no longer the emptiness of the delocalised subgraph", key="is-kekulized")
    if field is None:
        return None
    # the field is the one aromatic atoms / bonds are registered in
    cls = ctx.db.classes[MG]
    reg = set()
    for api in ("add_atom", "add_bond", "add_ring_bond"):
        if api not in cls.methods:
            continue
        for q in ctx.cg.region(cls.methods[api]):
            g = ctx.db.funcs[q]
            if any(isinstance(n, ast.Attribute) and n.attr == field for n in own_nodes(g.node)):
                reg.add(api)
    ok = len(reg) >= 2
    rep.ob(RULE, ok, IK.node, IK, construct="aromatic atoms / bonds are registered in %s" % field, how="by code reachable from %s" % sorted(reg),
           witness=None if ok else "the field is_kekulized() tests is not the one aromatic atoms and bonds are registered in", key="ds-field")
    e = Emptied(K, field, IK.name, ctx.db.classes[MG])
    e.run(False)
    ok = not e.bad and e.n_true >= 1
    rep.ob(RULE, ok, e.bad[0] if e.bad else K.node, K, construct="success returns of kekulize() (%d)" % e.n_true,
           how="each is reached only with the delocalised subgraph known empty", nontrivial=True, key="success-empties",
           witness=None if ok else "kekulize() can report success while aromatic (1.5) bonds are still registered")
    rep.floor(RULE, 3)
    return field


def run(ctx, rep):
    M, K, IK = check_rejection(ctx, rep)
    ds_field = check_completion(ctx, rep, K, IK)
    if ds_field is None:
        # K4 has reported that is_kekulized() no longer tests the delocalised subgraph; the rules that model the subgraph field
        # (frame, pruning table, kept vertices) have no anchor and are skipped -- the run fails on K4
        rep.note("delocalised-subgraph field not identified (see K4): K2, K6, K8 not evaluated")
        check_symmetric(ctx, rep, M)
        check_search_state_local(ctx, rep, M)
        check_writeback_phases(ctx, rep, "K9")
        return
    check_frame(ctx, rep, K, ds_field)
    check_symmetric(ctx, rep, M)
    check_search_state_local(ctx, rep, M)
    # K5: which bonds enter the aromatic system at all: order 1.5 only where no bond symbol was written (shared with C03/R6)
    from rules.C03 import check_explicit_bond_symbols
    check_explicit_bond_symbols(ctx, rep, "K5")
    check_prune_table(ctx, rep, ds_field)
    check_vertices_are_kept(ctx, rep, "K8")
    check_writeback_phases(ctx, rep, "K9")


# ----------------------------------------------------------------------------- K6 pruning decision table
# (element, formal charge, explicit H count or None for an organic-subset atom, aromatic bonds, order sum of the other
#  bonds) -> True when the atom must be left out of the matching (it gets no double bond inside the aromatic system)
PRUNE_SPEC = [
    (("C", 0, None, 2, 0), False, "c  (aromatic CH)"),
    (("C", 0, None, 2, 1), False, "c  with a substituent"),
    (("C", 0, None, 3, 0), False, "c  ring-fusion atom"),
    (("C", 0, None, 2, 2), True, "c  with an exocyclic double bond (c=O)"),
    (("C", 0, 1, 2, 0), False, "[cH]"),
    (("N", 0, None, 2, 0), False, "n  (pyridine type)"),
    (("N", 0, 0, 2, 0), False, "[n]  (pyridine type, bracketed)"),
    (("N", 0, 1, 2, 0), True, "[nH]  (pyrrole type)"),
    (("N", 0, None, 2, 1), True, "n  with a substituent (N-substituted pyrrole type)"),
    (("N", 1, 0, 2, 1), False, "[n+] with a substituent (pyridinium)"),
    (("N", 1, 1, 2, 0), False, "[nH+]"),
    (("O", 0, None, 2, 0), True, "o  (furan type)"),
    (("S", 0, None, 2, 0), True, "s  (thiophene type)"),
    (("P", 0, None, 2, 0), False, "p  (phosphinine type)"),
    # satisfied by charge or substituents at the *upper* valence of the element (the look-up must cover every listed valence)
    (("S", 1, 0, 2, 1), True, "[s+]R  (S-alkylthiophenium: three sigma bonds, lone pair donated)"),
    (("O", 1, 0, 2, 1), True, "[o+]R  (O-alkylfuranium type)"),
    (("S", 0, None, 2, 2), True, "s(=O)  sulfur with an exocyclic double bond (thiophene S-oxide type)"),
    (("P", 0, None, 2, 3), True, "p(=O)R  pentavalent phosphorus (phosphole oxide type: satisfied by its substituents)"),
    # half-integral bond sums (an odd number of aromatic bonds): the electron count must not lose the half bond
    (("C", 0, 1, 1, 1), False, "[cH]-  with one aromatic and one explicit single ring bond"),
    (("N", 0, 0, 3, 0), True, "[n]3  ring-fusion nitrogen (three aromatic bonds)"),
]


def check_prune_table(ctx, rep, ds_field):
    """K6: for the standard aromatic atom kinds of the statement, the pruning predicate (abstractly interpreted on a graph
    state that contains just that atom) decides 'needs a pi bond' / 'needs none' as the aromaticity model says.  The
    arithmetic (valence tables, charges, hydrogens, radical electrons) is evaluated by the engine on exact rationals; no
    molecule is parsed or run."""
    from fractions import Fraction
    from sa.sym import Engine, Hooks, Num, Con, Tup, Obj
    from sa.lin import Lin
    from rules.C01 import count_field
    cls = ctx.db.classes[MG]
    P = None
    K = cls.methods["kekulize"]
    # the pruning predicate: the method of the class that kekulize() (or a helper) uses as a filter over the DS nodes and
    # that reads the valence table
    for q in ctx.cg.region(K):
        g = ctx.db.funcs[q]
        if g.cls is cls and g is not K and any(isinstance(n, ast.Name) and n.id == "AROMATIC_VALENCES" for n in own_nodes(g.node)) \
                and len(g.posparams) == 2:
            P = g
    if P is None:
        rep.note("pruning predicate not identified: decision table not evaluated")
        return
    cf = count_field(ctx)
    ga = cls.methods.get("get_atom")
    atoms_field = None
    for n in own_nodes(ga.node):
        if isinstance(n, ast.Return) and isinstance(n.value, ast.Subscript) and isinstance(n.value.value, ast.Attribute):
            atoms_field = n.value.value.attr
    if atoms_field is None:
        raise AnalysisError("atom list field of MolecularGraph not found")
    n_dec = 0
    for (el, ch, h, n_arom, other), want, label in PRUNE_SPEC:
        atom = Obj(("atom", label), "selfies.mol_graph.Atom", {"element": Con(el), "charge": Num(Lin.const(ch)),
                                                              "h_count": Con(None) if h is None else Num(Lin.const(h)),
                                                              "is_aromatic": Con(True), "index": Num(Lin.const(0))})
        count = Fraction(3, 2) * n_arom + other
        me = Obj(("self", P.qual), cls.qual, {ds_field: Tup([Tup([Num(Lin.const(7 + i)) for i in range(n_arom)], "list")], "list"),
                                             atoms_field: Tup([atom], "list"), cf: Tup([Num(Lin.const(count))], "list")})
        eng = Engine(ctx, Hooks(), inline_methods={m.qual for m in cls.methods.values() if m.name.startswith("_") and not m.name.startswith("__")})
        fr = eng.run_function(P, {P.posparams[0]: me, P.posparams[1]: Num(Lin.const(0))})
        vals = set()
        for s_, v in fr.returns:
            vals.add(v.value if isinstance(v, Con) and isinstance(v.value, bool) else None)
        if fr.raises or None in vals or len(vals) != 1:
            rep.note("pruning decision for %s is not a constant in the abstract run (%s): not decided" % (label, sorted(map(str, vals))))
            continue
        n_dec += 1
        got = vals.pop()
        rep.ob("K6", got is want, P.node, P, construct="pruning decision for %s" % label,
               how="%s" % ("left out of the matching (no double bond)" if want else "kept for the matching (needs one double bond)"),
               witness=None if got is want else "%s is %s, but this atom kind %s" % (label, "pruned" if got else "kept for the matching",
                                                                                  "needs a double bond inside the ring" if not want else "must not get one"),
               nontrivial=True, key="prune/%s" % label.split("  ")[0].strip())
    if n_dec < 10:
        raise AnalysisError("pruning decision table: only %d of %d standard atom kinds could be decided" % (n_dec, len(PRUNE_SPEC)))
    rep.floor("K6", 10)


def check_vertices_are_kept(ctx, rep, RULE="K8"):
    """K8: every atom that still needs a double bond is a vertex of the graph handed to the matcher -- also one that has no
    kept neighbour left (the matching then fails and the SMILES is rejected; an atom left out would silently stay without its
    double bond).  Structurally: the rows of the adjacency list are created one per element of the *kept-node collection*
    (the set computed from the delocalised subgraph with the pruning predicate), in the function that builds the graph; a row
    collection derived from anything else (e.g. the endpoints of the kept bonds) is reported."""
    from rules.shared import resolve_local
    M = ctx.fn("selfies.utils.matching_utils.find_perfect_matching")
    K = ctx.fn(MG + ".kekulize")
    cls = ctx.db.classes[MG]
    # the pruning predicate: the private method of the class that kekulize's region uses as a filter over the subgraph
    prune = cls.methods.get("_prune_from_ds")
    if prune is None:
        cands = [m for m in cls.methods.values() if m.name.startswith("_") and any(isinstance(r, ast.Return) and isinstance(r.value, ast.Constant)
                                                                              and isinstance(r.value.value, bool) for r in own_nodes(m.node))
                 and m.qual in set(ctx.cg.region(K)) and m is not K]
        prune = cands[0] if len(cands) == 1 else None
    if prune is None:
        rep.note("pruning predicate not identified: K8 (every kept atom is a vertex) not decided")
        return

    def mentions_prune(e):
        return any(isinstance(n, ast.Attribute) and n.attr == prune.name for n in ast.walk(e)) or \
            any(isinstance(n, ast.Name) and n.id == prune.name for n in ast.walk(e))

    def strip(e):
        while isinstance(e, ast.Call) and unparse(e.func) in ("sorted", "list", "tuple", "set", "frozenset") and len(e.args) == 1 and not e.keywords:
            e = e.args[0]
        return e

    def origin(g, e, depth=0):
        """'kept' if expression e (in g) denotes the kept-node collection or an order / container change of it; a description
        of what else it is otherwise; None when unknown"""
        for _ in range(6):
            e2 = strip(resolve_local(g, strip(e)))
            if e2 is e:
                break
            e = e2
        if mentions_prune(e) and isinstance(e, (ast.Call, ast.SetComp, ast.ListComp, ast.GeneratorExp)):
            # set(filterfalse(prune, ds)) / {n for n in ds if not prune(n)}: the element must be the iterated node itself
            if isinstance(e, (ast.SetComp, ast.ListComp, ast.GeneratorExp)):
                return "kept" if isinstance(e.elt, ast.Name) and isinstance(e.generators[0].target, ast.Name) and e.elt.id == e.generators[0].target.id \
                    else "a collection computed with the pruning predicate, but not of the nodes themselves"
            return "kept"
        if isinstance(e, ast.Name) and e.id in g.params and depth < 2:
            outs = set()
            for c in ctx.db.funcs.values():
                for s_ in ctx.cg.sites(c):
                    if g in s_.callees and isinstance(s_.node, ast.Call):
                        pos = g.posparams[1:] if g.is_method else g.posparams
                        arg = None
                        if e.id in pos and pos.index(e.id) < len(s_.node.args):
                            arg = s_.node.args[pos.index(e.id)]
                        for kw in s_.node.keywords:
                            if kw.arg == e.id:
                                arg = kw.value
                        outs.add(origin(c, arg, depth + 1) if arg is not None else None)
            return outs.pop() if len(outs) == 1 else None
        if isinstance(e, (ast.SetComp, ast.ListComp, ast.GeneratorExp)):
            return "a collection derived from %s" % unparse(e.generators[0].iter)[:40]
        return None
    n = 0
    for g in ctx.db.funcs.values():
        if g.qual not in set(ctx.cg.region(K)) and g is not K:
            continue
        # rows: `[list() for _ in range(len(R))]`, `[[...] for node in R]`, or a loop appending one row per element of R
        for nd in own_nodes(g.node):
            R = None
            if isinstance(nd, ast.ListComp) and len(nd.generators) == 1 and isinstance(nd.elt, (ast.List, ast.ListComp, ast.Call)):
                it = nd.generators[0].iter
                if isinstance(it, ast.Call) and unparse(it.func) == "range" and len(it.args) == 1 and isinstance(it.args[0], ast.Call) \
                        and unparse(it.args[0].func) == "len" and it.args[0].args:
                    R = it.args[0].args[0]
                elif isinstance(nd.elt, (ast.List, ast.ListComp)):
                    R = it
            if R is None:
                continue
            # only the row list that reaches the matcher: the comprehension is (assigned to) the matcher's argument in g or is returned by g
            par_assign = [x for x in own_nodes(g.node) if isinstance(x, ast.Assign) and x.value is nd and isinstance(x.targets[0], ast.Name)]
            is_ret = any(isinstance(x, ast.Return) and x.value is not None and any(y is nd for y in ast.walk(x.value)) for x in own_nodes(g.node))
            feeds = is_ret or any(isinstance(c, ast.Call) and any(M is h for s_ in ctx.cg.sites(g) if s_.node is c for h in s_.callees)
                                  and c.args and isinstance(c.args[0], ast.Name) and par_assign and c.args[0].id == par_assign[0].targets[0].id
                                  for c in own_nodes(g.node)) \
                or any(isinstance(x, ast.Return) and par_assign and any(isinstance(y, ast.Name) and y.id == par_assign[0].targets[0].id for y in ast.walk(x.value or ast.Constant(value=None)))
                       for x in own_nodes(g.node))
            if not feeds:
                continue
            o = origin(g, R)
            if o is None:
                rep.note("K8: the collection %s the matcher's rows are created from could not be traced: not decided" % unparse(R)[:40])
                continue
            n += 1
            rep.ob(RULE, o == "kept", nd, g, construct="rows of the matcher's graph: one per element of %s" % unparse(R)[:40],
                   how="that collection is the kept-node set (nodes of the subgraph filtered with %s), possibly sorted / copied" % prune.name,
                   witness=None if o == "kept" else "the vertices of the matcher's graph are %s, not the kept nodes: a kept atom without a kept "
                   "neighbour is left out, keeps no double bond, and kekulize() still reports success" % o, nontrivial=True,
                   key="vertices/%s" % ("kept" if o == "kept" else "other"))
    if not n:
        rep.note("K8: construction of the matcher's graph not recognised: not decided")


def check_writeback_phases(ctx, rep, RULE="K9"):
    """K9: in kekulize() (and the same-class helpers it calls, summarised by the constant orders they write) no call that
    writes the constant bond order 1 is reachable after a call that writes the constant order 2.  May-analysis on the
    structured control flow (sa/flow.py): state = have double bonds been written on some path reaching here."""
    K = ctx.fn(MG + ".kekulize")
    cls = ctx.db.classes[MG]
    sites = {id(s_.node): s_ for s_ in ctx.cg.sites(K)}

    def const_orders(f, call, callee):
        """constant orders a call passes to a bond-order writer: the callee's parameter that receives 1 / 2 literals"""
        out = []
        pos = callee.posparams[1:] if callee.is_method else callee.posparams
        for i, a in enumerate(call.args):
            if i < len(pos) and isinstance(a, ast.Constant) and type(a.value) is int and a.value in (1, 2):
                out.append((pos[i], a.value))
        for k in call.keywords:
            if k.arg is not None and isinstance(k.value, ast.Constant) and type(k.value.value) is int and k.value.value in (1, 2):
                out.append((k.arg, k.value.value))
        return out
    # the order parameter: a (method, parameter) that receives the literal 1 at one call and the literal 2 at another, within
    # kekulize's region of the class
    region = [K] + [m for m in cls.methods.values() if m is not K and m.qual in set(ctx.cg.region(K))]
    seen = {}
    for f in region:
        for s_ in ctx.cg.sites(f):
            if isinstance(s_.node, ast.Call) and len(s_.callees) == 1 and s_.callees[0].cls is cls:
                for par, val in const_orders(f, s_.node, s_.callees[0]):
                    seen.setdefault((s_.callees[0].qual, par), set()).add(val)
    writers = {k for k, v in seen.items() if v == {1, 2}}
    if len(writers) != 1:
        rep.note("K9: the bond-order writer called with the literal orders 1 and 2 from kekulize()'s region was not identified "
                 "(%d candidates): write-back phases not decided" % len(writers))
        return
    (wq, wpar), = writers

    bad = {}
    n_events = [0]

    def run_phases(f, state, depth):
        """may-dataflow over f's structured control flow; returns the union of the states at f's exits"""
        outs = []
        fsites = {id(x.node): x for x in ctx.cg.sites(f)}

        class Phases(Forward):
            def join(self, a, b):
                return a | b

            def exit(self, kind, node, state):
                if kind in ("return", "end"):
                    outs.append(state)

            def simple(self, st, state):
                for c in ast.walk(st.for_node.iter if hasattr(st, "for_node") else st):
                    if not isinstance(c, ast.Call):
                        continue
                    s_ = fsites.get(id(c))
                    if s_ is None or len(s_.callees) != 1:
                        continue
                    g = s_.callees[0]
                    if g.qual == wq:
                        for par, v in const_orders(f, c, g):
                            if par != wpar:
                                continue
                            n_events[0] += 1
                            if v == 2:
                                state = state | {"double"}
                            elif v == 1 and "double" in state:
                                bad[id(c)] = c
                    elif g.cls is cls and g is not K and g is not f and depth < 2:
                        state = run_phases(g, state, depth + 1)      # a helper of the class: its own control flow is replayed
                return state
        Phases(f.node).run(state)
        out = frozenset()
        for o in outs:
            out = out | o
        return out if outs else state
    run_phases(K, frozenset(), 0)
    if not n_events[0]:
        rep.note("K9: kekulize() writes no constant bond orders: write-back phases not decided")
        return
    w = None
    if bad:
        c = next(iter(bad.values()))
        w = "the reset to order 1 at line %d can run after a double bond of the matching has been written (same loop or later " \
            "statement): a bond already made double can be reset, depending on the iteration order of the subgraph" % c.lineno
    rep.ob(RULE, not bad, (next(iter(bad.values())) if bad else K.node), K, construct="order-1 resets and order-2 writes in kekulize()",
           how="may-dataflow over the structured control flow: no reset reachable after a double-bond write", witness=w, nontrivial=True,
           key="writeback-phases")
