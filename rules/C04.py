"""C04 — round trip preserves stereo marks on ring-closure bonds (clause level: transport of '/' '\\' marks).

S1 the set of marked ring symbols the encoder can print equals the decoder's marked ring entries, for each L
S2 end alignment: the encoder takes the first character from the directed bond whose source is the lower-indexed
   atom and the second from the reverse bond; the decoder's table maps the first / second character to the first /
   second mark; the ring-formation pass gives the first mark to the directed bond whose source is the ring's
   earlier (target) atom and the second to the reverse bond
S3 marks are only printed for order 1 (both directions of a ring bond have the same order)
S4 the encoder's inversion decision is the parity of the number of inversions of the out-bond permutation, for every
   ordering of up to five neighbours (abstract interpretation of the counting code on symbolic lists, rules/chiral.py)
S5 has_out_ring_bond means "the atom carries a ring bond": flag set for both ends where ring bonds are inserted and
   nowhere else, or any() over all out-bonds
S6 the parser gives each end of a ring-closure bond the mark written on its own ring digit
S7 the parsed graph whose chirality tags the encoder flips in place is owned by the call (not memoised / retained)
Not decided: that the permutation handed to the parity test is the one the decoder's ring-first placement induces (the
three-way partition and its sort key) -- a value-level combinatorial fact, DESIGN.md §4 C04.
"""
import ast

from sa import AnalysisError
from sa.db import own_nodes, unparse
from sa.lin import Lin, ge, le, eq
from sa.sym import Engine, Hooks, Num, Con, Tup, Obj, Unk, Str, vkey, assume
from sa.strlang import IntFacts
from rules import symlang, decmodel
from rules.C10 import format_templates
from spec import tables as SPEC

REGISTER = True
META = {
    "explanation": "A labelled dataflow follows the two stereo marks of a ring bond through both translators: the encoder's "
                   "prefix printer is summarised per path (which bond supplies which character, under which order), its call "
                   "site is checked for the orientation of the two directed bonds, the decoder's folded ring table and "
                   "ring-formation pass are checked for giving the first mark to the bond whose source is the earlier atom.",
    "trusted_base": ["spec/tables.py ring table", "named field invariant STEREO_DOMAIN"],
    "assumptions": [],
    "level_text": "Static labelled-dataflow check of mark transport on ring bonds through parser, encoder and decoder; "
                  "inversion-parity and ring-flag clauses of the tetrahedral rule; all inputs.",
    "level_note": "Clause-level. Decides mark transport on ring-closure bonds (S1-S3, S6) and two necessary conditions of the "
                  "@/@@ rule: the parity test is an inversion parity for all orderings of up to 5 neighbours (S4) and the "
                  "ring-bond flag means what it says (S5). That the permutation itself matches the decoder's placement is "
                  "not decided.",
    "technique": "symbolic path summaries (abstract interpretation on symbolic lists) + labelled dataflow (left/right roles) + constant folding of the ring table",
}


def run(ctx, rep):
    import re as _re
    shape = _re.compile(r"^\[\{\}[A-Za-z]+\{\}\]$")
    from rules.shared import fragment_printer, token_templates
    encf, frag = fragment_printer(ctx)
    ring_tab = __import__("rules.symlang", fromlist=["x"]).symbol_table(ctx, "ring")
    ring_call = None
    owner = frag
    for own, node, tmpl, args in token_templates(ctx, frag):
        if shape.match(tmpl) and "Ring" in tmpl and len(args) == 2:
            ring_call = (node, tmpl, args[0])
            owner = own
    if ring_call is None:
        raise AnalysisError("ring token template '[{}Ring{}]' not found in the encoder")
    node, tmpl, pcall = ring_call
    from rules.shared import ring_prefix_paths, resolve_local
    pcall = resolve_local(owner, pcall)
    rp = ring_prefix_paths(ctx, owner, node, pcall)
    P, eng, h, fr = rp["P"], rp["eng"], rp["h"], rp["frame"]
    lkey, rkey = rp["lkey"], rp["rkey"]
    class _FR:          # the per-path (state, prefix value) pairs, whatever the form
        returns = rp["paths"]
        raises = fr.raises
    fr = _FR
    marked_paths = 0
    printed = set()
    for st, v in fr.returns:
        try:
            d = h.sl.lang(v, st)
        except Exception as e:
            raise AnalysisError("ring prefix language: %s" % e)
        words = d.enumerate(limit=100)
        if words is None:
            raise AnalysisError("ring prefix language is not finite")
        printed |= set(words)
        two = [w for w in words if len(w) == 2]
        if not two:
            continue
        marked_paths += 1
        probs = []
        if not (isinstance(v, Str) or isinstance(v, Unk)):
            probs.append("marked prefix is not a concatenation of two characters")
        parts = _flatten(eng, v)
        if parts is None or len(parts) != 2:
            probs.append("marked prefix is not exactly (first mark)(second mark)")
        else:
            for pos, (part, own) in enumerate(zip(parts, (lkey, rkey))):
                if part[0] == "lit":
                    if part[1] != "-":
                        probs.append("literal %r used for an absent mark instead of '-'" % part[1])
                    # '-' must stand for 'this bond has no mark'
                    nn = None
                    for k_, v_ in st.atoms.items():
                        # (the epoch component of the attribute term depends on how many calls preceded the read)
                        if k_[0] == "isnone" and isinstance(k_[1], tuple) and k_[1][:3] == ("attr", own, "stereo"):
                            nn = v_ if nn is None or nn == v_ else "mixed"
                    if nn is not True:
                        probs.append("'-' at position %d is not tied to the %s bond having no mark" % (pos, "first" if pos == 0 else "second"))
                elif part[0] == "sym":
                    t = part[1]
                    if not (isinstance(t, tuple) and t[0] == "attr" and t[1] == own and t[2] == "stereo"):
                        probs.append("character %d is not the mark of the %s bond argument" % (pos, "first" if pos == 0 else "second"))
        # S3: order 1
        order_one = False
        for ep in range(0, 16):
            lo = ("attr", lkey, "order", ep)
            if st.entails(eq(Lin.var(lo), 1)):
                order_one = True
            k = ("eq", tuple(sorted([repr(vkey(Unk(lo))), repr(vkey(Num(Lin.const(1))))])))
            if st.atoms.get(k) is True:
                order_one = True
        if not order_one:
            probs.append("marks are printed although order == 1 is not entailed")
        rep.ob("S2", not probs, P.node, P, construct="marked prefix path %s" % sorted(two)[:3],
               how="first char = mark of bond argument 1 ('-' iff none), second = mark of bond argument 2; only for order 1",
               witness="; ".join(sorted(set(probs))) or None, nontrivial=True, key="printer/" + ("ok" if not probs else sorted(set(probs))[0][:40]))
    if not marked_paths:
        rep.ob("S2", False, P.node, P, construct="marked ring prefixes", witness="the encoder never prints a two-character ring prefix: marks on ring bonds are lost")
    for st, n, exc in fr.raises:
        if exc == "AssertionError":
            continue
    # ---- S1 set equality per L
    marked_enc = {w for w in printed if len(w) == 2}
    for L in sorted({v[1] for v in ring_tab.values()}):
        dec_marked = {k[1:3] for k, v in ring_tab.items() if v[1] == L and len(k) == len("[xxRing%d]" % L) and k.endswith("Ring%d]" % L)}
        ok = dec_marked == marked_enc
        rep.ob("S1", ok, None, None, loc="selfies/grammar_rules.py", construct="marked ring prefixes for L=%d" % L,
               how="encoder prints exactly the decoder's marked entries %s" % sorted(dec_marked),
               witness=None if ok else "encoder-only %s, decoder-only %s" % (sorted(marked_enc - dec_marked), sorted(dec_marked - marked_enc)),
               key="prefix-sets/L%d" % L, nontrivial=True)
    # decoder table maps characters positionally
    spec = SPEC.ring_table()
    for k, v in sorted(ring_tab.items()):
        if len(k) >= 3 and k[1:3] in marked_enc:
            want = (SPEC.STEREO_MARK[k[1]], SPEC.STEREO_MARK[k[2]])
            ok = v[0] == 1 and tuple(v[2]) == want
            rep.ob("S2", ok, None, None, loc="selfies/grammar_rules.py", construct="ring table entry %s" % k,
                   how="order 1; first character -> first mark, second -> second mark", key="table/" + k,
                   witness=None if ok else "entry %s decodes to %r, expected (1, L, %r)" % (k, v, want), nontrivial=not ok)
    # ---- encoder call site orientation
    probs = []
    if rp["form"] == "B":
        # the formatting function fetches the reverse bond itself
        bname = rp["rname"]
        if not rp["rev_ok"]:
            probs.append("first mark is not taken from the reverse of the ring bond (get_dirbond(src=b.dst, dst=b.src))")
    else:
      args = pcall.args
      a0, a1 = args
      # a1 is the loop's ring bond b (with b.src > b.dst on this path); a0 = get_dirbond(src=b.dst, dst=b.src)
      if not isinstance(a1, ast.Name) or not isinstance(a0, ast.Name):
        probs.append("prefix arguments are not two local bonds")
        bname = None
      else:
        defs = [n for n in own_nodes(owner.node) if isinstance(n, ast.Assign) and isinstance(n.targets[0], ast.Name) and n.targets[0].id == a0.id]
        okdef = False
        for d in defs:
            c = d.value
            if isinstance(c, ast.Call) and isinstance(c.func, ast.Attribute) and c.func.attr == "get_dirbond":
                kw = {k.arg: unparse(k.value) for k in c.keywords}
                pos = [unparse(x) for x in c.args]
                src = kw.get("src", pos[0] if pos else None)
                dst = kw.get("dst", pos[1] if len(pos) > 1 else None)
                if src == "%s.dst" % a1.id and dst == "%s.src" % a1.id:
                    okdef = True
        if not okdef:
            probs.append("first prefix argument is not the reverse of the second (get_dirbond(src=b.dst, dst=b.src))")
        bname = a1.id
    if bname is not None:
        # guard: b.src < b.dst -> skipped (so b.src > b.dst here: the reverse bond starts at the lower index)
        if owner is not frag and bname in owner.params:
            # the ring bond is a parameter of a helper: the guard is around the helper's call in the fragment printer
            actual = set()
            for s_ in ctx.cg.sites(frag):
                if owner in s_.callees and isinstance(s_.node, ast.Call):
                    pos = owner.posparams
                    if bname in pos and pos.index(bname) < len(s_.node.args) and isinstance(s_.node.args[pos.index(bname)], ast.Name):
                        actual.add(s_.node.args[pos.index(bname)].id)
                    for kw in s_.node.keywords:
                        if kw.arg == bname and isinstance(kw.value, ast.Name):
                            actual.add(kw.value.id)
            bname = actual.pop() if len(actual) == 1 else bname
        guards = [n for n in own_nodes(frag.node) if isinstance(n, ast.If) and unparse(n.test).replace(" ", "") == "%s.src<%s.dst" % (bname, bname)
                  and any(isinstance(x, ast.Continue) for x in n.body)]
        if not guards:
            # ... or the skip is conditioned on the ring flag too -- `if b.ring_bond and b.src < b.dst: continue` -- and the token is
            # made under `b.ring_bond`: with the flag known at the token, what was skipped is exactly b.src < b.dst
            from sa.guards import guard_facts as _gf
            from sa.discharge import noreturn_pred as _nr
            cmp_txt, flag_txt = "%s.src<%s.dst" % (bname, bname), "%s.ring_bond" % bname
            conj = [n for n in own_nodes(frag.node) if isinstance(n, ast.If) and any(isinstance(x, ast.Continue) for x in n.body) and not n.orelse
                    and isinstance(n.test, ast.BoolOp) and isinstance(n.test.op, ast.And)
                    and {unparse(v).replace(" ", "").strip("()") for v in n.test.values} == {cmp_txt, flag_txt}]
            if conj:
                facts = _gf(frag, _nr(ctx, frag))
                sites2 = [node] if owner is frag else [s_.node for s_ in ctx.cg.sites(frag) if owner in s_.callees]
                if sites2 and all(any(fc[0] == "truthy" and fc[1].replace(" ", "") == flag_txt for fc in facts.get(id(sn), frozenset())) for sn in sites2):
                    guards = conj
        if not guards:
            # ... or the positive spelling: the ring symbol is produced under a dominating `b.src >= b.dst` (guard facts at the
            # site that formats the token, or that calls the helper which does)
            from sa.guards import guard_facts
            from sa.discharge import noreturn_pred
            gf = guard_facts(frag, noreturn_pred(ctx, frag))
            sites_ = [node] if owner is frag else [s_.node for s_ in ctx.cg.sites(frag) if owner in s_.callees]
            b_ = bname
            accepted = {"not(%s.src<%s.dst)" % (b_, b_), "%s.src>=%s.dst" % (b_, b_), "%s.src>%s.dst" % (b_, b_), "%s.dst<%s.src" % (b_, b_),
                        "%s.dst<=%s.src" % (b_, b_), "not(%s.dst>%s.src)" % (b_, b_)}
            ok_sites = [sn for sn in sites_ if any(fc[0] == "cmp" and fc[1].replace(" ", "") in accepted for fc in gf.get(id(sn), frozenset()))]
            if sites_ and len(ok_sites) == len(sites_):
                guards = ok_sites
        if not guards:
            probs.append("the ring symbol is not restricted to the closing end (b.src > b.dst): orientation of the marks is undetermined")
    rep.ob("S2", not probs, pcall, frag, construct="orientation at the encoder's ring symbol", how="first argument = bond from the earlier atom, second = bond from the closing atom",
           witness="; ".join(probs) or None, nontrivial=True, key="encoder-orientation/" + ("ok" if not probs else probs[0][:40]))
    # ---- decoder ring-formation pass: marks to ends
    m = decmodel.extract(ctx)
    S = m["roles"]["second"]
    from rules.C01 import CallLog
    hl = CallLog({"add_ring_bond"})
    eng2 = Engine(ctx, hl)
    eng2.run_function(S)
    path = None
    for it in decmodel.iterations(m):
        for q in it.events("queue"):
            v = q.data["value"]
            if isinstance(v, Tup) and len(v.items) == 3:
                path = (v, it)
    if path is None:
        raise AnalysisError("queued ring tuple not found")
    n = 0
    for callee, node2, a, st in hl.log:
        n += 1
        probs = []
        ea, eb, sa_, sb_ = a.get("a"), a.get("b"), a.get("a_stereo"), a.get("b_stereo")
        # elem positions: a is index of elem[0]; b of elem[1]; a_stereo = elem[2][1][0]; b_stereo = elem[2][1][1]
        def pos_of(v):
            t = v.term if isinstance(v, Unk) else None
            p = []
            while isinstance(t, tuple) and t and t[0] == "item":
                p.append(t[2])
                t = t[1]
            return tuple(reversed(p)), t
        def owner_pos(e):
            if isinstance(e, Unk) and isinstance(e.term, tuple) and e.term[0] == "attr" and e.term[2] == "index":
                k = e.term[1]
                if k[0] == "unk":
                    return pos_of(Unk(k[1]))[0]
            return None
        pa, pb = owner_pos(ea), owner_pos(eb)
        psa, psb = pos_of(sa_)[0] if isinstance(sa_, Unk) else None, pos_of(sb_)[0] if isinstance(sb_, Unk) else None
        if pa != (0,) or pb != (1,):
            probs.append("ring bond endpoints are not (queued left atom, queued right atom)")
        if psa != (2, 1, 0) or psb != (2, 1, 1):
            probs.append("first/second mark of the queued ring is not given to the left/right end respectively (got %s, %s)" % (psa, psb))
        rep.ob("S2", not probs, node2, S, construct="marks at ring formation", how="a_stereo = first mark (left = earlier atom), b_stereo = second mark",
               witness="; ".join(probs) or None, nontrivial=True, key="decoder-orientation/" + ("ok" if not probs else probs[0][:40]))
    if not n:
        raise AnalysisError("ring formation call not found")
    # add_ring_bond attaches a_stereo to the bond whose source is a
    arb = ctx.fn("selfies.mol_graph.MolecularGraph.add_ring_bond")
    ctor = [c for c in own_nodes(arb.node) if isinstance(c, ast.Call) and isinstance(c.func, ast.Name) and c.func.id == "DirectedBond"]
    init = ctx.db.funcs.get("selfies.mol_graph.DirectedBond.__init__")
    fields = [p_ for p_ in (init.posparams if init is not None else []) if p_ != "self"]

    def bound(c):
        d = {}
        for i_, a_ in enumerate(c.args):
            if i_ < len(fields):
                d[fields[i_]] = unparse(a_)
        for k_ in c.keywords:
            if k_.arg:
                d[k_.arg] = unparse(k_.value)
        return d
    bs = [bound(c) for c in ctor]
    # roles of the constructor's fields: the first is the source, the mark field is the one that receives the *_stereo parameters
    ok = len(ctor) == 2 and len(fields) >= 4 and {(b_.get(fields[0]), b_.get("stereo", b_.get(fields[3]))) for b_ in bs} == {("a", "a_stereo"), ("b", "b_stereo")}
    rep.ob("S2", ok, arb.node, arb, construct="add_ring_bond mark attachment", how="DirectedBond(a, b, .., a_stereo) and DirectedBond(b, a, .., b_stereo)",
           witness=None if ok else "a mark is attached to the directed bond of the other end", key="graph-attachment", nontrivial=True)
    # ---- S3: both directions of a ring bond carry one order (so 'order == 1' of the first covers both)
    orders = {b_.get("order", b_.get(fields[2]) if len(fields) > 2 else None) for b_ in bs} if ctor else set()
    rep.ob("S3", len(orders) == 1 and None not in orders, arb.node, arb, construct="ring bond order in both directions", how="one order expression",
           witness=None if len(orders) == 1 else "the two directions of a ring bond can have different orders", key="same-order")
    rep.floor("S1", 3)
    rep.floor("S2", 10)
    from rules import chiral
    chiral.check_parity(ctx, rep, "S4")
    chiral.check_ring_flag(ctx, rep, "S5")
    chiral.check_ring_closure_marks(ctx, rep, "S6")
    # S7: the encoder flips chirality tags in place on the parsed graph: that graph must be the call's own (a memoised or
    # otherwise retained parse would be flipped again by the next encoding of the same string)
    from sa.effects import Effects
    from rules.shared import check_fresh_return
    check_fresh_return(ctx, Effects(ctx), rep, ctx.fn("selfies.utils.smiles_utils.smiles_to_mol"), "S7", "smiles_to_mol")


def _flatten(eng, v):
    """list of parts ('lit', s) / ('sym', term) of a concatenation value (following 'add' provenance)"""
    if isinstance(v, Con) and isinstance(v.value, str):
        return [("lit", v.value)] if v.value else []
    if isinstance(v, Str):
        out = []
        for p in v.parts:
            if p[0] == "sym":
                sub = _flatten(eng, Unk(p[1]))
                if sub is None:
                    return None
                out.extend(sub)
            else:
                out.append(p)
        return out
    if isinstance(v, Unk):
        o = eng.origin.get(v.term)
        if o and o[0] == "add":
            a, b = _flatten(eng, o[1]), _flatten(eng, o[2])
            if a is None or b is None:
                return None
            return a + b
        return [("sym", v.term)]
    return None
