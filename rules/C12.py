"""C12 — constraint configuration API: faithful set/get, atomic rejection, no aliasing.

G1 returned objects of the public configuration getters are fresh per call (allocation inside
   the call, never stored into retained state, function not memoised)
G2 what is bound to the live table is a fresh copy (never the caller's dict, never a preset object)
G3 atomic rejection: in the setter no raise point is reachable after a write to module state
G4 no in-place mutation of presets / the live table outside import-time initialisation
G5 faithfulness: the stored table is a plain shallow copy of the argument (or of the named
   preset); the getter returns a plain shallow copy of the live table
G6 every path from a table rebinding to a normal exit clears every memo that reads the table
"""
import ast

from sa import AnalysisError
from sa.db import own_nodes, unparse
from sa.effects import Effects
from sa.flow import Forward
from sa.pts import IMM, UNK
from rules.shared import memo_readers, check_fresh_return, MemoFlow

META = {
    "explanation": "Static ownership/effect analysis of selfies.bond_constraints: allocation-site points-to "
                   "analysis decides which objects the getters return and what the setter binds (G1, G2, G4, G5); "
                   "a forward dataflow over the setter's control flow decides that no raise point follows a "
                   "state write (G3) and that every memo reading the table is cleared on every path after a "
                   "rebinding (G6). Covers all call histories because the rules quantify over every path of "
                   "the four configuration functions.",
    "trusted_base": ["external effect table for builtins (dict()/set() allocate, .update mutates, ...)",
                     "functools.lru_cache retains and re-issues the returned object until cache_clear()",
                     "callers pass a str or dict as annotated"],
    "assumptions": ["dict values are ints (immutable) as the setter's validation enforces"],
}

CONFIG_GETTERS = ["get_semantic_constraints", "get_preset_constraints", "get_semantic_robust_alphabet"]


class AtomicFlow(Forward):
    """state: frozenset of descriptions of module-state writes that may already have happened"""

    def __init__(self, ctx, eff, f, rep, depth=0, seen=None, rule="G3"):
        super().__init__(f.node)
        self.ctx, self.eff, self.f, self.rep = ctx, eff, f, rep
        self.rule = rule
        self.depth = depth
        self.sites = {id(s.node): s for s in ctx.cg.sites(f)}
        self.writes = {}
        for r in eff.direct_writes(f.qual):
            self.writes.setdefault(id(r.node), []).append(r)
        self.raise_points = 0
        self.seen = seen or set()

    def join(self, a, b):
        return a | b

    def _raise_points(self, node):
        """(node, reason) for sub-expressions of node that may raise"""
        out = []
        for n in ast.walk(node):
            if isinstance(n, (ast.FunctionDef, ast.Lambda)) and n is not node:
                continue
            if isinstance(n, ast.Call):
                s = self.sites.get(id(n))
                if s is None:
                    continue
                for g in s.callees:
                    if self.eff.may_raise(g):
                        out.append((n, "call of %s, which may raise" % g.qual))
                for x in s.ext:
                    if x.endswith(".cache_clear") or x.startswith("new:"):
                        continue
        return out

    def simple(self, st, state):
        if isinstance(st, (ast.FunctionDef, ast.ClassDef)):
            return state
        for n, why in self._raise_points(st):
            self.raise_points += 1
            self._check(n, state, why)
        if isinstance(st, ast.Assert):
            self.raise_points += 1
            self._check(st, state, "assert")
        new = set(state)
        # writes performed by callees
        for n in ast.walk(st):
            if isinstance(n, ast.Call):
                s = self.sites.get(id(n))
                if s is not None:
                    for g in s.callees:
                        for r in self.eff.writes(g):
                            new.add("%s in %s" % (r.detail or r.op, g.qual))
        for r in self.writes.get(id(st), []):
            new.add("%s at %s" % (r.detail or r.op, self.f.loc(st)))
        # records attached to sub-nodes (mutator calls inside the statement)
        for n in ast.walk(st):
            if n is not st:
                for r in self.writes.get(id(n), []):
                    new.add("%s at %s" % (r.detail or r.op, self.f.loc(n)))
        return frozenset(new)

    def test(self, expr, state):
        for n, why in self._raise_points(expr):
            self.raise_points += 1
            self._check(n, state, why)
        return state, state

    def _check(self, node, state, why):
        ok = not state
        self.rep.ob(self.rule, ok, node, self.f, how="no module-state write can precede this raise point (%s)" % why,
                    witness=None if ok else "raise point (%s) reachable after write(s): %s" % (why, "; ".join(sorted(state))),
                    nontrivial=True)

    def exit(self, kind, node, state):
        if kind == "raise":
            self.raise_points += 1
            self._check(node, state, "explicit raise")


def check_rejects_invalid(ctx, rep, setter):
    """G3b: the setter has no normal-return path that is compatible with an invalid argument.  The abstract interpreter
    explores the setter with an unknown argument; each path that returns normally must carry path facts that contradict
    (1) 'a dict without the "?" key', (2) 'neither a str nor a dict', (3) 'a str that is not a preset name' -- otherwise
    some such input is accepted silently (e.g. an argument replaced by a default when it is falsy: {} , "" , 0)."""
    from sa.sym import Engine, Hooks, Unk
    if not setter.posparams:
        raise AnalysisError("setter has no parameter")
    arg = Unk(("arg",))
    akey = ("unk", ("arg",))
    fr = Engine(ctx, Hooks()).run_function(setter, {setter.posparams[0]: arg})
    if not fr.returns:
        raise AnalysisError("setter has no normal return path")

    def val(st, pred):
        for k, v in st.atoms.items():
            if pred(k):
                return v
        return None
    import re as _re

    def _types(k):
        return set(_re.findall(r"builtins\.(\w+)", str(k[2]))) if k[0] == "isinstance" and k[1] == akey else None
    _is_str = lambda k: _types(k) == {"str"}
    _is_dict = lambda k: _types(k) == {"dict"}
    _is_either = lambda k: _types(k) == {"str", "dict"}
    has_q = lambda k: k[0] == "in" and k[1] == ("con", repr("?")) and k[2] == akey
    in_presets = lambda k: k[0] == "in" and k[1] == akey and isinstance(k[2], tuple) and k[2][0] == "folded"
    def str_fact(s_):
        # isinstance(arg, str), directly or through isinstance(arg, (str, dict)) together with the dict test
        v, e, d = val(s_, _is_str), val(s_, _is_either), val(s_, _is_dict)
        if v is not None:
            return v
        if e is False or d is True:
            return False
        if e is True and d is False:
            return True
        return None

    def dict_fact(s_):
        v, e, t = val(s_, _is_dict), val(s_, _is_either), val(s_, _is_str)
        if v is not None:
            return v
        if e is False or t is True:
            return False
        if e is True and t is False:
            return True
        return None
    seen_type_tests = any(str_fact(s_) is not None or dict_fact(s_) is not None for s_, _ in fr.returns)
    if not seen_type_tests:
        rep.note("the setter does not classify its argument with isinstance(): completeness of the rejection not decided")
        return
    scen = {
        "a dict without the '?' key": lambda s_: dict_fact(s_) is False or val(s_, has_q) is True or str_fact(s_) is True,
        "an argument that is neither a str nor a dict": lambda s_: str_fact(s_) is True or dict_fact(s_) is True or val(s_, _is_either) is True,
        "a str that is not a preset name": lambda s_: str_fact(s_) is False or val(s_, in_presets) is True,
    }
    # G2b: ... and every normal return for a dict (or a str) argument has bound the table on that very path: an early return
    # that keeps the old table (e.g. "nothing seems to change") makes set(t); get() differ from t
    tv = sorted({n for (_m, n) in Effects(ctx).table_vars()[1]} | set(setter.declared_global))
    unbound = [s_ for s_, _v in fr.returns if (dict_fact(s_) is True or str_fact(s_) is True) and not any(("$global:" + n) in s_.env for n in tv)]
    rep.ob("G2", not unbound, setter.node, setter, construct="normal returns of the setter (%d path(s))" % len(fr.returns),
           how="each has rebound the table variable %s on its own path" % sorted(tv),
           witness=None if not unbound else "the setter can return normally for a valid argument without installing it (%d path(s)): "
           "get_semantic_constraints() then differs from what was set" % len(unbound), nontrivial=True, key="bind/every-return")
    rets = [r for r in own_nodes(setter.node) if isinstance(r, ast.Return)]
    for what, contradicted in scen.items():
        bad = [s_ for s_, _v in fr.returns if not contradicted(s_)]
        w = None
        if bad:
            facts = sorted("%s is %s" % (str(k)[:60], v) for k, v in bad[0].atoms.items() if "arg" in repr(k))
            w = "the setter can return normally for %s (path facts: %s): the invalid input is accepted instead of raising ValueError" % (what, facts or "none")
        rep.ob("G3", not bad, setter.node, setter, construct="rejection of %s" % what, how="no normal-return path is compatible with it (%d path(s))" % len(fr.returns),
               witness=w, nontrivial=True, key="rejects/%s" % what.split()[1])


def check_entry_validation(ctx, rep, setter):
    """G3c: every entry of a dict argument is validated.  One symbolic iteration of the loop over <argument>.items() (in the
    setter or in a helper it calls) is summarised per path; each path that goes on to the next entry must carry the facts
    `isinstance(value, int)` and `value >= 0` for this entry's value -- a path that skips them (an entry taken on trust) lets
    an invalid table through, against 'an invalid update raises ValueError and leaves everything as before'."""
    from sa.sym import Engine, Hooks, Unk
    from sa.lin import Lin as _Lin, ge as _ge
    loops = []

    class H(Hooks):
        def on_loop(self, eng, fr, node, syms, entered, back, exits, breaks):
            it = getattr(node, "iter", None)
            if isinstance(it, ast.Call) and isinstance(it.func, ast.Attribute) and it.func.attr == "items" and not it.args \
                    and isinstance(node.target, ast.Tuple) and len(node.target.elts) == 2 and isinstance(node.target.elts[1], ast.Name):
                vals = {vkey_(b.env.get(node.target.elts[1].id)) for b in entered}
                loops.append((fr.func, node, entered, back + breaks))
    from sa.sym import vkey as vkey_
    arg = Unk(("arg",))
    Engine(ctx, H()).run_function(setter, {setter.posparams[0]: arg})
    mine = []
    for f, node, entered, outs in loops:
        if not entered:
            continue
        v = entered[0].env.get(node.target.elts[1].id)
        k = vkey_(v) if v is not None else None
        # the loop ranges over the argument's own items
        if k and "('arg',)" in repr(k) and "'items'" in repr(k):
            mine.append((f, node, v, outs))
    if not mine:
        rep.note("no loop over <argument>.items() found in the setter: per-entry validation not decided")
        return
    for f, node, v, outs in mine:
        bad = []
        for b in outs:
            is_int = any(k_[0] == "isinstance" and k_[1] == vkey_(v) and "int" in str(k_[2]) and val_ is True for k_, val_ in b.atoms.items())
            nonneg = isinstance(v, Unk) and b.entails(_ge(_Lin.var(v.term), 0))
            if not (is_int and nonneg):
                bad.append((is_int, nonneg))
        w = None
        if bad:
            w = "%d of %d path(s) through one entry go on without %s: such an entry (e.g. a float, a negative or a str capacity) is installed " \
                "instead of raising ValueError" % (len(bad), len(outs), "the int test" if not bad[0][0] else "the >= 0 test")
        rep.ob("G3", not bad, node, f, construct="validation of every entry's value (%d path(s) per entry)" % len(outs),
               how="isinstance(value, int) and value >= 0 are facts on every path that continues with the next entry", witness=w, nontrivial=True,
               key="entry-values/%s" % ("ok" if not bad else "skipped"))


def run(ctx, rep):
    eff = Effects(ctx)
    pt = ctx.pt
    setter, table_vars = eff.table_vars()
    if not table_vars:
        raise AnalysisError("set_semantic_constraints rebinds no module-level table (anchor lost)")
    table_objs = eff.table_objects()
    preset_objs = set()
    for tv in table_vars:
        pass
    # preset containers: module-level dict objects whose contents are table objects
    for (scope, name), ids in pt.var.items():
        if scope.startswith("mod:"):
            for i in ids:
                if isinstance(i, tuple) and i[0] == "alloc" and pt.objs[i].contents & table_objs:
                    preset_objs.add(i)
                    preset_objs |= {j for j in pt.objs[i].contents if isinstance(j, tuple)}
    protected = table_objs | preset_objs

    # ---- G1
    for name in CONFIG_GETTERS:
        f = ctx.api(name)
        check_fresh_return(ctx, eff, rep, f, "G1", name)
    rep.floor("G1", 3, "three configuration getters")

    # ---- G2 / G5 on every rebinding of the table
    n_rebind = 0
    for r in pt.records(setter.qual):
        if r.op != "rebind-global":
            continue
        n_rebind += 1
        vals = [i for i in r.values if i != IMM]
        if not vals:
            rep.ob("G2", False, r.node, setter, witness="table bound to a non-container value")
        for i in vals:
            bad = None
            if i == UNK:
                bad = "table bound to an unknown object"
            elif i[0] == "extparam":
                bad = "table bound to the caller's own object (parameter %s): later caller-side mutation changes the library's table" % i[2]
            elif i[0] == "alloc" and (i[1].startswith("mod:")):
                bad = "table bound to a preset object itself (%s): the preset can then change with the table" % pt.describe(i)
            elif i[0] == "alloc":
                o = pt.objs[i]
                deep = [j for j in o.contents if isinstance(j, tuple) and j[0] in ("extparam",)]
                if deep:
                    bad = "table contains caller-owned mutable objects"
            rep.ob("G2", bad is None, r.node, setter, construct="%s := %s" % (r.detail, pt.describe(i)),
                   how="bound value is a fresh copy", witness=bad, nontrivial=True,
                   key="bind/%s" % ("bad:" + str(i[0]) if bad else "fresh-copy"))
            # G5: plain shallow copy of the argument / of a preset
            if bad is None and isinstance(i, tuple) and i[0] == "alloc":
                o = pt.objs[i]
                src = set(o.copy_of)
                ok = bool(src) and all((s[0] == "extparam" and s[1] == setter.qual) or s in preset_objs for s in src)
                rep.ob("G5", ok, o.site[1] if o.site else r.node, ctx.db.funcs.get(i[1], setter),
                       construct="stored table %s" % pt.describe(i),
                       how="plain shallow copy (dict(x) / x.copy() / identity comprehension) of the argument or a preset",
                       witness=None if ok else "the stored table is not a plain copy of the argument/preset "
                       "(copy sources: %s) — entries may be filtered or rewritten" % [pt.describe(s) for s in src],
                       nontrivial=True, key="stored/%s" % ("plain-copy" if ok else "not-plain-copy:" + i[4]))
    if n_rebind < 1:
        raise AnalysisError("the setter does not rebind the table (anchor lost)")
    # getter returns a plain copy of the live table
    g = ctx.api("get_semantic_constraints")
    for i in pt.v(g.qual, "<ret>"):
        if isinstance(i, tuple) and i[0] == "alloc":
            o = pt.objs[i]
            ok = bool(o.copy_of) and o.copy_of <= table_objs and o.kind == "dict"
            rep.ob("G5", ok, o.site[1], g, construct="get_semantic_constraints returns %s" % pt.describe(i),
                   how="plain shallow copy of the live table",
                   witness=None if ok else "returned dict is not a plain copy of the live table", nontrivial=True,
                   key="getter/%s" % ("plain-copy" if ok else "not-plain-copy"))
    g = ctx.api("get_preset_constraints")
    for i in pt.v(g.qual, "<ret>"):
        if isinstance(i, tuple) and i[0] == "alloc":
            o = pt.objs[i]
            ok = bool(o.copy_of) and o.copy_of <= preset_objs and o.kind == "dict"
            rep.ob("G5", ok, o.site[1], g, construct="get_preset_constraints returns %s" % pt.describe(i),
                   how="plain shallow copy of a preset",
                   witness=None if ok else "returned dict is not a plain copy of a preset", nontrivial=True,
                   key="preset-getter/%s" % ("plain-copy" if ok else "not-plain-copy"))
    rep.floor("G5", 4)

    # ---- G4: in-place mutation of presets / table outside import time
    n_sites = 0
    for r in pt.recs.values():
        if r.op in ("store-sub", "store-attr", "mutcall", "del", "aug"):
            n_sites += 1
            hit = [t for t in r.targets if t in protected]
            if not hit:
                continue
            import_time = r.scope.startswith("mod:")
            f = ctx.db.funcs.get(r.scope)
            if import_time:
                m = ctx.db.modules[r.scope[4:]]
                rep.ob("G4", True, r.node, None, construct=r.detail, loc="%s:%d" % (m.rel, r.node.lineno),
                       how="import-time initialisation of a preset", key="import/" + r.detail)
            else:
                rep.ob("G4", False, r.node, f, construct=r.detail,
                       witness="in-place %s of %s after import" % (r.op, [pt.describe(h) for h in hit][:2]),
                       nontrivial=True)
    rep.ob("G4", True, None, None, construct="all %d store/mutation sites of the package" % n_sites, loc="selfies/",
           how="no function-scope site targets a preset or live-table object", key="scan", nontrivial=True)

    # ---- G3
    af = AtomicFlow(ctx, eff, setter, rep)
    af.run(frozenset())
    if af.raise_points < 3:
        raise AnalysisError("setter has %d raise points; validation anchors lost" % af.raise_points)

    # ---- G3 (completeness of the rejection): every invalid input is rejected on every path
    check_rejects_invalid(ctx, rep, setter)
    check_entry_validation(ctx, rep, setter)

    # ---- G6
    plain, selfkeyed = memo_readers(ctx, eff, table_vars)
    if len(plain) < 2:
        rep.note("fewer memoised readers of the table than on the confirmed tree: %s" % [m.qual for m in plain])
    mf = MemoFlow(ctx, eff, setter, rep, plain, table_vars)
    mf.run(frozenset())
    rep.floor("G6", 1)
    # rebinding sites elsewhere?
    for r in pt.recs.values():
        if r.op == "rebind-global" and r.scope != setter.qual and any((t[1], t[2]) in table_vars for t in r.targets):
            f = ctx.db.funcs.get(r.scope)
            rep.ob("G6", False, r.node, f, witness="table rebound outside the setter without the memo-clearing protocol")
    for m in selfkeyed:
        c = m.cls
        has_eq = any(n in c.methods for n in ("__eq__", "__hash__"))
        ok = not has_eq and not c.is_dataclass
        rep.ob("G6", ok, m.node, m, construct="per-instance memo %s" % m.qual,
               how="keyed by instance identity (class defines no __eq__/__hash__); instances are created per call",
               witness=None if ok else "memo keyed by value-equal instances can serve a stale capacity after a table change",
               key="selfkeyed/" + m.qual)
    rep.analysed.update({"setter": setter.qual, "table_vars": sorted(".".join(t) for t in table_vars),
                         "memos": [m.qual for m in plain], "raise_points": af.raise_points,
                         "mutation_sites_scanned": n_sites})

REGISTER = True
META.update({
    "level_text": "Static proof-by-analysis of structural obligations G1-G6 over every path of the four configuration "
                  "functions: covers all call histories (set/get/reject/mutate-returned-object) because each obligation "
                  "is a statement about all paths and all objects (allocation-site abstraction). Decides the whole "
                  "property under the stated trusted base.",
    "level_note": "Trusted: external effect table for builtins, lru_cache semantics, annotated parameter types. "
                  "Known finding F1 (alphabet getter returns its memoised set) is listed in known_findings.json.",
    "technique": "allocation-site points-to/escape analysis + forward dataflow (write-before-raise, must-clear-memo) over the AST",
})
