"""C11 — translation is a pure function of the input and the current constraint table.

Frame rule over the module-state inventory (E4); every premise is a checked structural rule:

P1 shared objects read by the translators have no write site after import
P2 the symbol cache: single store of a shape-immutable value computed from the key alone (no read of
   the table or of a memo of it; never an Atom instance)
P3 no object mutated by a translator is retained across calls (atoms, graphs, bonds, token lists are
   allocated per call)
P4 every memo whose body reads the table is cleared on every path after every table rebinding
P5 per-instance memo (Atom.bonding_capacity) is keyed by identity of per-call objects
P6 objects the public API returns, or was given, that stay retained are never read by the translators
P7 no nondeterminism source (random/time/environment/id()/hash(), iteration order of str-sets) in the
   translation regions
P8 with strict=False nothing reachable from encoder() reads the constraint table or a memo of it
"""
import ast

from sa import AnalysisError
from sa.cg import live_nodes
from sa.db import unparse
from sa.effects import Effects
from sa.tyinf import FuncEnv
from rules.shared import memo_readers, MemoFlow, retention_reason, require_resolved
from rules.C19 import (translation_regions, find_cache_stores, scan_mutations, scan_global_rebinds,
                       scan_shared_readonly)

REGISTER = True
META = {
    "explanation": "Frame argument over the inventory of module state computed by a whole-package points-to/effect "
                   "analysis: the only state that survives a call is (a) constant tables never written after import "
                   "(P1), (b) the symbol cache, whose entries are shape-immutable functions of the key alone (P2), "
                   "(c) table memos cleared on every rebinding (P4, P5); everything a translator mutates is allocated "
                   "inside the call (P3); returned/passed objects that stay retained are not read by translators (P6); "
                   "no nondeterminism source is reachable (P7); strict=False never reads the table (P8). Hence "
                   "the result depends on the input and the current table only, for every call history.",
    "trusted_base": ["external effect table for builtins", "functools.lru_cache semantics",
                     "iteration order of int-keyed sets and of dicts does not depend on the hash seed"],
    "assumptions": ["no monkey-patching of module state from outside the public API"],
    "level_text": "Static frame-rule argument P1-P8 over all module state; covers all call histories because it bounds "
                  "what any call can leave behind, instead of sampling histories.",
    "level_note": "Trusted: builtin effect table, lru_cache semantics. Flow-insensitive allocation-site abstraction "
                  "(sound over-approximation). Value-level dependence of cached scalars on the table is additionally "
                  "checked by the taint rule P2b.",
    "technique": "points-to/effect analysis + must-clear dataflow + nondeterminism-source scan over the call graph",
}

NONDET_EXT_PREFIXES = ("random.", "time.", "os.environ", "os.urandom", "os.getpid", "uuid.", "secrets.", "datetime.",
                       "builtins.id", "builtins.hash", "os.getenv", "threading.", "numpy.random")


def scan_nondeterminism(ctx, rep, region, rule="P7"):
    n_calls = n_iters = 0
    for q in sorted(region):
        f = ctx.db.funcs[q]
        for s in ctx.cg.sites(f):
            for x in s.ext:
                n_calls += 1
                if x.startswith(NONDET_EXT_PREFIXES) or x in ("builtins.id", "builtins.hash"):
                    rep.ob(rule, False, s.node, f, witness="call of %s: result differs between runs/processes" % x)
        env = FuncEnv(ctx.ty, f)
        env.readonly = True
        from sa.db import own_nodes
        for n in own_nodes(f.node):
            iters = []
            if isinstance(n, (ast.For, ast.comprehension)):
                iters.append(n.iter)
            elif isinstance(n, ast.Call):
                d = n.func.id if isinstance(n.func, ast.Name) else None
                if d in ("list", "tuple", "iter", "enumerate", "next", "zip", "map", "filter", "reversed") and n.args:
                    iters.extend(a for a in n.args if not isinstance(a, ast.Starred))
                elif d == "join" or (isinstance(n.func, ast.Attribute) and n.func.attr == "join" and n.args):
                    iters.append(n.args[0])
                elif isinstance(n.func, ast.Attribute) and n.func.attr == "pop" and not n.args:
                    iters.append(n.func.value)
            for it in iters:
                t = env.expr(it)
                for a in t:
                    if a[0] == "set":
                        n_iters += 1
                        elems = {x[0] for x in a[1]}
                        for x in a[1]:
                            if x[0] == "tuple":
                                for c in x[1]:
                                    elems |= {y[0] for y in c}
                        bad = "str" in elems
                        rep.ob(rule, not bad, it, f, construct="iteration over set %s" % unparse(it),
                               how="set elements are not str: iteration order does not depend on the hash seed",
                               witness=None if not bad else "iteration order of a set with str/unknown elements depends on "
                               "PYTHONHASHSEED; the result may differ between processes", nontrivial=True)
    rep.ob(rule, True, None, None, construct="%d external call sites, %d set iterations in %d region functions"
           % (n_calls, n_iters, len(region)), loc="selfies/", how="no nondeterminism source", key="scan")


def run(ctx, rep):
    eff = Effects(ctx)
    pt = ctx.pt
    setter, table_vars = eff.table_vars()
    if not table_vars:
        raise AnalysisError("constraint table variable not found")
    region = translation_regions(ctx, eff)
    if len(region) < 50:
        raise AnalysisError("translation regions unexpectedly small (%d functions)" % len(region))
    rep.analysed["region_functions"] = len(region)
    require_resolved(ctx, region)

    # P2 + P3 + P1
    whitelisted = find_cache_stores(ctx, eff, rep, region, table_vars, "P2")
    if not whitelisted:
        rep.note("no symbol cache store in the regions")
    n_sites = scan_mutations(ctx, eff, rep, region, whitelisted, "P3")
    rep.floor("P3", 40, "mutation sites in the translation regions")
    scan_global_rebinds(ctx, eff, rep, region, "P3")
    n_shared = scan_shared_readonly(ctx, eff, rep, region, whitelisted, "P1", exempt_scopes=())
    rep.floor("P1", 8, "shared tables read by the translators")

    # P2c: a dict filled while translating is observed by key look-ups only -- its length / emptiness / iteration order would
    # make a result depend on which inputs earlier calls happened to see
    from rules.C19 import check_read_through
    check_read_through(ctx, eff, rep, region, "P2", whole_only=True)
    # P10: interpreter-wide state is not written either (it outlives the call like module state does)
    from rules.shared import check_no_process_global_writes
    check_no_process_global_writes(ctx, rep, region, "P10")
    # P2b: nothing table-dependent is stored in module state outside the table memos
    from rules.shared import check_history_independence
    check_history_independence(ctx, rep, "P2")
    # P9: how the table is read: the listed value whenever the key is listed, '?' otherwise -- for every dict content the
    # setter accepted (a capacity of 0 included) and whatever object the caller handed in   (C06/Q2, C12/G2, shared)
    from rules.C06 import check_capacity_lookup
    from rules.shared import check_table_owned
    check_capacity_lookup(ctx, rep, eff, table_vars, "P9")
    check_table_owned(ctx, rep, "P9")
    # P4 / P5
    plain, selfkeyed = memo_readers(ctx, eff, table_vars)
    if len(plain) < 2:
        rep.note("fewer memoised readers of the table than on the confirmed tree: %s" % [m.qual for m in plain])
    mf = MemoFlow(ctx, eff, setter, rep, plain, table_vars)
    mf.run(frozenset())
    # MemoFlow reports under G6: relabel
    for o in rep.obs:
        if o.rule == "G6":
            o.rule = "P4"
            o.key = o.key.replace("/G6/", "/P4/")
            rep.counts["P4"] = rep.counts.get("P4", 0) + 1
    rep.counts.pop("G6", None)
    rep.floor("P4", 1)
    for r in pt.recs.values():
        if r.op == "rebind-global" and r.scope != setter.qual and any((t[1], t[2]) in table_vars for t in r.targets):
            rep.ob("P4", False, r.node, ctx.db.funcs.get(r.scope), witness="table rebound outside the setter")
    # any lru memo in the regions must be either a table reader (cleared) or pure over immutable state
    for q in sorted(region):
        f = ctx.db.funcs[q]
        if f.is_lru and f not in plain and f not in selfkeyed:
            reads = eff.module_var_reads(f)
            mutable_reads = []
            for (m, n) in reads:
                for i in pt.v("mod:" + m, n):
                    if isinstance(i, tuple) and i[0] == "alloc":
                        ws = [r for r in pt.recs.values() if i in r.targets and not r.scope.startswith("mod:")
                              and id(r) not in whitelisted and r.op != "memo-clear"]
                        if ws or id is None:
                            mutable_reads.append("%s.%s" % (m, n))
            rep.ob("P4", not mutable_reads, f.node, f, construct="memo %s" % f.qual,
                   how="memoised function reads only immutable state",
                   witness=None if not mutable_reads else "memoised function reads mutable state %s that is never cleared" % mutable_reads)
    for m in selfkeyed:
        c = m.cls
        has_eq = any(n in c.methods for n in ("__eq__", "__hash__"))
        inst_retained = [i for i in eff.retained if pt.objs[i].kind == "inst" and pt.objs[i].cls == c.qual]
        ok = not has_eq and not c.is_dataclass and not inst_retained
        rep.ob("P5", ok, m.node, m, construct="per-instance memo %s" % m.qual,
               how="keyed by identity; no instance of %s is retained across calls" % c.name,
               witness=None if ok else ("instances of %s are retained across calls, so a memoised capacity survives a table change"
                                        % c.name if inst_retained else "memo keyed by value-equal instances"),
               key="selfkeyed/" + m.qual, nontrivial=True)
    rep.floor("P5", 1)

    # P6: retained objects that cross the API boundary are not read by translators
    touched = set()
    for q in region:
        touched |= pt.touch.get(q, set())
    n6 = 0
    for name, r in sorted(ctx.db.public_api().items()):
        if r[0] != "func":
            continue
        f = r[1]
        for i in pt.v(f.qual, "<ret>"):
            if isinstance(i, tuple) and i[0] == "alloc":
                retained = retention_reason(ctx, eff, f, i) is not None
                if not retained:
                    n6 += 1
                    continue
                n6 += 1
                ok = i not in touched
                rep.ob("P6", ok, pt.objs[i].site[1] if pt.objs[i].site else f.node, f,
                       construct="%s returns retained %s" % (name, pt.objs[i].kind),
                       how="retained object handed to callers is never read by encoder/decoder",
                       witness=None if ok else "object returned to callers is retained and read by the translators: "
                       "caller-side mutation changes later translations", key="ret/%s" % name, nontrivial=True)
        for p in f.params:
            o = ("extparam", f.qual, p)
            if o in pt.objs:
                # caller-owned object retained by the library?
                holders = [k for k, ids in pt.var.items() if k[0].startswith("mod:") and o in ids]
                inside = [j for j in eff.retained if o in pt.objs[j].contents]
                ok = not holders and not inside
                n6 += 1
                rep.ob("P6", ok, f.node, f, construct="parameter %s of %s" % (p, name),
                       how="caller-owned argument is not retained by the library",
                       witness=None if ok else "caller-owned argument object is retained in %s: later caller-side "
                       "mutation changes library behaviour" % (holders or inside)[:2], key="param/%s.%s" % (name, p),
                       nontrivial=True)
    rep.floor("P6", 5)

    # P7
    scan_nondeterminism(ctx, rep, region)

    # P8: strict=False region of encoder reads neither the table nor its memos
    enc = ctx.api("encoder")
    if "strict" not in enc.params:
        raise AnalysisError("encoder has no 'strict' parameter")
    reg_ns = eff.region(enc, {"strict": False})
    reads = eff.module_var_reads(enc, {"strict": False})
    bad = [(tv, reads[tv]) for tv in table_vars if tv in reads]
    memo_hit = [m.qual for m in plain + selfkeyed if m.qual in reg_ns]
    for tv, sites in bad:
        for g, node in sites[:3]:
            rep.ob("P8", False, node, g, witness="constraint table %s.%s read on the strict=False path of encoder" % tv,
                   nontrivial=True)
    for mq in memo_hit:
        rep.ob("P8", False, ctx.db.funcs[mq].node, ctx.db.funcs[mq], construct="memo %s reachable with strict=False" % mq,
               witness="a memo of the constraint table is reachable from encoder(strict=False)", nontrivial=True)
    if not bad and not memo_hit:
        rep.ob("P8", True, enc.node, enc, construct="region of encoder(strict=False): %d functions" % len(reg_ns),
               how="no read of the constraint table or of a memo of it", key="region", nontrivial=True)
    if len(reg_ns) >= len(eff.region(enc)):
        raise AnalysisError("strict flag does not prune anything: anchor of the strict-only check lost")
    rep.analysed.update({"mutation_sites": n_sites, "shared_objects": n_shared, "memos": [m.qual for m in plain],
                         "strict_false_region": len(reg_ns)})
