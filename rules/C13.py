"""C13 — [nop] padding is invisible to the decoder.

N1 single filtered token source: every consumer of symbols in the decoder region (main loop, index reader,
   branch-budget drain, recursive calls) reads from one iterator created in decoder() as enumerate(G(...)),
   where G is a generator in which every yield is dominated by the negated test against the literal "[nop]";
   enumerate is applied after the filter, so positions ignore padding
N2 the raw input string (and its '.'-fragments) flows only into str.split('.') / the generator G / the one
   tokenizer, and into error-message text; there is no other consumer (length, counting, slicing)
N3 selfies_to_encoding pads by appending the literal "[nop]" after the symbols (shared with C15/U5)
Under N1 + N2 the decoder's behaviour is a function of the filtered token stream alone.
"""
import ast

from sa import AnalysisError
from sa.db import own_nodes, unparse
from sa.flow import Forward
from spec import tables as SPEC

REGISTER = True
META = {
    "explanation": "Points-to analysis shows that all symbol consumers of the decoder read one iterator whose only origin "
                   "is enumerate(generator) created in decoder(); a dominance dataflow over the generator shows every "
                   "yield is reached only when the token differs from the literal '[nop]'; a def-use classification shows "
                   "the raw string has no other consumer than split('.'), the generator/tokenizer and error messages. "
                   "Hence inserting or deleting [nop] anywhere cannot change the filtered stream the decoder sees.",
    "trusted_base": ["str.split / generator semantics", "builtin effect table"],
    "assumptions": [],
    "level_text": "Static structural proof (single filtered source + no other consumer of the raw string) for all strings and "
                  "all [nop] positions.",
    "level_note": "Decides the whole decoder clause under N1+N2; the padding clause through the padding rule shared with C15.",
    "technique": "points-to origin analysis + dominance dataflow on the token generator + def-use classification of the raw input",
}


class NopDom(Forward):
    """state: frozenset of names known to differ from the padding literal on this path"""

    def __init__(self, f, literal, ctx=None):
        super().__init__(f.node)
        self.f = f
        self.lit = literal
        self.ctx = ctx
        self.yields = []

    def _is_lit(self, node):
        if isinstance(node, ast.Constant):
            return node.value == self.lit
        if isinstance(node, (ast.Name, ast.Attribute)) and self.ctx is not None:
            if isinstance(node, ast.Name) and node.id in self.f.locals:
                return False
            r = self.ctx.db.resolve_dotted(self.f.module, node)
            if r and r[0] == "global":
                try:
                    return self.ctx.fold.global_value(r[1], r[2]) == self.lit
                except Exception:
                    return False
        return False

    def join(self, a, b):
        return a & b

    def test(self, expr, state):
        if isinstance(expr, ast.Compare) and len(expr.ops) == 1:
            l, r = expr.left, expr.comparators[0]
            if self._is_lit(l) and isinstance(r, ast.Name) and r.id in self.f.locals:
                l, r = r, l
            if isinstance(l, ast.Name) and l.id in self.f.locals and self._is_lit(r):
                if isinstance(expr.ops[0], ast.Eq):
                    return state, state | {l.id}
                if isinstance(expr.ops[0], ast.NotEq):
                    return state | {l.id}, state
        if isinstance(expr, ast.UnaryOp) and isinstance(expr.op, ast.Not):
            t, f = self.test(expr.operand, state)
            return f, t
        return state, state

    def for_bind(self, node, state):
        return state - set(_names(node.target))

    def simple(self, st, state):
        for n in ast.walk(st):
            if isinstance(n, (ast.Yield, ast.YieldFrom)):
                self.yields.append((n, state))
        if isinstance(st, ast.Assign):
            for t in st.targets:
                for nm in _names(t):
                    # x = f(x): still the same token (rewritten); anything else forgets the fact
                    keep = isinstance(st.value, ast.Call) and len(st.value.args) == 1 and \
                        isinstance(st.value.args[0], ast.Name) and st.value.args[0].id == nm
                    if not keep:
                        state = state - {nm}
        return state


def _names(t):
    if isinstance(t, ast.Name):
        yield t.id
    elif isinstance(t, (ast.Tuple, ast.List)):
        for e in t.elts:
            yield from _names(e)


def check_token_source(ctx, rep, RULE="N1"):
    """N1 (a), shared with C14/K7: the symbols the derivation consumes are enumerate(G(fragment)) built in this decoder() call
    from the tokenizer's generator -- not a stored / memoised token list.  -> (roles, D, objs, gens, gfuncs)"""
    pt = ctx.pt
    dec = ctx.api("decoder")
    from rules import decmodel
    roles = decmodel.find_roles(ctx)
    D = roles["D"]
    # ---- N1 (a): the iterator parameter of D
    iter_params = []
    for p in D.posparams:
        ids = pt.v(D.qual, p)
        if any(isinstance(i, tuple) and i[0] == "alloc" and pt.objs[i].kind in ("iter", "gen") for i in ids):
            iter_params.append(p)
    if len(iter_params) != 1:
        raise AnalysisError("expected exactly one iterator parameter of the derivation function, found %s" % iter_params)
    ip = iter_params[0]
    objs = [i for i in pt.v(D.qual, ip) if isinstance(i, tuple)]
    gens = set()
    ok = True
    why = []
    for i in objs:
        o = pt.objs[i]
        if o.kind != "iter" or i[1] != dec.qual:
            ok = False
            why.append("token source %s is not an iterator created in decoder()" % pt.describe(i))
            continue
        site = o.site[1]
        if not (isinstance(site, ast.Call) and unparse(site.func) == "enumerate"):
            ok = False
            why.append("token iterator is not enumerate(<filtered generator>)")
        for j in o.src:
            if pt.objs[j].kind == "gen":
                gens.add(j)
            else:
                ok = False
                why.append("enumerate() is applied to %s, not to the filtering generator" % pt.describe(j))
        if not o.src:
            ok = False
            why.append("enumerate() source unknown")
    good = ok and len(objs) == 1
    rep.ob(RULE, good, roles["top_call"], dec, construct="token source of the derivation",
           how="single iterator enumerate(G(fragment)) created in decoder()", witness="; ".join(why) or None,
           nontrivial=True, key="source/" + ("ok" if ok else "bad"))
    gfuncs = set()
    for j in gens:
        tag = j[4]
        q = tag.split(":", 1)[1] if ":" in tag else None
        if q and q in ctx.db.funcs:
            gfuncs.add(ctx.db.funcs[q])
    if not gfuncs and good:
        raise AnalysisError("filtering generator not found")
    return roles, D, objs, gens, gfuncs


def run(ctx, rep):
    pt = ctx.pt
    dec = ctx.api("decoder")
    region = ctx.cg.region(dec)
    roles, D, objs, gens, gfuncs = check_token_source(ctx, rep, "N1")
    if not gfuncs:
        # the token source is not the filtering generator (reported above): the remaining rules have no subject
        rep.note("token source is not the filtering generator: consumer / yield rules skipped")
        return
    # ---- N1 (b): all consumers (next / for) in the region read that iterator
    allowed = set(objs)
    n_cons = 0
    for q in region:
        f = ctx.db.funcs[q]
        if f in gfuncs:
            continue
        for n in own_nodes(f.node):
            arg = None
            if isinstance(n, ast.Call) and unparse(n.func).split(".")[-1] in ("next", "islice") and n.args:
                arg = n.args[0]
            elif isinstance(n, (ast.For, ast.comprehension)):
                arg = n.iter
            if arg is None or not isinstance(arg, ast.Name):
                continue
            ids = {i for i in pt.v(f.qual, arg.id) if isinstance(i, tuple)}
            if ids & (allowed | gens):
                n_cons += 1
                good = ids <= allowed
                rep.ob("N1", good, n, f, construct="symbol consumer %s" % unparse(n)[:50],
                       how="reads the single filtered, enumerated stream",
                       witness=None if good else "consumer reads %s" % [pt.describe(i) for i in ids - allowed][:2], nontrivial=True)
        # any other tokenisation inside the region (a consumer tokenising on its own)
        if f is not dec and f not in gfuncs and not _only_called_from(ctx, f, gfuncs):
            for s in ctx.cg.sites(f):
                for g in s.callees:
                    if g.name == "split_selfies":
                        rep.ob("N1", False, s.node, f, witness="symbols are tokenised outside the filtering generator: [nop] is visible here",
                               nontrivial=True)
    if n_cons < 3:
        rep.floor_failures.append("expected >= 3 symbol consumers (main loop, drain loop, index reader); found %d" % n_cons)
    # ---- N1 (c): every yield of G is dominated by the negated [nop] test
    for g in sorted(gfuncs, key=lambda x: x.qual):
        nd = NopDom(g, SPEC.NOP, ctx)
        nd.run(frozenset())
        if not nd.yields:
            raise AnalysisError("generator %s has no yield" % g.qual)
        for y, state in nd.yields:
            val = y.value
            # the yielded token is the filtered one, possibly rewritten: every local token variable it mentions is filtered
            loc_names = {n.id for n in ast.walk(val) if isinstance(n, ast.Name) and n.id in g.locals and n.id not in g.params} if val is not None else set()
            ok = bool(loc_names) and loc_names <= set(state)
            rep.ob("N1", ok, y, g, construct="yield %s" % (unparse(val) if val is not None else ""),
                   how="dominated by the negated test against the literal '[nop]'",
                   witness=None if ok else "a token can be yielded without having been compared with '[nop]': padding reaches the decoder on this path",
                   nontrivial=True, key="yield/%s/%s" % (g.name, "filtered" if ok else "unfiltered"))
        # G itself must tokenise through the one tokenizer and iterate its result directly
    rep.floor("N1", 5)

    # ---- N2 def-use of the raw string
    raw = dec.posparams[0]
    check_uses(ctx, rep, dec, raw, "raw", gfuncs, set())
    rep.floor("N2", 3)

    # ---- N3 padding (shared with C15/U5)
    from rules.C15 import check_padding, check_recovered_string
    check_padding(ctx, rep, "N3")
    # "... recovered with encoding_to_selfies decodes exactly like the original": the recovered string keeps every position,
    # a [nop] in the middle included (C15/U7 shared)
    check_recovered_string(ctx, rep, "N3")
    # the padded encodings handed out are the caller's own: nothing in them is retained by the library (a shared padding
    # row edited by one caller would otherwise show up as non-[nop] padding in a later encoding)
    from sa.effects import Effects
    from rules.shared import check_fresh_return
    check_fresh_return(ctx, Effects(ctx), rep, ctx.fn("selfies.utils.encoding_utils.selfies_to_encoding"), "N3", "selfies_to_encoding")
    rep.analysed.update({"derivation": D.qual, "generator": sorted(g.qual for g in gfuncs), "consumers": n_cons})


def _only_called_from(ctx, g, funcs):
    """g is a module-level function all of whose callers (in the package) are in funcs"""
    callers = [f for f in ctx.db.funcs.values() if f is not g and any(g in s.callees for s in ctx.cg.sites(f))]
    return g.cls is None and bool(callers) and all(c in funcs for c in callers)


def check_uses(ctx, rep, f, name, role, gfuncs, seen):
    """classify every load of `name` in f according to `role`; recurse into callees"""
    if (f.qual, name, role) in seen:
        return
    seen.add((f.qual, name, role))
    parents = {}
    for n in own_nodes(f.node):
        for c in ast.iter_child_nodes(n):
            parents[id(c)] = n
    sites = {id(s.node): s for s in ctx.cg.sites(f)}
    for n in own_nodes(f.node):
        if not (isinstance(n, ast.Name) and n.id == name and isinstance(n.ctx, ast.Load)):
            continue
        p = parents.get(id(n))
        ok, why = False, None
        # argument of a call?
        call, argpos, kw = None, None, None
        if isinstance(p, ast.Call) and n in p.args:
            call, argpos = p, p.args.index(n)
        elif isinstance(p, ast.keyword):
            pp = parents.get(id(p))
            if isinstance(pp, ast.Call):
                call, kw = pp, p.arg
        if isinstance(p, ast.Attribute) and p.attr == "split" and role == "raw":
            c = parents.get(id(p))
            if isinstance(c, ast.Call) and len(c.args) == 1 and isinstance(c.args[0], ast.Constant) and c.args[0].value == SPEC.DOT:
                loop = parents.get(id(c))
                if isinstance(loop, ast.For) and loop.iter is c and isinstance(loop.target, ast.Name):
                    ok = True
                    check_uses(ctx, rep, f, loop.target.id, "fragment", gfuncs, seen)
                else:
                    why = "split('.') result is not consumed by a plain fragment loop"
            else:
                why = "raw string is split on something other than '.'"
        elif call is not None:
            s = sites.get(id(call))
            callee_names = [g.name for g in s.callees] if s else []
            fn = unparse(call.func)
            if isinstance(call.func, ast.Attribute) and call.func.attr == "format" or fn in ("str", "repr", "print", "warnings.warn", "isinstance"):
                ok = True   # message text / type test
            elif s is not None and s.callees:
                ok = True
                for g in s.callees:
                    pos = g.posparams[1:] if g.is_method else g.posparams
                    pn = kw if kw else (pos[argpos] if argpos is not None and argpos < len(pos) else None)
                    if pn is None:
                        ok, why = False, "cannot map argument to a parameter of %s" % g.qual
                        continue
                    if role == "fragment":
                        if g in gfuncs:
                            check_uses(ctx, rep, g, pn, "tok-input", gfuncs, seen)
                        else:
                            ok, why = False, "a raw fragment is passed to %s, which does not filter [nop]" % g.name
                    elif role == "tok-input":
                        if g.name == "split_selfies":
                            pass
                        elif _only_called_from(ctx, g, gfuncs):
                            # a private helper of the filtering generator (its result goes back into the generator's loop)
                            check_uses(ctx, rep, g, pn, "tok-input", gfuncs, seen)
                        else:
                            ok, why = False, "generator input is passed to %s instead of the tokenizer" % g.name
                    else:  # raw / msg
                        check_uses(ctx, rep, g, pn, "msg", gfuncs, seen)
            else:
                why = "raw input is consumed by %s" % fn
        elif isinstance(p, ast.FormattedValue):
            ok = True   # interpolated into message text
        elif isinstance(p, ast.Assign) and role == "tok-input" and p.value is n:
            ok = True   # alias that is iterated below (list form)
        elif isinstance(p, ast.IfExp) and n is not p.test and role == "tok-input" and isinstance(parents.get(id(p)), ast.Assign) \
                and parents[id(p)].value is p:
            ok = True   # the same alias, chosen by a conditional expression:  it = x if <already split> else tokenizer(x)
        elif isinstance(p, ast.Return) and role == "tok-input" and f not in gfuncs and _only_called_from(ctx, f, gfuncs):
            ok = True   # handed back to the filtering generator (list form)
        elif isinstance(p, ast.Compare) and role in ("raw", "msg", "fragment"):
            why = "raw input is compared / inspected directly"
        else:
            why = "raw input is used in %s" % unparse(p)[:60] if p is not None else "unknown use"
        if role == "msg" and not ok and why and "passed" not in why:
            # message-only parameters may also be re-raised / formatted
            pass
        rep.ob("N2", ok, n, f, construct="use of %s (%s) in %s" % (name, role, unparse(p)[:50] if p is not None else "?"),
               how={"raw": "split('.') / message text only", "fragment": "argument of the filtering generator only",
                    "tok-input": "type test / the one tokenizer only", "msg": "error-message text only"}[role],
               witness=None if ok else (why or "unexpected consumer") + ": [nop] symbols are visible to it", nontrivial=True)
