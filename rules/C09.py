"""C09 — encoder is total: returns or raises EncoderError, always terminates.

Same machinery as C08 over the region of encoder(), with allowed escape set {EncoderError}.
"""
from sa import AnalysisError
from rules import totality

REGISTER = True
ALLOWED = {"EncoderError"}
META = {
    "explanation": "Exception-escape analysis over the resolved call graph of encoder(): SMILESParserError raised anywhere in "
                   "the parser region is converted by the single handler in encoder(); every other explicit and implicit raise "
                   "site is discharged by a guard, a known length, linear facts, enum exhaustiveness, or a named invariant of "
                   "the triage table, or is reported. Termination by variant templates; recursion by call-graph SCCs.",
    "trusted_base": ["the named data-structure invariants of rules/totality.py (DESIGN.md App. A)",
                     "implicit-raise catalogue", "builtin effect table"],
    "assumptions": ["callers pass a str and bools as annotated"],
    "level_text": "Static totality argument: escape set of encoder() within {EncoderError} for all str inputs, all loops have "
                  "variants; recursion depth and huge-int conversion are reported as known findings.",
    "level_note": "Known findings F6 (int() of unbounded digit groups) and F8 (RecursionError for deeply nested branches). "
                  "Named invariants (mostly in the kekulisation / matching code) are trusted as stated.",
    "technique": "exception-escape + guard dataflow + variant-template termination analysis over the call graph",
}


def run(ctx, rep):
    E, ec, occ = totality.analyse(ctx, rep, "encoder", [{}], ALLOWED, "C09")
    n = totality.report(ctx, rep, E, ec, occ, ALLOWED, "C09")
    nl = totality.check_termination(ctx, rep, E, ec)
    nr = totality.check_recursion(ctx, rep, E)
    totality.check_definite_assignment(ctx, rep, E)
    totality.check_none_as_index(ctx, rep, E)
    ne = totality.check_establishing(ctx, rep, E)
    # EST-KEKULIZED: the printers assert that no atom is aromatic any more: kekulize() reports success only with the
    # delocalised subgraph emptied (and the writer / encoder test is_kekulized / the result)   (C05/K1, K4 shared)
    from rules.C05 import check_rejection, check_completion
    M_, K_, IK_ = check_rejection(ctx, rep, "EST")
    check_completion(ctx, rep, K_, IK_, "EST")
    if ne < 1:
        raise AnalysisError("no add_ring_bond call found in the parser region (anchor of RINGBOND_DISTINCT lost)")
    if n < 100:
        rep.floor_failures.append("only %d raise sites enumerated in the encoder region (expected >= 100; 200 on the pinned tree)" % n)
    if nl < 5:
        rep.floor_failures.append("only %d while-loops found in the encoder region (expected >= 5; 9 on the pinned tree)" % nl)
    rep.analysed.update({"region_functions": len(E.quals), "raise_sites": n, "while_loops": nl, "cycles": nr,
                         "engine_functions": sorted(ec.ran), "engine_errors": ec.errors})
