"""C01 — every SELFIES string decodes to a well-formed, valence-valid SMILES (clause level).

The valence proof (DESIGN.md §4 C01) reduces the universal claim to local lemmas, each checked here on
the code reachable from decoder():

V0 top-level derivation starts in state 0 with no previous atom
V1 chain bond: 1 <= order <= state, order <= capacity(new atom); previous atom re-bound to the new atom
V2 state after an atom = capacity(new) - order (stop iff 0)
V3 branch split only in state >= 2: 1 <= binit <= type, binit + next = state, next >= 1
V4 ring request only in state >= 1: 1 <= order <= state, next = state - order
V5 ring formation: a != b, not already bonded, 1 <= order <= free valence at both ends; an existing bond
   is raised by at most the free valence and to at most 3
V6 bookkeeping: every bond mutator adds the same delta to the bond counts of both endpoints
V8 table in force: every memo that reads the table is cleared on every table change, the setter binds a module-owned
   copy and the getter returns a copy (so the table cannot change behind the memoised capacities)
V7 capacity = table capacity - explicit H; a symbol with negative capacity is rejected; the bond order of
   an atom symbol comes from its bond-prefix character (1..3)
W1 writer: ")" is emitted exactly for the children that were opened with "("
W2 writer: ring label without "%" only if <= 9, with "%" only if 10..99
W3 writer: both ends of a ring bond get the label from one table keyed by the normalised endpoint pair;
   a ring bond is stored in both adjacency lists
"""
import ast

from sa import AnalysisError
from sa.db import unparse, own_nodes
from sa.lin import Lin, ge, le, eq
from sa.sym import Engine, Hooks, Num, Con, Tup, Obj, Unk, Ref, Str, vkey, assume, State, NONE
from rules import decmodel
from rules.decmodel import num_of

REGISTER = True
META = {
    "explanation": "Local lemmas of the valence-safety proof are discharged on the decoder's code by a path-sensitive "
                   "abstract interpretation with linear facts: per path of the derivation loop (V1-V4), of the ring-"
                   "formation pass (V5), of the graph mutators (V6) and of the capacity getter (V7); writer "
                   "well-formedness by structural dataflow on the SMILES writer (W1-W3). Symbolic in state, capacity, "
                   "bond counts and table contents, hence for all strings and all constraint tables.",
    "trusted_base": ["the hand induction from the lemmas to the global valence bound (DESIGN.md §4 C01)",
                     "Fourier-Motzkin entailment with integer tightening", "builtin effect table",
                     "named invariant ORDER_DOMAIN (existing bond orders are >= 1, established by V1/V5)"],
    "assumptions": ["RDKit acceptance (sanitizer clause) is an external runtime oracle and is not decided"],
    "level_text": "Static discharge of the local safety inequalities of the valence proof and of writer well-formedness on "
                  "every path of the decoder; not a machine-checked induction and not the sanitizer clause.",
    "level_note": "Clause-level. Known finding F9 (ring labels >= 100 are written as %100). Trusted: hand induction, FM entailment.",
    "technique": "path-sensitive abstract interpretation with linear inequalities (Fourier-Motzkin) + structural dataflow on the writer",
}


# ----------------------------------------------------------------------------- V1-V4 on the derivation loop
def check_loop(ctx, rep, m):
    R = m["roles"]
    D = R["D"]
    its = decmodel.iterations(m)
    n = {"V1": 0, "V3": 0, "V4": 0}
    for it in its:
        if it.proc is None or it.proc.data.get("result") is None:
            continue
        i = it.i
        if it.kind == "atom":
            d = it.proc.data
            cap = Lin.var(d["cap"])
            A = d["atom"]
            for b in it.events("add_bond"):
                a = b.data["args"]
                mu = num_of(a.get("order"))
                probs = []
                if mu is None:
                    probs.append("non-numeric bond order")
                else:
                    if not it.ent(ge(mu, 1)):
                        probs.append("order >= 1 not entailed")
                    if not it.ent(le(mu, i)):
                        probs.append("order <= state not entailed: the previous atom can be over-bonded")
                    if not it.ent(le(mu, cap)):
                        probs.append("order <= capacity(new atom) not entailed")
                    dst = a.get("dst")
                    if not (isinstance(dst, Unk) and dst.term[:3] == ("attr", vkey(A), "index")):
                        probs.append("bond destination is not the atom whose capacity was used")
                    src = a.get("src")
                    if not (isinstance(src, Unk) and src.term[:3] == ("attr", it.prev_head_key, "index")):
                        probs.append("bond source is not the previous atom (whose budget is the state)")
                    if it.is_back:
                        nl = num_of(it.new)
                        if nl is None or not it.ent(le(nl, cap - mu)):
                            probs.append("V2: next state exceeds capacity - order")
                        if nl is not None and not it.ent(ge(nl, 0)):
                            probs.append("V2: next state may be negative")
                n["V1"] += 1
                rep.ob("V1", not probs, b.node, D, construct=it.describe(), how="1 <= order <= state, order <= cap(new), next <= cap - order",
                       witness="; ".join(probs) or None, nontrivial=True,
                       key="chain-bond/" + ("ok" if not probs else "+".join(sorted(p[:30] for p in probs))))
            if not it.events("add_bond") and it.is_back:
                # root atom: next state <= capacity
                nl = num_of(it.new)
                ok = nl is not None and it.ent(le(nl, cap)) and it.ent(ge(nl, 0)) and it.ent(eq(i, 0))
                rep.ob("V2", ok, it.where(), D, construct=it.describe(), how="root atom: state 0, next <= capacity",
                       witness=None if ok else "an atom without a bond is followed by a state above its capacity, or is added in a state > 0",
                       nontrivial=True, key="root/" + ("ok" if ok else "bad"))
            if it.is_back and vkey(it.prev_new) != vkey(A):
                rep.ob("V1", False, it.where(), D, construct=it.describe(),
                       witness="previous-atom variable is not re-bound to the new atom: later bonds are charged to the wrong atom",
                       key="prev-rebound")
        elif it.kind == "branch":
            for r in it.events("recurse"):
                a = r.data["args"]
                bt = Lin.var(it.proc.data["type"])
                binit = num_of(a.get(R["budget"]))
                probs = []
                if binit is None:
                    probs.append("branch initial state is not numeric")
                else:
                    if not it.ent(ge(i, 2)):
                        probs.append("branch derived although state >= 2 is not entailed")
                    if not it.ent(ge(binit, 1)) or not it.ent(le(binit, bt)):
                        probs.append("1 <= binit <= type not entailed")
                    if it.is_back:
                        nl = num_of(it.new)
                        if nl is None or not it.ent(le(nl + binit, i)):
                            probs.append("binit + next <= state not entailed: branch and chain together exceed the budget")
                        if nl is not None and not it.ent(ge(nl, 0)):
                            probs.append("next state may be negative")
                    root = a.get(R["root"])
                    if root is None or vkey(root) != it.prev_head_key:
                        probs.append("branch budget is charged to an atom other than the previous atom")
                n["V3"] += 1
                rep.ob("V3", not probs, r.node, D, construct=it.describe(), how="split only under state>=2; binit>=1; binit+next<=state",
                       witness="; ".join(probs) or None, nontrivial=True,
                       key="branch/" + ("ok" if not probs else "+".join(sorted(p[:30] for p in probs))))
            if not it.events("recurse") and it.is_back:
                nl = num_of(it.new)
                ok = nl is not None and it.ent(le(nl, i))
                rep.ob("V3", ok, it.where(), D, construct=it.describe(), how="skipped branch symbol does not increase the state",
                       witness=None if ok else "state grows on a skipped branch symbol", key="branch-skip/" + ("ok" if ok else "bad"))
        elif it.kind == "ring":
            for q in it.events("queue"):
                val = q.data["value"]
                probs = []
                order = None
                if isinstance(val, Tup):
                    nums = _num_paths(val)
                    if len(nums) == 1:
                        order = nums[0][1]
                        m["queue_order_path"] = nums[0][0]
                if order is None:
                    probs.append("queued ring has no single numeric order component")
                else:
                    if not it.ent(ge(i, 1)):
                        probs.append("ring queued although state >= 1 is not entailed")
                    if not it.ent(ge(order, 1)) or not it.ent(le(order, i)):
                        probs.append("1 <= order <= state not entailed")
                    if it.is_back:
                        nl = num_of(it.new)
                        if nl is None or not it.ent(le(nl, i - order)):
                            probs.append("next <= state - order not entailed")
                        if nl is not None and not it.ent(ge(nl, 0)):
                            probs.append("next state may be negative")
                    if isinstance(val, Tup) and len(val.items) >= 2 and not any(vkey(x) == it.prev_head_key for x in val.items):
                        probs.append("ring is not charged to the previous atom")
                n["V4"] += 1
                rep.ob("V4", not probs, q.node, D, construct=it.describe(), how="ring only under state>=1; 1<=order<=state; next<=state-order",
                       witness="; ".join(probs) or None, nontrivial=True,
                       key="ring/" + ("ok" if not probs else "+".join(sorted(p[:30] for p in probs))))
            if not it.events("queue") and it.is_back:
                nl = num_of(it.new)
                ok = nl is not None and it.ent(le(nl, i))
                rep.ob("V4", ok, it.where(), D, construct=it.describe(), how="skipped ring symbol does not increase the state",
                       witness=None if ok else "state grows on a skipped ring symbol", key="ring-skip/" + ("ok" if ok else "bad"))
    for it in its:
        if it.kind == "other" and it.is_back:
            nl = num_of(it.new)
            ok = nl is not None and it.ent(le(nl, it.i)) and it.ent(ge(nl, 0))
            rep.ob("V4", ok, it.where(), D, construct=it.describe(), how="non-bonding symbol does not increase the state",
                   witness=None if ok else "state grows without a new atom", key="eps/" + ("ok" if ok else "bad"))
    rep.floor("V1", 4, "chain-bond paths")
    rep.floor("V3", 2)
    rep.floor("V4", 3)


def _num_paths(v, path=()):
    out = []
    if isinstance(v, Num):
        out.append((path, v.lin))
    elif isinstance(v, Tup):
        for k, x in enumerate(v.items):
            out.extend(_num_paths(x, path + (k,)))
    return out


# ----------------------------------------------------------------------------- V5 second pass
class CallLog(Hooks):
    def __init__(self, names):
        self.names = set(names)
        self.log = []

    def on_call(self, eng, fr, node, callee, args, kwargs, st):
        if hasattr(callee, "is_property") and callee.name in self.names and fr.depth == 0:
            bound = eng.bind_args(callee, args[1:] if callee.is_method else args, kwargs, skip_self=callee.is_method) or {}
            self.log.append((callee, node, bound, st))
        return None


def check_second_pass(ctx, rep, m):
    S = m["roles"]["second"]
    h = CallLog({"add_ring_bond", "update_bond_order", "add_bond"})
    eng = Engine(ctx, h)
    fr = eng.run_function(S)
    path = m.get("queue_order_path", (2, 0))
    n = 0
    for callee, node, a, st in h.log:
        n += 1
        probs = []
        # assumption transported from the queue site (V4): queued order >= 1
        st2 = st
        for t in _all_terms(st):
            if _is_elem_path(t, path):
                r = assume(("lin",) + ge(Lin.var(t), 1), st2)
                if r:
                    st2 = r[0]
        # ORDER_DOMAIN: existing bond orders are >= 1
        for t in _all_terms(st):
            if isinstance(t, tuple) and len(t) == 4 and t[0] == "attr" and t[2] == "order":
                r = assume(("lin",) + ge(Lin.var(t), 1), st2)
                if r:
                    st2 = r[0]
        ea, eb = a.get("a"), a.get("b")
        if callee.name == "add_bond":
            ea, eb = a.get("src"), a.get("dst")
        la, lb = num_of(ea), num_of(eb)
        if la is None or lb is None:
            probs.append("endpoints are not numeric indices")
        else:
            frees = []
            for e in (ea, eb):
                fv = _free_valence(st2, e)
                if fv is None:
                    probs.append("no free-valence computation (capacity - bond count of the same atom) found for endpoint %s" % unparse_v(e))
                frees.append(fv)
            if callee.name in ("add_ring_bond", "add_bond"):
                order = num_of(a.get("order"))
                if not _known_distinct(st2, ea, eb):
                    probs.append("endpoints may coincide (self-bond)")
                hb = _has_bond_atom(st2, ea, eb)
                if hb is not False:
                    probs.append("not dominated by a negative has_bond test on the same pair (second bond between a bonded pair)")
                if order is None:
                    probs.append("non-numeric order")
                else:
                    if not st2.entails(ge(order, 1)):
                        probs.append("order >= 1 not entailed")
                    for fv, nm in zip(frees, ("left", "right")):
                        if fv is not None and not st2.entails(le(order, fv)):
                            probs.append("order <= free valence of the %s atom not entailed" % nm)
            else:
                new = num_of(a.get("new_order"))
                hb = _has_bond_atom(st2, ea, eb)
                if hb is not True:
                    probs.append("bond-order update not dominated by a positive has_bond test on the same pair")
                old = _old_order(st2, ea, eb)
                if new is None or old is None:
                    probs.append("cannot identify new / existing order")
                else:
                    if not st2.entails(le(new, 3)) or not st2.entails(ge(new, 1)):
                        probs.append("1 <= new order <= 3 not entailed")
                    for fv, nm in zip(frees, ("left", "right")):
                        if fv is not None and not st2.entails(le(new - old, fv)):
                            probs.append("increase of the existing bond exceeds the free valence of the %s atom" % nm)
        rep.ob("V5", not probs, node, S, construct="%s(...) in the ring-formation pass" % callee.name,
               how="a != b, has_bond guard, 1 <= order <= free valence at both ends (resp. increase <= free valence, new <= 3)",
               witness="; ".join(probs) or None, nontrivial=True,
               key="%s/%s" % (callee.name, "ok" if not probs else "+".join(sorted(p[:30] for p in probs))))
    if n < 2:
        raise AnalysisError("ring-formation pass: expected a bond insertion and a bond upgrade, found %d call(s)" % n)
    bad = {(exc, getattr(node, "lineno", 0)): (node, exc) for st, node, exc in fr.raises}
    for (exc, ln), (node, _) in bad.items():
        rep.ob("V5", False, node, S, construct="%s: %s" % (exc, unparse(node)[:60]),
               witness="the ring-formation pass can raise %s" % exc)


def unparse_v(v):
    return repr(v)[:60]


def _all_terms(st):
    out = set()
    for l, _ in st.lin:
        out |= l.terms()
    for v in st.env.values():
        if isinstance(v, Num):
            out |= v.lin.terms()
        elif isinstance(v, Unk):
            out.add(v.term)
    return out


def _is_elem_path(t, path):
    """t == item(...item(elem, p0)..., pk) for the given path"""
    for p in reversed(path):
        if not (isinstance(t, tuple) and len(t) == 3 and t[0] == "item" and t[2] == p):
            return False
        t = t[1]
    return isinstance(t, tuple) and t and t[0] in ("elem",) or (isinstance(t, str) and t.startswith("elem"))


def _owner_of_index(e):
    if isinstance(e, Unk) and isinstance(e.term, tuple) and len(e.term) == 4 and e.term[0] == "attr" and e.term[2] == "index":
        return e.term[1]
    return None


def _free_valence(st, e):
    """Lin of cap(atom) - cnt(index) where index == e and atom is the owner of e"""
    owner = _owner_of_index(e)
    if owner is None:
        return None
    cap = ("prop", "bonding_capacity", owner)
    cnt = None
    ek = vkey(e)
    for t in _all_terms(st):
        if isinstance(t, tuple) and t and t[0] == "mcall" and t[1] == "get_bond_count":
            args = list(t[3]) + [kv[1] for kv in t[4]]
            if ek in args:
                cnt = t
    if cnt is None or cap not in _all_terms(st):
        return None
    return Lin.var(cap) - Lin.var(cnt)


def _known_distinct(st, ea, eb):
    la, lb = num_of(ea), num_of(eb)
    if la is not None and lb is not None and not assume(("lin",) + eq(la, lb), st):
        return True
    k = ("eq", tuple(sorted([repr(vkey(ea)), repr(vkey(eb))])))
    return st.atoms.get(k) is False


def _has_bond_atom(st, ea, eb):
    ka, kb = vkey(ea), vkey(eb)
    for k, v in st.atoms.items():
        if k[0] == "truthy" and isinstance(k[1], tuple) and k[1][0] == "unk":
            t = k[1][1]
            if isinstance(t, tuple) and t and t[0] == "mcall" and t[1] == "has_bond":
                args = list(t[3]) + [kv[1] for kv in t[4]]
                if set(args) == {ka, kb}:
                    return v
    return None


def _old_order(st, ea, eb):
    ka, kb = vkey(ea), vkey(eb)
    for t in _all_terms(st):
        if isinstance(t, tuple) and len(t) == 4 and t[0] == "attr" and t[2] == "order":
            owner = t[1]
            if owner[0] == "unk" and isinstance(owner[1], tuple) and owner[1][0] == "mcall" and owner[1][1] == "get_dirbond":
                args = list(owner[1][3]) + [kv[1] for kv in owner[1][4]]
                if set(args) == {ka, kb}:
                    return Lin.var(t)
    return None


# ----------------------------------------------------------------------------- V6 bookkeeping
class StoreLog(Hooks):
    def __init__(self):
        self.stores = []
        self.attr_stores = []

    def on_store(self, eng, fr, node, base, index, value, st):
        if fr.depth <= 1:          # the method itself or a private helper of the class inlined into it
            if isinstance(index, str):
                self.attr_stores.append((node, base, index, value, st))
            else:
                self.stores.append((node, base, index, value, st))


def count_field(ctx):
    """the per-atom bond-count field: the one get_bond_count returns an element of"""
    g = ctx.fn("selfies.mol_graph.MolecularGraph.get_bond_count")
    for n in own_nodes(g.node):
        if isinstance(n, ast.Return) and isinstance(n.value, ast.Subscript) and isinstance(n.value.value, ast.Attribute):
            return n.value.value.attr
    raise AnalysisError("bond-count field not found (get_bond_count does not return self.<field>[idx])")


def check_bookkeeping(ctx, rep):
    field = count_field(ctx)
    cls = ctx.db.classes["selfies.mol_graph.MolecularGraph"]
    # every method that stores into the count field
    writers = []
    for mth in cls.methods.values():
        for r in ctx.pt.records(mth.qual):
            if r.op in ("store-sub", "aug") and ("." + field + "[") in ("." + r.detail):
                if mth not in writers:
                    writers.append(mth)
    # the public mutators whose code (private helpers of the class included) updates the counts
    wq = {w.qual for w in writers}
    helpers = {m.qual for m in cls.methods.values() if m.name.startswith("_") and not m.name.startswith("__")}
    entries = [m for m in cls.methods.values() if not m.name.startswith("_") and (set(ctx.cg.region(m)) & wq)]
    n = 0
    for mth in entries:
        if mth.name in ("add_atom", "kekulize"):
            continue  # initialisation to 0 / float->int normalisation: no delta
        h = StoreLog()
        eng = Engine(ctx, h, inline_methods=helpers)
        params = {p: Num(Lin.var(p)) for p in mth.posparams[1:] if p in ("src", "dst", "a", "b", "order", "new_order")}
        fr = eng.run_function(mth, params)
        # group stores by path state identity: use final return states, collect stores whose state facts are a prefix
        stores = [(node, idx, val, st) for node, base, idx, val, st in h.stores
                  if isinstance(base, Unk) and isinstance(base.term, tuple) and base.term[0] == "attr" and base.term[2] == field]
        by_node = {}
        for node, idx, val, st in stores:
            by_node.setdefault(id(node), []).append((node, idx, val, st))
        deltas = []
        for lst in by_node.values():
            for node, idx, val, st in lst:
                v = num_of(val)
                d = None
                if v is not None:
                    olds = [t for t in v.terms() if isinstance(t, tuple) and t and t[0] == "index" and v.c.get(t) == 1]
                    if len(olds) == 1:
                        d = v - Lin.var(olds[0])
                deltas.append((node, num_of(idx), d, st))
        probs = []
        nodes = {id(x[0]) for x in deltas}
        if len(nodes) != 2:
            probs.append("expected two count updates (one per endpoint), found %d" % len(nodes))
        else:
            # per path: the two updates have different indices (the two endpoints) and equal deltas
            groups = {}
            for node, idx, d, st in deltas:
                groups.setdefault(id(node), []).append((idx, d, st))
            (g1, g2) = list(groups.values())
            for (i1, d1, s1) in g1:
                for (i2, d2, s2) in g2:
                    if set(map(repr, s1.lin)) <= set(map(repr, s2.lin)) or set(map(repr, s2.lin)) <= set(map(repr, s1.lin)):
                        if d1 is None or d2 is None:
                            probs.append("count update is not of the form count += delta")
                        elif not s2.entails(eq(d1, d2)) and not s1.entails(eq(d1, d2)):
                            probs.append("the two endpoints receive different deltas (%r vs %r)" % (d1, d2))
                        if i1 is not None and i2 is not None and (i1 - i2).is_const() and (i1 - i2).k == 0:
                            probs.append("both count updates hit the same endpoint")
            # delta must be the order that is stored in the bond(s)
            want = None
            if "order" in params:
                want = Lin.var("order")
            for (idx, d, st) in g1 + g2:
                if want is not None and d is not None and not st.entails(eq(d, want)):
                    probs.append("delta is not the order of the new bond")
            if "new_order" in params:
                for (idx, d, st) in g1 + g2:
                    olds = [t for t in (d.terms() if d is not None else []) if isinstance(t, tuple) and t[0] == "attr" and t[2] == "order"]
                    if d is None or len(olds) != 1 or not st.entails(eq(d, Lin.var("new_order") - Lin.var(olds[0]))):
                        probs.append("delta is not new_order - existing order")
                orders = [(node, base, val) for node, base, attr, val, st in h.attr_stores if attr == "order"]
                if not orders or any(num_of(val) is None or not (num_of(val) - Lin.var("new_order")).is_const()
                                     or (num_of(val) - Lin.var("new_order")).k != 0 for _, _, val in orders):
                    probs.append("the bond objects are not set to new_order")
        n += 1
        rep.ob("V6", not probs, mth.node, mth, construct="bond-count bookkeeping of %s" % mth.name,
               how="both endpoints receive the same delta, equal to the (change of) bond order",
               witness="; ".join(sorted(set(probs))) or None, nontrivial=True,
               key="%s/%s" % (mth.name, "ok" if not probs else "+".join(sorted(set(p[:30] for p in probs)))))
    rep.floor("V6", 3, "add_bond, add_ring_bond, update_bond_order")
    # ... and nothing else writes the counts except growth with the atom list and the rounding of an entry
    from rules.shared import check_bond_count_writers
    check_bond_count_writers(ctx, rep, "V6")


# ----------------------------------------------------------------------------- V7 capacity
def check_atom_postcondition(ctx, rep, RULE="V7"):
    """every non-None return of process_atom_symbol entails capacity(atom) >= 0 on that path, and the atom is created in
    this invocation (shared with C08: the decoder's totality rests on it)"""
    P = ctx.fn("selfies.grammar_rules.process_atom_symbol")
    eng2 = Engine(ctx, Hooks())
    fr2 = eng2.run_function(P)
    oks = 0
    probs = []
    for st, v in fr2.returns:
        if isinstance(v, Con) and v.value is None:
            continue
        if not (isinstance(v, Tup) and len(v.items) == 2):
            probs.append("non-None result is not a pair (bond info, atom)")
            continue
        atom = v.items[1]
        cap = ("prop", "bonding_capacity", vkey(atom))
        if not st.entails(ge(Lin.var(cap), 0)):
            probs.append("an atom with negative capacity can be returned (e.g. too many explicit H)")
        else:
            oks += 1
        fresh_call = isinstance(atom, Unk) and isinstance(atom.term, tuple) and atom.term[0] == "callres"
        fresh_obj = isinstance(atom, Obj) and isinstance(atom.oid, tuple) and atom.oid[0] == "new"
        if not (fresh_call or fresh_obj):
            probs.append("returned atom is not created by calling the factory in this invocation")
    if not oks and not probs:
        probs.append("no successful return path")
    rep.ob(RULE, not probs, P.node, P, construct="process_atom_symbol result", how="non-None result => capacity(atom) >= 0, atom fresh",
           witness="; ".join(sorted(set(probs))) or None, nontrivial=True,
           key="reject-negative/" + ("ok" if not probs else "+".join(sorted(set(p[:30] for p in probs)))))



def check_capacity(ctx, rep, m):
    getter = ctx.fn("selfies.mol_graph.Atom.bonding_capacity")
    tabf = ctx.fn("selfies.bond_constraints.get_bonding_capacity")

    class H(Hooks):
        def __init__(self):
            self.calls = []

        def on_call(self, eng, fr, node, callee, args, kwargs, st):
            if callee is tabf:
                self.calls.append((args, kwargs, st))
                return Num(Lin.var(("tablecap",)))
            return None
    h = H()
    eng = Engine(ctx, h)
    selfobj = Obj(("self",), "selfies.mol_graph.Atom")
    fr = eng.run_function(getter, {getter.posparams[0]: selfobj})
    probs = []
    if not fr.returns:
        probs.append("getter has no return path")
    hterm = None
    saw_h = False
    for st, v in fr.returns:
        lv = num_of(v)
        if lv is None:
            probs.append("capacity is not numeric on some path")
            continue
        # identify h_count term
        hts = [t for t in _all_terms(st) | lv.terms() if isinstance(t, tuple) and len(t) == 4 and t[0] == "attr" and t[2] == "h_count"]
        isnone = None
        for t in hts:
            saw_h = True
            isnone = st.atoms.get(("isnone", t), isnone)
        tc = Lin.var(("tablecap",))
        if isnone is True or not hts:
            if not st.entails(eq(lv, tc)):
                probs.append("without explicit H the capacity must be the table capacity")
        else:
            if len(hts) != 1 or not st.entails(eq(lv, tc - Lin.var(hts[0]))):
                probs.append("capacity must be table capacity - explicit H count")
    for args, kwargs, st in h.calls:
        names = []
        for a in list(args) + list(kwargs.values()):
            if isinstance(a, Unk) and isinstance(a.term, tuple) and a.term[0] == "attr":
                names.append(a.term[2])
        if sorted(names) != ["charge", "element"]:
            probs.append("table capacity is looked up with %s instead of (element, charge)" % names)
    if not h.calls:
        probs.append("getter does not consult the constraint table")
    if not saw_h:
        probs.append("explicit hydrogens are not subtracted from the capacity")
    rep.ob("V7", not probs, getter.node, getter, construct="Atom.bonding_capacity",
           how="capacity == table(element, charge) - (h_count or 0)", witness="; ".join(sorted(set(probs))) or None,
           nontrivial=True, key="getter/" + ("ok" if not probs else "+".join(sorted(set(p[:30] for p in probs)))))

    check_atom_postcondition(ctx, rep, "V7")

    # bond order of an atom symbol comes from smiles_to_bond(<bond-prefix group>)
    from rules.symlang import atom_parser, atom_pattern_name
    NC = atom_parser(ctx)
    s2b = ctx.fn("selfies.utils.smiles_utils.smiles_to_bond")

    class H3(Hooks):
        def on_call(self, eng, fr, node, callee, args, kwargs, st):
            if callee is s2b:
                return Unk(("s2b", vkey(args[0]) if args else None))
            return None
    eng3 = Engine(ctx, H3())
    fr3 = eng3.run_function(NC)
    probs = []
    good = 0
    for st, v in fr3.returns:
        if isinstance(v, Con) and v.value is None:
            continue
        if not (isinstance(v, Tup) and len(v.items) == 2 and isinstance(v.items[0], Unk) and v.items[0].term[0] == "s2b"):
            probs.append("bond info of a cached symbol is not smiles_to_bond(prefix)")
            continue
        argk = v.items[0].term[1]
        # must be item 0 of the groups() of the atom pattern match
        first_group = argk and argk[0] == "unk" and isinstance(argk[1], tuple) and (
            (argk[1][0] == "item" and argk[1][2] == 0) or
            (argk[1][0] == "group" and argk[1][2] == 1 and atom_pattern_name(ctx)[1] in repr(argk[1][1])))
        if not first_group:
            probs.append("bond order is not derived from the first pattern group")
        else:
            good += 1
    rep.ob("V7", not probs and good > 0, NC.node, NC, construct="bond info of atom symbols",
           how="order = smiles_to_bond(group 1 of the atom pattern); folded range %s" % (m["tables"]["atom_orders"],),
           witness="; ".join(sorted(set(probs))) or None, nontrivial=True,
           key="prefix-order/" + ("ok" if not probs else "bad"))
    lo, hi = m["tables"]["atom_orders"]
    rep.ob("V7", lo >= 1 and hi <= 3, None, None, loc="selfies/grammar_rules.py", construct="orders of atom-symbol prefixes %s" % (ctx.cache.get("atom_prefix_orders"),),
           how="every prefix order is in 1..3", witness=None if (lo >= 1 and hi <= 3) else "prefix order outside 1..3", key="prefix-range")


# ----------------------------------------------------------------------------- W writer
def check_writer(ctx, rep):
    W = None
    mts = ctx.fn("selfies.utils.smiles_utils.mol_to_smiles")
    for s in ctx.cg.sites(mts):
        for g in s.callees:
            if g.module is mts.module and any(isinstance(n, ast.While) for n in own_nodes(g.node)):
                W = g
    if W is None:
        raise AnalysisError("SMILES writer loop not found")
    # --- W1: stack discipline
    pushes = []   # (node, tuple display)
    for n in own_nodes(W.node):
        if isinstance(n, ast.Call) and isinstance(n.func, ast.Attribute) and n.func.attr == "append" and \
                isinstance(n.func.value, ast.Name) and n.args and isinstance(n.args[0], ast.Tuple):
            pushes.append(n)
    stack_name = None
    for n in own_nodes(W.node):
        if isinstance(n, ast.While) and isinstance(n.test, ast.Name):
            stack_name = n.test.id
    pushes = [p for p in pushes if p.func.value.id == stack_name]
    # an emission of a literal is any call that passes it (list.append or a local emit helper)
    opens = [n for n in own_nodes(W.node) if isinstance(n, ast.Call) and n.args and isinstance(n.args[-1], ast.Constant)
             and n.args[-1].value == "("]
    closes = [n for n in own_nodes(W.node) if isinstance(n, ast.Call) and n.args and isinstance(n.args[-1], ast.Constant)
              and n.args[-1].value == ")"]
    probs = []
    if stack_name is None or len(opens) != 1 or len(closes) != 1 or not pushes:
        raise AnalysisError("SMILES writer shape not recognised (stack loop, one '(' site, one ')' site, child push): "
                            "cannot decide W1")
    else:
        # condition guarding "("
        open_cond = _guard_of(W.node, opens[0])
        close_cond = _guard_of(W.node, closes[0])
        # the flag component: the name tested by close_cond, unpacked from stack[-1] at a fixed position
        flag_pos = None
        for n in own_nodes(W.node):
            if isinstance(n, ast.Assign) and isinstance(n.targets[0], ast.Tuple) and isinstance(n.value, ast.Subscript) \
                    and isinstance(n.value.value, ast.Name) and n.value.value.id == stack_name:
                names = [e.id if isinstance(e, ast.Name) else None for e in n.targets[0].elts]
                if isinstance(close_cond, ast.Name) and close_cond.id in names:
                    flag_pos = names.index(close_cond.id)
                    arity = len(names)
        if flag_pos is None:
            probs.append("')' is not guarded by a flag unpacked from the stack top")
        else:
            child_pushes = [p for p in pushes if len(p.args[0].elts) == arity and _inside(W.node, p, ast.While)]
            for p in child_pushes:
                flag = p.args[0].elts[flag_pos]
                if open_cond is None or unparse(flag) != unparse(open_cond):
                    probs.append("flag pushed with a child (%s) is not the condition under which '(' was emitted (%s)"
                                 % (unparse(flag), unparse(open_cond) if open_cond is not None else "always"))
            # re-pushes of the current frame must carry the flag unchanged
            for n in own_nodes(W.node):
                if isinstance(n, ast.Assign) and isinstance(n.targets[0], ast.Subscript) and isinstance(n.targets[0].value, ast.Name) \
                        and n.targets[0].value.id == stack_name and isinstance(n.value, ast.Tuple) and len(n.value.elts) == arity:
                    if unparse(n.value.elts[flag_pos]) != close_cond.id:
                        probs.append("flag is altered when the frame is updated")
            # root push: flag False
            roots = [p for p in pushes if not _inside(W.node, p, ast.While)]
            init = [n for n in own_nodes(W.node) if isinstance(n, ast.Assign) and isinstance(n.targets[0], ast.Name)
                    and n.targets[0].id == stack_name and isinstance(n.value, ast.List)]
            for n in init:
                for e in n.value.elts:
                    if isinstance(e, ast.Tuple) and len(e.elts) == arity:
                        f = e.elts[flag_pos]
                        if not (isinstance(f, ast.Constant) and f.value is False):
                            probs.append("root frame is pushed with a closing flag that is not False")
            # ")" emitted only on the pop path
            pop_block = _enclosing_block(W.node, closes[0])
            if not any(isinstance(x, ast.Expr) and isinstance(x.value, ast.Call) and isinstance(x.value.func, ast.Attribute)
                       and x.value.func.attr == "pop" for x in pop_block):
                probs.append("')' is not emitted together with the pop of the finished frame")
    rep.ob("W1", not probs, W.node, W, construct="branch parentheses of the writer",
           how="'(' condition == pushed flag; ')' emitted exactly under the popped flag", witness="; ".join(sorted(set(probs))) or None,
           nontrivial=True, key="parens/" + ("ok" if not probs else "+".join(sorted(set(p[:30] for p in probs)))))

    # --- W2 / W3: ring labels
    h = RingLabelHooks()
    eng = Engine(ctx, h)
    fr = eng.run_function(W)
    if not h.label_appends:
        raise AnalysisError("ring-label emission not found in the writer")
    groups = {}
    for node, val, st, pct in h.label_appends:
        groups.setdefault((id(node), pct), []).append((node, st))
    L = Lin.var(h.label_term) if h.label_term is not None else None
    for (nid, pct), lst in groups.items():
        node = lst[0][0]
        if L is None:
            continue
        if pct:
            ok_lo = all(st.entails(ge(L, 10)) for _, st in lst)
            ok_hi = all(st.entails(le(L, 99)) for _, st in lst)
            rep.ob("W2", ok_lo, node, W, construct="'%' + label", how="label >= 10 on the '%' path",
                   witness=None if ok_lo else "'%' emitted for a label that may be < 10", key="pct/lower", nontrivial=True)
            rep.ob("W2", ok_hi, node, W, construct="'%' + label: two digits", how="label <= 99 on the '%' path",
                   witness=None if ok_hi else "ring label is unbounded: the 100th ring is written as %100, which a SMILES reader "
                   "parses as ring 10 followed by ring 0", key="ring-label-unbounded", nontrivial=True)
        else:
            ok = all(st.entails(le(L, 9)) and st.entails(ge(L, 1)) for _, st in lst)
            rep.ob("W2", ok, node, W, construct="label without '%'", how="1 <= label <= 9 on the path that omits '%'",
                   witness=None if ok else "a label that may exceed 9 (or be < 1) is written without '%'", key="plain/upper", nontrivial=True)
    rep.floor("W2", 3)
    # W3: one table, keyed by normalised endpoints
    probs = []
    if h.setdefault_calls != 1:
        probs.append("ring labels are not obtained from exactly one table look-up site (%d)" % h.setdefault_calls)
    if not h.key_normalised:
        probs.append("label key is not the order-normalised endpoint pair (min, max): the two ends of a ring bond get different labels")
    if not h.label_fresh:
        probs.append("a new label is not len(table) + 1")
    rep.ob("W3", not probs, W.node, W, construct="ring label allocation", how="single table keyed by (min(src,dst), max(src,dst)); new label = len(table)+1",
           witness="; ".join(probs) or None, nontrivial=True, key="labels/" + ("ok" if not probs else "+".join(sorted(p[:30] for p in probs))))
    # the label table is one object per mol_to_smiles call, shared by all fragments
    recvs = {c.func.value.id for c in ast.walk(W.node) if isinstance(c, ast.Call) and isinstance(c.func, ast.Attribute)
             and c.func.attr == "setdefault" and isinstance(c.func.value, ast.Name)}
    pt = ctx.pt
    for nm in sorted(recvs):
        objs = [i for i in pt.v(W.qual, nm) if isinstance(i, tuple) and i[0] == "alloc"]
        ok = len(objs) == 1
        why = None
        if not ok:
            why = "ring-label table has %d allocation sites" % len(objs)
        else:
            scope, node = pt.objs[objs[0]].site
            g = ctx.db.funcs.get(scope)
            if g is None:
                ok, why = False, "ring-label table is module state"
            else:
                for n2 in own_nodes(g.node):
                    if isinstance(n2, (ast.For, ast.While)) and any(x is node for x in ast.walk(n2)):
                        ok, why = False, ("ring-label table is re-created inside a loop of %s (per fragment): a ring bond between "
                                          "fragments gets two different labels, and labels repeat" % g.name)
        rep.ob("W3", ok, pt.objs[objs[0]].site[1] if objs else W.node, ctx.db.funcs.get(objs[0][1]) if objs else W,
               construct="ring-label table %s" % nm, how="one table per output, allocated outside the fragment loop",
               witness=why, nontrivial=True, key="label-table/" + ("ok" if ok else "not-shared"))
    # ring bonds stored in both adjacency lists
    arb = ctx.fn("selfies.mol_graph.MolecularGraph.add_ring_bond")
    loc_calls = [s for s in ctx.cg.sites(arb) if any(g.name == "_add_bond_at_loc" for g in s.callees)]
    ctor = [n for n in own_nodes(arb.node) if isinstance(n, ast.Call) and isinstance(n.func, ast.Name) and n.func.id == "DirectedBond"]
    ok = len(loc_calls) == 2 and len(ctor) == 2
    if ok:
        ends = [tuple(unparse(a) for a in c.args[:2]) for c in ctor]
        ok = ends[0] == ends[1][::-1] and ends[0][0] != ends[0][1]
    rep.ob("W3", ok, arb.node, arb, construct="add_ring_bond stores both directions",
           how="two directed bonds with swapped endpoints, each inserted into its source's adjacency list",
           witness=None if ok else "a ring bond is not stored as two directed bonds with swapped endpoints", key="both-directions", nontrivial=True)


class RingLabelHooks(Hooks):
    def __init__(self):
        self.label_appends = []
        self.label_term = None
        self.setdefault_calls = 0
        self.key_normalised = False
        self.label_fresh = False
        self._sites = set()

    def on_call(self, eng, fr, node, callee, args, kwargs, st):
        if isinstance(callee, tuple) and callee[0] == "method" and callee[1] == "setdefault" and fr.depth == 0:
            if id(node) not in self._sites:
                self._sites.add(id(node))
                self.setdefault_calls += 1
            key, default = (args + [None, None])[:2]
            # key normalised?
            if isinstance(key, Tup) and len(key.items) == 2:
                a, b = key.items
                la, lb = num_of(a), num_of(b)
                if la is not None and lb is not None and st.entails(le(la, lb)):
                    src = {t[2] for t in (la.terms() | lb.terms()) if isinstance(t, tuple) and len(t) == 4 and t[0] == "attr"}
                    if src == {"src", "dst"}:
                        self.key_normalised = True
            dl = num_of(default) if default is not None else None
            if dl is not None:
                lens = [t for t in dl.terms() if isinstance(t, tuple) and t[0] == "len"]
                if len(lens) == 1 and (dl - Lin.var(lens[0])).is_const() and (dl - Lin.var(lens[0])).k == 1:
                    self.label_fresh = True
            t = ("ringlabel",)
            self.label_term = t
            s2 = st.copy()
            s2.add_lin(ge(Lin.var(t), 1))
            s2.epoch += 1
            return [(s2, Num(Lin.var(t)))]
        if fr.depth == 0 and args and not (isinstance(callee, tuple) and callee[0] == "method" and callee[1] == "setdefault"):
            # any call that is handed the literal "%" or str(label) emits it (list.append or an emit helper)
            for v in args:
                if isinstance(v, Con) and v.value == "%":
                    self.label_appends.append((node, v, st, True))
                elif isinstance(v, Str) and self.label_term is not None:
                    # one emitted string that ends in the label:  <bond char> ["%"] str(label)
                    parts = list(v.parts)
                    for i_, p_ in enumerate(parts):
                        if p_[0] == "sym" and isinstance(p_[1], tuple) and p_[1][0] == "str" \
                                and any(k == ("num", Lin.var(self.label_term).key()) for k in p_[1][1]):
                            pct = i_ > 0 and parts[i_ - 1][0] == "lit" and parts[i_ - 1][1].endswith("%")
                            L = Lin.var(self.label_term)
                            if pct or not st.entails(ge(L, 10)):
                                self.label_appends.append((node, v, st, pct))
                elif isinstance(v, Unk) and isinstance(v.term, tuple) and v.term[0] == "str" and self.label_term is not None \
                        and any(k == ("num", Lin.var(self.label_term).key()) for k in v.term[1]) \
                        and not (isinstance(callee, tuple) and callee[0] == "ext" and callee[1].endswith("str")):
                    L = Lin.var(self.label_term)
                    if not st.entails(ge(L, 10)):
                        self.label_appends.append((node, v, st, False))
        return None


def _guard_of(fnode, target):
    """innermost `if` test whose body contains target (None if unconditional inside its block)"""
    best = None

    def walk(node, guard):
        nonlocal best
        for ch in ast.iter_child_nodes(node):
            if ch is target:
                best = guard
                return True
            if isinstance(ch, ast.If):
                for b in ch.body:
                    if b is target or any(x is target for x in ast.walk(b)):
                        if _direct_stmt(b, target):
                            best = ch.test
                            return True
                        return walk_if(ch, ch.body, ch.test)
                for b in ch.orelse:
                    if b is target or any(x is target for x in ast.walk(b)):
                        neg = ast.UnaryOp(op=ast.Not(), operand=ch.test)
                        if _direct_stmt(b, target):
                            best = neg
                            return True
                        return walk_if(ch, ch.orelse, neg)
                if any(x is target for x in ast.walk(ch.test)):
                    return False
            elif any(x is target for x in ast.walk(ch)):
                return walk(ch, guard)
        return False

    def walk_if(ifnode, body, guard):
        nonlocal best
        for b in body:
            if any(x is target for x in ast.walk(b)):
                if isinstance(b, ast.If):
                    m = ast.Module(body=[b], type_ignores=[])
                    return walk(m, guard)
                return walk(b, guard) or _set(guard)
        return False

    def _set(g):
        nonlocal best
        best = g
        return True
    walk(fnode, None)
    return best


def _direct_stmt(stmt, target):
    """target is the expression of this simple statement"""
    return isinstance(stmt, ast.Expr) and stmt.value is target


def _inside(fnode, target, kind):
    for n in own_nodes(fnode):
        if isinstance(n, kind) and any(x is target for x in ast.walk(n)):
            return True
    return False


def _enclosing_block(fnode, target):
    for n in [fnode] + list(own_nodes(fnode)):
        for fld in ("body", "orelse", "finalbody"):
            blk = getattr(n, fld, None)
            if isinstance(blk, list):
                for st in blk:
                    if isinstance(st, ast.If) and any(x is target for x in ast.walk(st.test)):
                        continue
                    if st is target or (isinstance(st, ast.Expr) and st.value is target):
                        return blk
                    if isinstance(st, ast.If) and not isinstance(st, (ast.For, ast.While)):
                        # `if flag: derived.append(")")` directly inside the block
                        if any((isinstance(b, ast.Expr) and b.value is target) for b in st.body):
                            return blk
    return []


def run(ctx, rep):
    m = decmodel.extract(ctx)
    R = m["roles"]
    dec = ctx.api("decoder")
    rep.ob("V0", R.get("top_state", 0) == 0, R["top_call"], dec, construct="top-level derivation call",
           how="passes the constants 0 (state) and None (previous atom): parameters %s, %s" % (R["budget"], R["root"]),
           witness=None if R.get("top_state", 0) == 0 else
           "the derivation starts in state %r with no previous atom: the first atom is bonded to nothing" % (R.get("top_state"),),
           key="top-call", nontrivial=True)
    # every non-recursive call of D must be the constant one (found by role); recursive calls are V3
    for f in ctx.db.funcs.values():
        for s in ctx.cg.sites(f):
            if R["D"] in s.callees and f is not R["D"] and s.node is not R["top_call"]:
                rep.ob("V0", False, s.node, f, witness="additional entry into the derivation with an unchecked initial state")
    check_loop(ctx, rep, m)
    # raise paths of the derivation other than DecoderError break the case analysis
    seen = set()
    for st, node, exc in m["frame"].raises:
        if exc != "DecoderError" and (exc, getattr(node, "lineno", 0)) not in seen:
            seen.add((exc, getattr(node, "lineno", 0)))
            rep.ob("V1", False, node, R["D"], construct="%s: %s" % (exc, unparse(node)[:60]),
                   witness="the derivation can raise %s: a precondition of a transition helper is not established" % exc)
    check_second_pass(ctx, rep, m)
    check_bookkeeping(ctx, rep)
    check_capacity(ctx, rep, m)
    # the table look-up behind the capacity (shared with C06/Q2): listed value iff listed, else '?'
    from sa.effects import Effects
    from rules.C06 import check_capacity_lookup
    eff = Effects(ctx)
    check_capacity_lookup(ctx, rep, eff, eff.table_vars()[1], "V7")
    # V8: the capacities used are those of the table in force: every memo of the table is cleared on every change, and
    # the table can change only through the setter (it is a module-owned copy)   (shared with C06/Q4, C12/G2)
    from rules.shared import memo_readers, MemoFlow, check_table_owned
    setter, table_vars = eff.table_vars()
    plain, _sk = memo_readers(ctx, eff, table_vars)
    MemoFlow(ctx, eff, setter, rep, plain, table_vars).run(frozenset())
    for o in rep.obs:
        if o.rule == "G6":
            o.rule = "V8"
            o.key = o.key.replace("/G6/", "/V8/")
            rep.counts["V8"] = rep.counts.get("V8", 0) + 1
    rep.counts.pop("G6", None)
    check_table_owned(ctx, rep, "V8")
    rep.floor("V8", 3)
    check_writer(ctx, rep)
    rep.analysed.update({"derivation_function": R["D"].qual, "second_pass": R["second"].qual,
                         "iteration_paths": len(decmodel.iterations(m))})
