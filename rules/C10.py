"""C10 — encoder output is decodable and standardised (clause level).

L1 emit ⊆ accept, per token kind: atom tokens "[" bond atom_to_smiles(fields, brackets=False) "]" over the
   field domains the SMILES atom reader produces ⊆ the decoder's atom language; ring tokens ⊆ ring-table keys;
   branch tokens ⊆ branch-table keys; index tokens ⊆ INDEX_ALPHABET (documented limit: suffix 1..3)
L2 standard spelling: every atom token the encoder can print is in the canonical form (canonical decimal
   isotope, 'H' + one digit, sign + canonical magnitude, element from the periodic table), so equivalent input
   spellings cannot yield different symbols through spelling alone
L3 re-readable: every atom the decoder's writer can print is accepted by the SMILES atom reader
L4 what strict=True accepts is within capacity with explicit hydrogens counted (the comparator rule of C06/Q1), so an
   accepted atom is not one the decoder refuses for its hydrogens
L5 the decoder's atom-symbol reader drops no written field: every capture group that is non-empty on a path feeds a field
   of the atom built on that path
L6 a written number is the number read (both atom readers): field == +/- int(digits) on every path where digits are parsed
L7 a number held is the number written: the atom printer omits a numeric field only where it equals the reader's default
L8 order of an atom's symbols (necessary for the re-encoding fixed point): the decoder files every ring bond in front of the atom's
   other bonds (C02/T9) and its writer prints ring digits first, so re-encoding emits ring symbols before branches; the encoder
   must therefore never emit a ring symbol of an atom after one of that atom's branches
Not decided: encoder(decoder(encoder(s))) == encoder(s) beyond atom spelling (traversal orders).
"""
import ast
import string

from sa import AnalysisError
from sa.db import unparse, own_nodes
from sa.sym import Engine, Hooks, Num, Con, Tup, Obj, Unk, Str, Ref, Frame, State
from sa.strlang import IntFacts, Unsupported
from sa import reglang as RL
from rules import symlang
from spec import tables as SPEC

REGISTER = True
META = {
    "explanation": "Regular-language inclusion with shortest witnesses: the language of tokens the encoder's printers can "
                   "emit is derived by abstract string evaluation of smiles_to_atom -> atom_to_smiles / the ring and branch "
                   "format strings (field domains from the regex groups, int() of digit groups, '{:+}' formatting), and "
                   "compared with the language the decoder accepts (its atom pattern with the element group restricted "
                   "to ELEMENTS; folded ring/branch tables). Covers all molecules, charges, isotopes and H counts.",
    "trusted_base": ["re semantics as modelled by sa.reglang (incl. '$' before a trailing newline, Unicode \\d)",
                     "str(int) / '{:+}'.format(int) produce canonical decimal numerals"],
    "assumptions": ["ring spans and branch lengths below 16^3 (documented limit): index suffix in 1..3"],
    "level_text": "Static language inclusion emit ⊆ accept for every token kind, plus canonical-spelling inclusion; all inputs.",
    "level_note": "Clause-level: decodability of spelling and standardisation, plus two necessary conditions of the re-encoding "
                  "fixed point (numbers read and written back unchanged L6/L7; ring symbols before branches L8). The fixed point "
                  "itself and capacity-related rejections are value-level and not decided.",
    "technique": "regular-language inclusion (automata from regex ASTs and from abstract string evaluation of the printers) + "
                 "path-sensitive abstract interpretation of the atom readers / printer + may-dataflow ordering rule over the fragment printer",
}


def format_templates(ctx, f):
    """constant format templates used in f: [(call node, template, args)]"""
    out = []
    for n in own_nodes(f.node):
        if isinstance(n, ast.Call) and isinstance(n.func, ast.Attribute) and n.func.attr == "format" \
                and isinstance(n.func.value, ast.Constant) and isinstance(n.func.value.value, str):
            out.append((n, n.func.value.value, n.args))
    return out


def prefix_language(ctx, f, call):
    """language of the string returned by the package function called in `call` (bond prefixes)"""
    site = {id(s.node): s for s in ctx.cg.sites(f)}.get(id(call))
    if site is None or len(site.callees) != 1:
        raise AnalysisError("prefix of a ring/branch token is not computed by a single package function")
    g = site.callees[0]
    h = IntFacts(ctx)
    eng = Engine(ctx, h)
    h.bind(eng)
    h.sl.field_domain["stereo"] = symlang.stereo_domain(ctx)
    args = {}
    for i, p in enumerate(g.posparams):
        args[p] = Obj(("bond", i), "selfies.mol_graph.DirectedBond")
    for k in call.keywords:
        if isinstance(k.value, ast.Constant):
            args[k.arg] = Con(k.value.value)
    for i, a in enumerate(call.args):
        if isinstance(a, ast.Constant):
            args[g.posparams[i]] = Con(a.value)
    fr = eng.run_function(g, args)
    total = None
    for st, v in fr.returns:
        d = h.sl.lang(v, st)
        total = d if total is None else total.union(d)
    if total is None:
        raise AnalysisError("%s has no return path" % g.qual)
    return total, g


def run(ctx, rep):
    dec = symlang.dec_atom(ctx)
    enc = symlang.enc_atom_tokens(ctx)
    encf = ctx.api("encoder")
    from rules.shared import atom_token_printer
    tokf = atom_token_printer(ctx)
    # ---- L1 atoms
    rep.ob("L1", dec["ambiguity"] is None, None, None, loc="selfies/grammar_rules.py", construct="decoder atom pattern, element group %d" % dec["elem_group"],
           how="group assignment is unambiguous", witness=dec["ambiguity"], key="atom/unambiguous", nontrivial=True)
    rep.ob("L1", dec["organic_ok"], None, None, loc="selfies/constants.py", construct="ORGANIC_SUBSET ⊆ ELEMENTS", how="folded sets",
           witness=None if dec["organic_ok"] else "an organic-subset symbol is not an element", key="atom/organic")
    ok, w = enc["dfa"].included_in(dec["dfa"])
    rep.ob("L1", ok, tokf.node, tokf, construct="atom tokens the encoder prints (%d abstract atoms; e.g. %s)"
           % (enc["inner"]["n_atoms"], ", ".join(enc["inner"]["samples"][:6])),
           how="language inclusion in the decoder's atom language", nontrivial=True, key="atom/emit-in-accept",
           witness=None if ok else "encoder can print %r, which the decoder's atom pattern rejects" % w)
    # ---- L2 canonical
    canon = symlang.canonical_atom(ctx)
    ok, w = enc["dfa"].included_in(canon)
    rep.ob("L2", ok, tokf.node, tokf, construct="spelling of printed atom tokens", how="inclusion in the canonical spelling language",
           nontrivial=True, key="atom/canonical",
           witness=None if ok else "encoder can print the non-standard spelling %r (equivalent inputs give different symbols)" % w)
    # ---- L1 ring / branch tokens
    import re as _re
    shape = _re.compile(r"^\[\{\}[A-Za-z]+\{\}\]$")
    from rules.shared import fragment_printer, token_templates
    _core, frag = fragment_printer(ctx)
    templates = [(owner, node, tmpl, args) for owner, node, tmpl, args in token_templates(ctx, frag) if shape.match(tmpl)]
    if len(templates) < 2:
        raise AnalysisError("ring/branch token templates ('[{}Name{}]') not found in the encoder")
    tables = {"Ring": set(__import__("rules.symlang", fromlist=["x"]).symbol_table(ctx, "ring")),
              "Branch": set(__import__("rules.symlang", fromlist=["x"]).symbol_table(ctx, "branch"))}
    allkeys = tables["Ring"] | tables["Branch"]
    n_tmpl = 0
    for owner, node, tmpl, args in templates:
        n_tmpl += 1
        fields = list(string.Formatter().parse(tmpl))
        lits = [f[0] for f in fields]
        kind = lits[1]
        if len(args) != 2:
            raise AnalysisError("unexpected token template %r" % (tmpl,))
        from rules.shared import resolve_local
        args = [resolve_local(owner, a_) for a_ in args]
        if not (isinstance(args[1], ast.Call) and unparse(args[1].func) == "len"):
            raise AnalysisError("%s token is not built from (prefix, len(index symbols))" % kind)
        if isinstance(args[0], ast.Call) and not (kind == "Ring" and len(args[0].args) == 2 and not args[0].keywords):
            pre, g = prefix_language(ctx, owner, args[0])
        elif kind.lower().startswith("ring") or not isinstance(args[0], ast.Call):
            # the prefix of a ring token: a function of the two directed bonds, or a local of the formatting function
            from rules.shared import ring_prefix_paths
            rp = ring_prefix_paths(ctx, owner, node, args[0])
            pre = None
            for st_, v_ in rp["paths"]:
                d_ = rp["h"].sl.lang(v_, st_)
                pre = d_ if pre is None else pre.union(d_)
            if pre is None:
                raise AnalysisError("ring prefix has no analysed path")
        else:
            raise AnalysisError("%s token is not built from (prefix function, len(index symbols))" % kind)
        suffix = ("set", frozenset("123"))          # documented limit: 1..3 index symbols
        tail = lits[2] if len(lits) > 2 else ""
        lang = RL.cat(("lit", lits[0]), pre, ("lit", lits[1]), suffix, ("lit", tail))
        toks = lang.enumerate(limit=500)
        if toks is None:
            rep.ob("L1", False, node, frag, construct="%s tokens" % kind, witness="the set of %s tokens the encoder can print is not finite" % kind)
            continue
        table = tables.get(kind, allkeys)
        missing = sorted(set(toks) - table)
        rep.ob("L1", not missing, node, frag, construct="%d %s tokens the encoder can print" % (len(toks), kind),
               how="each is a key of the decoder's %s table" % kind.lower(), nontrivial=True, key="%s/emit-in-accept" % kind.lower(),
               witness=None if not missing else "encoder can print %s, not in the decoder's table" % missing[:4])
        ctx.cache["enc_%s_tokens" % kind.lower()] = toks
    if n_tmpl < 2:
        raise AnalysisError("expected ring and branch token templates")
    # index tokens: whatever get_selfies_from_index returns comes from INDEX_ALPHABET (C16/I5), all of which the decoder knows
    alpha = ctx.fold.global_value("selfies.constants", "INDEX_ALPHABET")
    bad = [s for s in alpha if not (dec["dfa"].accepts(s) or s in tables["Ring"] or s in tables["Branch"])]
    rep.ob("L1", not bad, None, None, loc="selfies/constants.py", construct="index symbols", how="each is an atom / ring / branch symbol of the decoder",
           witness=None if not bad else "index symbols unknown to the decoder: %s" % bad, key="index/emit-in-accept")
    # what the decoder accepts for a symbol is a function of the symbol and the table in force, not of earlier tables
    from rules.shared import check_history_independence
    check_history_independence(ctx, rep, "L1")
    # ---- L3 decoder-side printer ⊆ encoder-side reader
    check_rereadable(ctx, rep, dec)
    rep.floor("L1", 6)
    # L4: "decoding it under K never raises" presupposes that strict=True refuses atoms the decoder will refuse
    # (capacity counts explicit hydrogens): the acceptance comparator of C06/Q1, shared
    from rules.C06 import check_acceptance
    check_acceptance(ctx, rep, "L4")
    # L5: what the decoder reads back from an atom symbol keeps every written field (isotope 0, H0 ... included), so the
    # decoded SMILES re-encodes to the same symbol
    symlang.check_reader_keeps_groups(ctx, rep, "L5")
    symlang.check_parsed_numerals(ctx, rep, "L6")
    symlang.check_printer_keeps_fields(ctx, rep, "L7")
    check_ring_symbols_first(ctx, rep, "L8")
    rep.analysed.update({"abstract_reader_atoms": enc["inner"]["n_atoms"], "decoder_atom_dfa_states": len(dec["dfa"].trans),
                         "encoder_atom_dfa_states": len(enc["dfa"].trans)})


def check_rereadable(ctx, rep, dec):
    """every atom spelling the decoder's writer can print is accepted by smiles_to_atom"""
    eng, h, fr = dec["eng"], dec["hooks"], dec["frame"]
    NC = symlang.atom_parser(ctx)
    atoms = []
    frame = Frame(NC, 0)
    for st, v in fr.returns:
        if isinstance(v, Tup) and len(v.items) == 2 and isinstance(v.items[1], Ref) and v.items[1].kind == "partial":
            for st2, obj in eng.call(frame, NC.node, v.items[1], [], {}, st):
                if isinstance(obj, Obj):
                    atoms.append((st2, obj))
    if not atoms:
        raise AnalysisError("decoder atom factories not found")
    sigs = {}
    for st, o in atoms:
        sigs.setdefault(symlang._sig(h.sl, st, o), (st, o))
    printed, samples = symlang.printed_language(ctx, eng, h.sl, list(sigs.values()), True)
    # reader language: bracketed pattern with capitalised element in ELEMENTS, or a bare organic / aromatic symbol
    pat = ctx.fold.global_value("selfies.utils.smiles_utils", "SMILES_BRACKETED_ATOM_PATTERN")
    r, groups, tree = RL.parse_pattern(pat.pattern)
    E = symlang.elements(ctx)
    # element group: the one whose capitalised value is checked against ELEMENTS
    ra = symlang.reader_atoms(ctx)
    eg = None
    for st, o in ra["atoms"]:
        ev = o.fields.get("element")
        if isinstance(ev, Str) and len(ev.parts) == 1 and ev.parts[0][0] == "sym":
            org = ra["eng"].origin.get(ev.parts[0][1])
            if org and org[0] == "bmeth" and isinstance(org[2], Unk) and org[2].term[0] == "group":
                eg = org[2].term[2]
    if eg is None:
        raise AnalysisError("element group of the SMILES atom pattern not identified")
    elems = sorted(E | {e.lower() for e in E})
    r2 = RL.from_sre(tree, {}, {eg: ("alt", [("lit", e) for e in elems])})
    bare = set(ctx.fold.global_value("selfies.constants", "ORGANIC_SUBSET")) | set(ctx.fold.global_value("selfies.constants", "AROMATIC_SUBSET"))
    reader = RL.compile_regex(r2).union(RL.finite(bare))
    ok, w = printed.included_in(reader)
    a2s = ctx.fn("selfies.utils.smiles_utils.atom_to_smiles")
    rep.ob("L3", ok, a2s.node, a2s, construct="atoms the decoder's writer prints (e.g. %s)" % ", ".join(samples[:6]),
           how="inclusion in the language the SMILES atom reader accepts", nontrivial=True, key="atom/re-readable",
           witness=None if ok else "decoder can write the atom %r, which smiles_to_atom rejects" % w)


def check_ring_symbols_first(ctx, rep, RULE="L8"):
    """L8: in the fragment printer, no ring token is formatted for an atom after a branch of the same atom has been printed.
    May-dataflow over the structured control flow (sa/flow.py): the state records "a branch was printed since the last atom token";
    events: A = the atom-token printer is called (a new atom: state reset), B = the recursive call (a branch), R = a ring token
    is made (its template is formatted here, or the helper that formats it is called)."""
    from sa.flow import Forward
    from rules.shared import fragment_printer, token_templates, atom_token_printer
    _encf, frag = fragment_printer(ctx)
    atomp = atom_token_printer(ctx)
    ring_nodes, ring_helpers = set(), set()
    for owner, node, tmpl, args in token_templates(ctx, frag):
        if "Ring" in tmpl:
            if owner is frag or getattr(owner, "outer", None) is frag:
                ring_nodes.add(id(node))
            else:
                ring_helpers.add(owner)
    if not ring_nodes and not ring_helpers:
        raise AnalysisError("ring token template not found in the encoder")
    sites = {id(s_.node): s_ for s_ in ctx.cg.sites(frag)}
    bad = {}
    seen = {"A": 0, "B": 0, "R": 0}

    class Order(Forward):
        def join(self, a, b):
            return a | b

        def simple(self, st, state):
            node_ = st.value if hasattr(st, "for_node") else st
            for x in ast.walk(node_):
                ev = None
                if id(x) in ring_nodes:
                    ev = "R"
                elif isinstance(x, ast.Call):
                    s_ = sites.get(id(x))
                    if s_ is not None:
                        if frag in s_.callees:
                            ev = "B"
                        elif atomp in s_.callees:
                            ev = "A"
                        elif any(g in ring_helpers for g in s_.callees):
                            ev = "R"
                if ev is None:
                    continue
                seen[ev] += 1
                if ev == "A":
                    state = frozenset()
                elif ev == "B":
                    state = state | {"branch"}
                elif "branch" in state:
                    bad[id(x)] = x
            return state
    # A pass over bonds that are ordered ring-first -- `sorted(<out-bonds>, key=lambda b: not b.ring_bond)` (stable: False < True) --
    # whose body is one `if <bond>.ring_bond: ... else: ...` is two passes, the ring bonds and then the others: it is analysed as
    # the two loops it amounts to, so that a branch printed in it does not flow back to the ring arm
    from rules.shared import resolve_local
    import copy

    def ring_first(it):
        e = it
        if isinstance(e, ast.Call) and unparse(e.func) == "enumerate" and e.args:
            e = e.args[0]
        e = resolve_local(frag, e)
        if not (isinstance(e, ast.Call) and unparse(e.func) == "sorted" and len(e.args) == 1):
            return False
        kw = {k.arg: k.value for k in e.keywords}
        if set(kw) != {"key"} or not isinstance(kw["key"], ast.Lambda) or len(kw["key"].args.args) != 1:
            return False
        par = kw["key"].args.args[0].arg
        b = kw["key"].body
        return isinstance(b, ast.UnaryOp) and isinstance(b.op, ast.Not) and isinstance(b.operand, ast.Attribute) and b.operand.attr == "ring_bond" \
            and isinstance(b.operand.value, ast.Name) and b.operand.value.id == par
    _stmt = Order.stmt
    phase = {"var": None, "ring": None}

    def eval3(e):
        """truth of a loop-body test under the phase assumption <var>.ring_bond == phase['ring'] (None: unknown)"""
        if isinstance(e, ast.Attribute) and e.attr == "ring_bond" and isinstance(e.value, ast.Name) and e.value.id == phase["var"]:
            return phase["ring"]
        if isinstance(e, ast.UnaryOp) and isinstance(e.op, ast.Not):
            v = eval3(e.operand)
            return None if v is None else (not v)
        if isinstance(e, ast.BoolOp):
            vs = [eval3(v) for v in e.values]
            if isinstance(e.op, ast.And):
                return False if any(v is False for v in vs) else (True if all(v is True for v in vs) else None)
            return True if any(v is True for v in vs) else (False if all(v is False for v in vs) else None)
        return None

    def test(self, expr, state):
        v = eval3(expr) if phase["var"] is not None else None
        return (state, None) if v is True else ((None, state) if v is False else (state, state))
    Order.test = test

    def stmt(self, st, state, ctx_):
        if isinstance(st, ast.For) and phase["var"] is None and ring_first(st.iter):
            flagged = {x.value.id for x in ast.walk(st) if isinstance(x, ast.Attribute) and x.attr == "ring_bond" and isinstance(x.value, ast.Name)}
            tgt = {x.id for x in ast.walk(st.target) if isinstance(x, ast.Name)} & flagged
            if len(tgt) == 1 and not st.orelse:
                # first every ring bond, then every other bond: the loop is run once under each assumption, in that order
                phase["var"] = next(iter(tgt))
                try:
                    phase["ring"] = True
                    state = _stmt(self, st, state, ctx_)
                    phase["ring"] = False
                    return _stmt(self, st, state, ctx_) if state is not None else None
                finally:
                    phase["var"] = phase["ring"] = None
        return _stmt(self, st, state, ctx_)
    Order.stmt = stmt
    Order(frag.node).run(frozenset())
    if not (seen["A"] and seen["B"] and seen["R"]):
        rep.note("L8: atom / branch / ring events of the fragment printer not all located (%s): symbol order not decided" % seen)
        return
    w = None
    if bad:
        x = next(iter(bad.values()))
        w = "a ring symbol can be emitted for an atom after one of its branches (line %d is reachable after the recursive call, in the " \
            "same pass over the atom's bonds): encoder('C1CC(F)1') = [C][C][C][Branch1][C][F][Ring1][Ring1], which decodes to C1CC1F, " \
            "which encodes to [C][C][C][Ring1][Ring1][F]" % x.lineno
    rep.ob(RULE, not bad, next(iter(bad.values())) if bad else frag.node, frag, construct="order of ring symbols and branches of one atom in the fragment printer",
           how="may-dataflow: no ring token is made after a branch was printed for the same atom", witness=w, nontrivial=True,
           key="ring-symbol-after-branch")
